(* ---- HList.v (prototype) : HandlerList of src/handler.rs:449-508 ---- *)
From Coq Require Import List Arith Lia Sorted.
Import ListNotations.

Inductive prio := High | Medium | Low.
Section HL.
Variable pr : nat -> prio.            (* priority of the handler with addition number h *)
Record hl := mkHl { before : nat; after : nat; entries : list nat }.
Definition hl_new := mkHl 0 0 [].

Definition insert_at (n : nat) (h : nat) (l : list nat) := firstn n l ++ h :: skipn n l.
Definition hl_insert (l : hl) (h : nat) : hl :=
  match pr h with
  | High => mkHl (before l + 1) (after l + 1) (insert_at (before l) h (entries l))
  | Medium => mkHl (before l) (after l + 1) (insert_at (after l) h (entries l))
  | Low => mkHl (before l) (after l) (entries l ++ [h])
  end.
Fixpoint position (h : nat) (l : list nat) : option nat :=
  match l with
  | [] => None
  | x :: t => if Nat.eqb x h then Some 0 else option_map S (position h t)
  end.
Definition hl_remove (l : hl) (h : nat) : hl :=
  match position h (entries l) with
  | Some idx =>
      let e := firstn idx (entries l) ++ skipn (S idx) (entries l) in
      if idx <? after l
      then mkHl (if idx <? before l then before l - 1 else before l) (after l - 1) e
      else mkHl (before l) (after l) e
  | None => l
  end.

Definition seg (p : prio) (X : list nat) := Forall (fun h => pr h = p) X /\ StronglySorted lt X.
Definition HlInv (l : hl) : Prop :=
  exists H M L, entries l = H ++ M ++ L /\ before l = length H /\ after l = length H + length M /\
                seg High H /\ seg Medium M /\ seg Low L.

Lemma firstn_len {A} (X Y : list A) : firstn (length X) (X ++ Y) = X.
Proof. rewrite firstn_app, firstn_all, Nat.sub_diag. cbn. apply app_nil_r. Qed.
Lemma skipn_len {A} (X Y : list A) : skipn (length X) (X ++ Y) = Y.
Proof. rewrite skipn_app, skipn_all, Nat.sub_diag. reflexivity. Qed.

Lemma seg_snoc p X h : seg p X -> pr h = p -> (forall x, In x X -> x < h) -> seg p (X ++ [h]).
Proof.
  intros [Hf Hs] Hp Hlt. split.
  - apply Forall_app. split; [auto|constructor; auto].
  - induction X as [|x X IH]; cbn; [repeat constructor|].
    inversion Hs; subst. inversion Hf; subst. constructor.
    + apply IH; auto. intros y Hy. apply Hlt. now right.
    + apply Forall_app. split; [auto|constructor; [apply Hlt; now left|constructor]].
Qed.

Ltac hl_split := split; [|split; [|split; [|split; [|split]]]].

Lemma insert_inv l h : HlInv l -> (forall x, In x (entries l) -> x < h) -> HlInv (hl_insert l h).
Proof.
  intros (H & M & L & He & Hb & Ha & SH & SM & SL) Hnew. unfold hl_insert.
  assert (inH : forall x, In x H -> x < h) by (intros; apply Hnew; rewrite He; apply in_or_app; auto).
  assert (inM : forall x, In x M -> x < h) by (intros; apply Hnew; rewrite He; apply in_or_app; right; apply in_or_app; auto).
  assert (inL : forall x, In x L -> x < h) by (intros; apply Hnew; rewrite He; apply in_or_app; right; apply in_or_app; auto).
  destruct (pr h) eqn:Ep; cbn [before after entries].
  - exists (H ++ [h]), M, L. unfold insert_at. rewrite He, Hb, firstn_len, skipn_len, app_length. cbn.
    hl_split; [now rewrite <- app_assoc|lia|lia|apply seg_snoc; auto|exact SM|exact SL].
  - exists H, (M ++ [h]), L. unfold insert_at. rewrite He, Ha, app_assoc, <- app_length, firstn_len, skipn_len, !app_length. cbn.
    hl_split; [now rewrite <- !app_assoc|lia|lia|exact SH|apply seg_snoc; auto|exact SL].
  - exists H, M, (L ++ [h]). rewrite He. cbn [before after entries].
    hl_split; [now rewrite <- !app_assoc|lia|lia|exact SH|exact SM|apply seg_snoc; auto].
Qed.

Lemma position_split h : forall l idx, position h l = Some idx ->
  exists X Y, l = X ++ h :: Y /\ length X = idx.
Proof.
  induction l as [|x t IH]; intros idx Hp; cbn in Hp; [discriminate|].
  destruct (Nat.eqb_spec x h) as [->|Hne].
  - inversion Hp; subst. exists [], t. auto.
  - destruct (position h t) as [j|] eqn:Ej; [|discriminate]. inversion Hp; subst.
    destruct (IH _ eq_refl) as (X & Y & -> & Hl). exists (x :: X), Y. cbn. auto.
Qed.

Lemma seg_remove p X Y h : seg p (X ++ h :: Y) -> seg p (X ++ Y).
Proof.
  intros [Hf Hs]. split.
  - apply Forall_app in Hf as [F1 F2]. inversion F2; subst. apply Forall_app; auto.
  - induction X as [|x X IH]; cbn in *.
    + now inversion Hs.
    + inversion Hs; subst. inversion Hf; subst. constructor; [apply IH; auto|].
      apply Forall_app in H2 as [G1 G2]. inversion G2; subst. apply Forall_app; auto.
Qed.

(* splitting X ++ h :: Y = H ++ M ++ L by where position idx = length X falls *)
Lemma app_split_at {A} (X Y P Q : list A) (h : A) : X ++ h :: Y = P ++ Q ->
  (exists P2, P = X ++ h :: P2 /\ Y = P2 ++ Q) \/ (exists Q1, X = P ++ Q1 /\ Q = Q1 ++ h :: Y).
Proof.
  revert P. induction X as [|x X IH]; intros P E; cbn in E.
  - destruct P as [|p P]; cbn in E.
    + right. exists []. auto.
    + inversion E; subst. left. exists P. auto.
  - destruct P as [|p P]; cbn in E.
    + right. exists (x :: X). auto.
    + inversion E; subst. destruct (IH _ H1) as [(P2 & -> & ->)|(Q1 & -> & ->)].
      * left. exists P2. auto.
      * right. exists Q1. auto.
Qed.

Lemma remove_inv l h : HlInv l -> HlInv (hl_remove l h).
Proof.
  intros (H & M & L & He & Hb & Ha & SH & SM & SL). unfold hl_remove.
  destruct (position h (entries l)) as [idx|] eqn:Ep; [|exists H, M, L; hl_split; auto].
  destruct (position_split _ _ _ Ep) as (X & Y & Hxy & Hlen).
  assert (Hrem : firstn idx (entries l) ++ skipn (S idx) (entries l) = X ++ Y).
  { rewrite Hxy, <- Hlen, firstn_len. f_equal.
    replace (X ++ h :: Y) with ((X ++ [h]) ++ Y) by now rewrite <- app_assoc.
    replace (S (length X)) with (length (X ++ [h])) by (rewrite app_length; cbn; lia). apply skipn_len. }
  rewrite Hrem. rewrite He in Hxy. symmetry in Hxy.
  destruct (app_split_at _ _ _ _ _ Hxy) as [(H2 & EH & EY)|(Q1 & EX & EQ)].
  - (* h in the High segment *)
    subst H Y. rewrite app_length in Hb, Ha. cbn in Hb, Ha.
    assert (idx <? after l = true) as -> by (apply Nat.ltb_lt; lia).
    assert (idx <? before l = true) as -> by (apply Nat.ltb_lt; lia).
    exists (X ++ H2), M, L. cbn [before after entries]. rewrite app_length.
    hl_split; [now rewrite <- app_assoc|lia|lia|eapply seg_remove; eauto|exact SM|exact SL].
  - symmetry in EQ. destruct (app_split_at _ _ _ _ _ EQ) as [(M2 & EM & EY)|(L1 & EQ1 & EL)].
    + (* h in the Medium segment *)
      subst X M Y. rewrite !app_length in *. cbn in Ha.
      assert (idx <? after l = true) as -> by (apply Nat.ltb_lt; lia).
      assert (idx <? before l = false) as -> by (apply Nat.ltb_ge; lia).
      exists H, (Q1 ++ M2), L. cbn [before after entries]. rewrite app_length.
      hl_split; [now rewrite <- !app_assoc|lia|lia|exact SH|eapply seg_remove; eauto|exact SL].
    + (* h in the Low segment *)
      subst X Q1 L. rewrite !app_length in *.
      assert (idx <? after l = false) as -> by (apply Nat.ltb_ge; lia).
      exists H, M, (L1 ++ Y). cbn [before after entries].
      hl_split; [now rewrite <- !app_assoc|lia|lia|exact SH|exact SM|eapply seg_remove; eauto].
Qed.

(* the order every delivery iterates in: High before Medium before Low, each by addition number *)
Definition rank (p : prio) := match p with High => 0 | Medium => 1 | Low => 2 end.
Definition before_in_order (a b : nat) := rank (pr a) < rank (pr b) \/ (rank (pr a) = rank (pr b) /\ a < b).

Theorem hl_sorted l : HlInv l -> StronglySorted before_in_order (entries l).
Proof.
  intros (H & M & L & -> & _ & _ & [FH SH] & [FM SM] & [FL SL]).
  assert (G : forall p X, Forall (fun h => pr h = p) X -> StronglySorted lt X ->
              forall Z, Forall (fun z => rank p < rank (pr z)) Z -> StronglySorted before_in_order Z ->
              StronglySorted before_in_order (X ++ Z)).
  { intros p X. induction X as [|x X IH]; intros FX SX Z FZ SZ; cbn; [auto|].
    pose proof (Forall_inv FX) as Px. pose proof (Forall_inv_tail FX) as FX'. cbn beta in Px.
    apply StronglySorted_inv in SX as [SX' Lx]. constructor; [apply IH; auto|].
    apply Forall_app. split.
    - rewrite Forall_forall in *. intros y Hy. right. split; [now rewrite Px, (FX' _ Hy)|auto].
    - rewrite Forall_forall in *. intros z Hz. left. rewrite Px. auto. }
  apply (G High); auto.
  - apply Forall_app. split; rewrite Forall_forall in *; intros z Hz; [rewrite (FM _ Hz)|rewrite (FL _ Hz)]; cbn; lia.
  - apply (G Medium); auto.
    + rewrite Forall_forall in *. intros z Hz. rewrite (FL _ Hz). cbn. lia.
    + rewrite <- (app_nil_r L). apply (G Low); auto. constructor.
Qed.
End HL.
Check hl_sorted. Print Assumptions hl_sorted. Print Assumptions insert_inv. Print Assumptions remove_inv.
