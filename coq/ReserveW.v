(* ReserveW.v : reservations at world level (C03, C17).
     ReserveInv: the reservation cursor is where NextKeyIter stands after predicting as many ids
                 as are currently reserved, on the current entity map;
   it is kept by every reservation, by archetype moves (which re-point locations only) and is
   re-established by spawn_all; and the ids that were handed out are exactly the ids of the
   entities that spawn_all then creates, in the same order. *)
From Coq Require Import List NArith Bool Lia Sorted.
Import ListNotations.
Require Import EV.Base EV.ListN EV.Access EV.Query EV.SlotMap EV.Reserve EV.HList EV.Loop EV.World EV.SlotMapGet
  EV.ArchProofs EV.WorldFrame EV.Store EV.Graph EV.Effects EV.Reach EV.RemoveComp EV.Member EV.Listen.
Open Scope N_scope.

Definition shape {V} (m : smap V) := sview (fun _ : V => tt) m.

Lemma shape_sget {V} (m m' : smap V) i : shape m' = shape m ->
  match sget (slots m') i, sget (slots m) i with
  | Some s', Some s => gen s' = gen s /\ link s' = link s /\ (val s' = None <-> val s = None)
  | None, None => True
  | _, _ => False
  end.
Proof.
  intros H. pose proof (sview_sget (fun _ : V => tt) m m' i H) as E.
  destruct (sget (slots m') i) as [s'|], (sget (slots m) i) as [s|]; cbn in E; try discriminate; [|exact I].
  injection E as Eg El Ev. repeat split; auto; intros X; rewrite X in Ev; [destruct (val s)|destruct (val s')]; cbn in Ev; congruence.
Qed.
Lemma shape_len {V} (m m' : smap V) : shape m' = shape m -> length (slots m') = length (slots m) /\ next_free m' = next_free m.
Proof.
  unfold shape, sview. intros H. injection H as Hm Hn. split; [|exact Hn].
  rewrite <- (map_length (fun s : slot V => (gen s, link s, option_map (fun _ => tt) (val s))) (slots m')), Hm. apply map_length.
Qed.

Lemma shape_supd {V} (l1 l2 : list (slot V)) i s1 s2 :
  map (fun s : slot V => (gen s, link s, option_map (fun _ => tt) (val s))) l1 = map (fun s : slot V => (gen s, link s, option_map (fun _ => tt) (val s))) l2 ->
  (gen s1, link s1, option_map (fun _ : V => tt) (val s1)) = (gen s2, link s2, option_map (fun _ : V => tt) (val s2)) ->
  map (fun s : slot V => (gen s, link s, option_map (fun _ => tt) (val s))) (supd l1 i s1) = map (fun s : slot V => (gen s, link s, option_map (fun _ => tt) (val s))) (supd l2 i s2).
Proof.
  rewrite !supd_upd. generalize (N.to_nat i). clear i. intros n. revert l2 n. induction l1 as [|h1 t1 IH]; intros [|h2 t2] [|n] Hm Hs; cbn in *; try discriminate; try reflexivity.
  - pose proof (f_equal (@tl _) Hm) as Ht. cbn in Ht. now rewrite Hs, Ht.
  - pose proof (f_equal (@tl _) Hm) as Ht. pose proof (f_equal (@hd_error _) Hm) as Hh. cbn in Ht, Hh. assert (Hh' : (gen h1, link h1, option_map (fun _ : V => tt) (val h1)) = (gen h2, link h2, option_map (fun _ : V => tt) (val h2))) by congruence. rewrite Hh'. f_equal. now apply IH.
Qed.

(* inserting into maps of equal shape, with any value functions, yields the same key and equal shapes *)
Lemma insert_shape {V} (f g : key -> V) (m1 m2 : smap V) k a : shape m1 = shape m2 -> insert_with f m1 = Some (k, a) ->
  exists b, insert_with g m2 = Some (k, b) /\ shape a = shape b.
Proof.
  intros Hs Hi. destruct (shape_len m2 m1 Hs) as [Hl Hn]. pose proof (shape_sget m2 m1 (next_free m1) Hs) as Hg.
  unfold insert_with in *. rewrite <- Hn. destruct (sget (slots m1) (next_free m1)) as [s1|] eqn:E1; destruct (sget (slots m2) (next_free m1)) as [s2|] eqn:E2; try contradiction.
  - destruct Hg as (Eg & El & _). inversion Hi; subst; clear Hi. rewrite <- Eg, <- El. eexists. split; [reflexivity|].
    unfold shape, sview in *. cbn [slots next_free]. injection Hs as Hm _. f_equal. apply shape_supd; [exact Hm|reflexivity].
  - rewrite <- Hl. destruct (N.of_nat (length (slots m1)) =? U32MAX); [discriminate|]. inversion Hi; subst; clear Hi. eexists. split; [reflexivity|].
    unfold shape, sview in *. cbn [slots next_free]. injection Hs as Hm Hn'. rewrite !map_app, Hm, Hn'. reflexivity.
Qed.

Lemma inserts_shape {V} (f g : key -> V) n : forall (m1 m2 : smap V) ks a, shape m1 = shape m2 -> inserts n f m1 = Some (ks, a) ->
  exists b, inserts n g m2 = Some (ks, b) /\ shape a = shape b.
Proof.
  induction n as [|n IH]; intros m1 m2 ks a Hs Hi; cbn [inserts] in *; [inversion Hi; subst; eauto|].
  destruct (insert_with f m1) as [[k a1]|] eqn:E1; [|discriminate]. destruct (insert_shape f g m1 m2 k a1 Hs E1) as (b1 & E2 & Hs1). rewrite E2.
  destruct (inserts n f a1) as [[ks' a']|] eqn:E3; [|discriminate]. inversion Hi; subst; clear Hi.
  destruct (IH a1 b1 ks' a Hs1 E3) as (b & E4 & Hs2). rewrite E4. eauto.
Qed.

Lemma shape_nki {V} (m m' : smap V) i : shape m' = shape m -> nki_next i m' = nki_next i m.
Proof.
  intros Hs. destruct (shape_len m m' Hs) as [Hl _]. pose proof (shape_sget m m' i Hs) as Hg. unfold nki_next. rewrite Hl.
  destruct (sget (slots m') i) as [s'|], (sget (slots m) i) as [s|]; try contradiction; [|reflexivity]. destruct Hg as (-> & -> & _). reflexivity.
Qed.
Lemma shape_predict {V} (m m' : smap V) n : shape m' = shape m -> forall i, predict n i m' = predict n i m.
Proof.
  intros Hs. induction n as [|n IH]; intros i; cbn [predict]; [reflexivity|]. rewrite (shape_nki m m' i Hs).
  destruct (nki_next i m) as [[[k|] i']|]; try reflexivity. now rewrite IH.
Qed.
Lemma shape_nki0 {V} (m m' : smap V) : shape m' = shape m -> next_key_iter m' = next_key_iter m.
Proof. intros Hs. destruct (shape_len m m' Hs) as [Hl Hn]. unfold next_key_iter. now rewrite Hl, Hn. Qed.

Lemma predict_snoc {V} (m : smap V) n : forall i ks j k j', predict n i m = Some (ks, j) -> nki_next j m = Some (Some k, j') -> predict (S n) i m = Some (ks ++ [k], j').
Proof.
  induction n as [|n IH]; intros i ks j k j' Hp Hn.
  - cbn [predict] in Hp. inversion Hp; subst. cbn [predict]. now rewrite Hn.
  - cbn [predict] in Hp. destruct (nki_next i m) as [[[k0|] i0]|] eqn:E; try discriminate. destruct (predict n i0 m) as [[ks0 j0]|] eqn:E2; [|discriminate]. inversion Hp; subst.
    change (predict (S (S n)) i m) with (match nki_next i m with Some (Some k1, idx') => match predict (S n) idx' m with Some (ks1, i1) => Some (k1 :: ks1, i1) | None => None end | _ => None end).
    rewrite E. rewrite (IH i0 ks0 j k j' E2 Hn). reflexivity.
Qed.

(* ---------- the world-level invariant ---------- *)
Definition ReserveInv (w : world) : Prop :=
  exists ks, predict (N.to_nat (w_rcnt w)) (next_key_iter (w_ents w)) (w_ents w) = Some (ks, w_rcur w).
Definition reserved_ids (w : world) (ks : list key) : Prop :=
  predict (N.to_nat (w_rcnt w)) (next_key_iter (w_ents w)) (w_ents w) = Some (ks, w_rcur w).

(* Sender::spawn / World::spawn: one more id, the prediction continued *)
Lemma reserve_ReserveInv w ks : reserved_ids w ks ->
  match reserve w with
  | ROk k w' => reserved_ids w' (ks ++ [k])
  | RFail _ w' => w' = w
  end.
Proof.
  unfold reserved_ids, reserve. intros H. destruct (nki_next (w_rcur w) (w_ents w)) as [[[k|] i']|] eqn:E; try reflexivity.
  cbn [w_rcnt w_rcur w_ents set_res]. replace (N.to_nat (w_rcnt w + 1)) with (S (N.to_nat (w_rcnt w))) by lia. eapply predict_snoc; eauto.
Qed.

Lemma ReserveInv_shape w w' : shape (w_ents w') = shape (w_ents w) -> w_rcnt w' = w_rcnt w -> w_rcur w' = w_rcur w -> forall ks, reserved_ids w ks -> reserved_ids w' ks.
Proof. intros Hs Hc Hr ks H. unfold reserved_ids in *. now rewrite Hc, Hr, (shape_nki0 _ _ Hs), (shape_predict _ _ _ Hs). Qed.

(* spawn_all materialises exactly the reserved ids *)
Lemma spawn_all_n_inserts n : forall w ks m', WInv w -> inserts n (fun _ => (0, 0)) (w_ents w) = Some (ks, m') ->
  exists w', spawn_all_n n w = ROk tt w' /\ WInv w' /\ shape (w_ents w') = shape m' /\
             (forall k, In k ks -> sm_get k (w_ents w') <> None /\ forall c, abs w' k c = None) /\ ext_by_spawn w w'.
Proof.
  induction n as [|n IH]; intros w ks m' HW Hi; cbn [inserts spawn_all_n] in *.
  - inversion Hi; subst. exists w. split; [reflexivity|]. split; [exact HW|]. split; [reflexivity|]. split; [intros k []|now apply ext_by_spawn_refl].
  - destruct (insert_with (fun _ => (0, 0)) (w_ents w)) as [[k m1]|] eqn:E1; [|discriminate].
    destruct (inserts n (fun _ => (0, 0)) m1) as [[ks' m'']|] eqn:E2; [|discriminate]. inversion Hi; subst ks m''. clear Hi.
    destruct (spawn_one_ok w k m1 HW E1) as (loc & w1 & ents' & Esp & Eins & HW' & Hnew & Hget & Hoth & Hoth' & Hby). rewrite Esp, Eins.
    assert (Hents1 : w_ents w1 = w_ents w).
    { pose proof (r_arch_spawn w_ents ltac:(fr) ltac:(fr) w k) as X. now rewrite Esp in X. }
    rewrite Hents1 in Eins.
    destruct (insert_shape (fun _ => (0, 0)) (fun _ => loc) (w_ents w) (w_ents w) k m1 eq_refl E1) as (b & Eb & Hsb). assert (Eq : Some (k, b) = Some (k, ents')) by exact (eq_trans (eq_sym Eb) Eins). inversion Eq; subst b.
    destruct (inserts_shape (fun _ => (0, 0)) (fun _ => (0, 0)) n m1 ents' ks' m' Hsb E2) as (b & E3 & Hs3).
    destruct (IH (set_ents w1 ents') ks' b HW' E3) as (w' & Es & HWf & Hsf & Hks & Hext). exists w'. split; [exact Es|]. split; [exact HWf|]. split; [congruence|].
    assert (Hfresh : sm_get k (w_ents w) = None) by (destruct HW as ((Hsm & _) & _); exact (insert_get_fresh _ _ _ _ Hsm E1)).
    assert (Hstep : ext_by_spawn w (set_ents w1 ents')).
    { split; [exact HW'|]. split; [|split; [|exact Hby]].
      - intros e He. assert (e <> k) by (intros ->; congruence). split; [now apply Hoth'|]. intros c. now apply Hoth.
      - intros e He c. destruct (key_eq_dec e k) as [->|Hne]; [apply Hnew|]. rewrite Hoth by exact Hne. now apply abs_dead. }
    split; [|eapply ext_by_spawn_trans; eauto].
    intros k0 [<-|Hin]; [|now apply Hks].
    destruct Hext as (_ & Hl & _ & _). assert (Hlk : sm_get k (w_ents (set_ents w1 ents')) <> None) by (cbn [w_ents set_ents] in *; congruence).
    destruct (Hl k Hlk) as [A B]. split; [congruence|]. intros c. rewrite B. apply Hnew.
Qed.

(* C03 at world level: on a consistent world whose cursor is as the invariant says, spawn_all creates
   exactly the ids that were handed out, as component-less entities, leaves every existing entity alone,
   and leaves no reservation pending *)
Theorem reserved_ids_are_created w ks :
  WInv w -> reserved_ids w ks -> N.of_nat (length (slots (w_ents w))) + w_rcnt w <= U32MAX ->
  exists w', spawn_all w = ROk tt w' /\ WInv w' /\
             (forall k, In k ks -> sm_get k (w_ents w') <> None /\ forall c, abs w' k c = None) /\
             ext_by_spawn w w' /\ w_rcnt w' = 0 /\ reserved_ids w' [].
Proof.
  intros HW Hr Hcap. pose proof HW as ((Hsm & _) & _).
  destruct (nki_predicts _ (fun _ : key => ((0, 0) : eloc)) (N.to_nat (w_rcnt w)) (w_ents w) Hsm) as (ks0 & i & m' & Hp & Hi & _); [lia|].
  unfold reserved_ids in Hr. rewrite Hr in Hp. inversion Hp; subst ks0 i.
  destruct (spawn_all_n_inserts _ w ks m' HW Hi) as (w1 & Es & HW1 & Hs1 & Hks & Hext). unfold spawn_all. rewrite Es. cbn [rbind].
  eexists. split; [reflexivity|]. split; [eapply WInv_ext; [| | |exact HW1]; reflexivity|]. split; [exact Hks|]. split; [eapply ext_by_spawn_ext; [| | |exact Hext]; reflexivity|].
  split; [reflexivity|]. unfold reserved_ids. reflexivity.
Qed.
