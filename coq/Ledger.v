(* Ledger.v : destruction of stored component values (C12), effect by effect.
     stored w : the (type tag, serial) of every stored value whose type has a destructor, in
                slab / row / column order;  w_drops w : the destruction ledger.
   Each structural operation appends to the ledger exactly the values that leave the storage:
     stored w' ++ newly destroyed  is a permutation of  stored w ++ newly inserted,
   and dropping the world destroys exactly [stored w], each value once.  The statement is about
   multisets of (tag, serial), so it covers zero-sized types (whose values all carry serial 0)
   as well as sized ones. *)
From Coq Require Import List NArith Bool Lia Sorted Permutation.
Import ListNotations.
Require Import EV.Base EV.ListN EV.Access EV.Query EV.SlotMap EV.Reserve EV.HList EV.Loop EV.World EV.SlotMapGet
  EV.ArchProofs EV.WorldFrame EV.Store EV.Graph EV.Effects EV.Reach EV.RemoveComp EV.Member EV.Listen.
Open Scope N_scope.

(* the ledger entries of a list of (component index, value) pairs, given the component tags *)
Definition tracked_cv (tg : N -> N) (cvs : list (N * cval)) : list (N * N) :=
  flat_map (fun '(c, v) => if ctag_has_drop (tg c) then [(tg c, fst v)] else []) cvs.
Definition rstored (tg : N -> N) (a : arch) (vals : list cval) : list (N * N) := tracked_cv tg (combine (a_comps a) vals).
Definition astored (tg : N -> N) (a : arch) : list (N * N) := flat_map (fun r : key * list cval => rstored tg a (snd r)) (a_rows a).
Definition stored (w : world) : list (N * N) := flat_map (fun p : N * arch => astored (comp_tag w) (snd p)) (slab_iter (w_archs w)).

Lemma tracked_cv_app tg x y : tracked_cv tg (x ++ y) = tracked_cv tg x ++ tracked_cv tg y.
Proof. unfold tracked_cv. apply flat_map_app. Qed.
Lemma tracked_cv_perm tg x y : Permutation x y -> Permutation (tracked_cv tg x) (tracked_cv tg y).
Proof. intros H. unfold tracked_cv. induction H; cbn [flat_map]; [constructor|now apply Permutation_app_head| |eauto using Permutation_trans].
  rewrite !app_assoc. apply Permutation_app_tail. apply Permutation_app_comm. Qed.

Lemma flat_map_perm {A B} (f : A -> list B) l l' : Permutation l l' -> Permutation (flat_map f l) (flat_map f l').
Proof. intros H. induction H; cbn [flat_map]; [constructor|now apply Permutation_app_head| |eauto using Permutation_trans].
  rewrite !app_assoc. apply Permutation_app_tail. apply Permutation_app_comm. Qed.

(* ---------- destroying the values of one row ---------- *)
Lemma comp_tag_drops w t v c : comp_tag (drop_cval w t v) c = comp_tag w c.
Proof. unfold drop_cval. now destruct (ctag_has_drop t). Qed.

Lemma drops_fold_spec cvs : forall w,
  let w1 := fold_left (fun (w' : world) '(c, v) => drop_cval w' (comp_tag w' c) v) cvs w in
  w_drops w1 = w_drops w ++ tracked_cv (comp_tag w) cvs /\ w_comps w1 = w_comps w.
Proof.
  induction cvs as [|[c v] t IH]; intros w; cbn zeta; cbn [fold_left tracked_cv flat_map]; [now rewrite app_nil_r|].
  destruct (IH (drop_cval w (comp_tag w c) v)) as [A B]. cbn zeta in A, B. rewrite A, B.
  assert (Etg : forall x, comp_tag (drop_cval w (comp_tag w c) v) x = comp_tag w x) by (intros; apply comp_tag_drops).
  assert (Et : tracked_cv (comp_tag (drop_cval w (comp_tag w c) v)) t = tracked_cv (comp_tag w) t).
  { unfold tracked_cv. apply flat_map_ext. intros [c0 v0]. now rewrite Etg. }
  rewrite Et. unfold drop_cval. destruct (ctag_has_drop (comp_tag w c)); cbn [w_drops w_comps log_drop set_drops]; [now rewrite <- app_assoc|auto].
Qed.

Lemma comp_tag_same w w' : w_comps w' = w_comps w -> forall c, comp_tag w' c = comp_tag w c.
Proof. intros E c. unfold comp_tag. now rewrite E. Qed.

(* ---------- World drop destroys exactly what is stored ---------- *)
Lemma rows_drop_spec a rows : forall w,
  let w1 := fold_left (fun (w'' : world) '(_, vals) => fold_left (fun w3 '(c, v) => drop_cval w3 (comp_tag w3 c) v) (combine (a_comps a) vals) w'') rows w in
  w_drops w1 = w_drops w ++ flat_map (fun r : key * list cval => rstored (comp_tag w) a (snd r)) rows /\ w_comps w1 = w_comps w /\ w_archs w1 = w_archs w.
Proof.
  induction rows as [|[e vals] t IH]; intros w; cbn zeta; cbn [fold_left flat_map snd]; [rewrite app_nil_r; auto|].
  destruct (drops_fold_spec (combine (a_comps a) vals) w) as [A B]. cbn zeta in A, B.
  set (w1 := fold_left _ (combine (a_comps a) vals) w) in *. destruct (IH w1) as (C & D & E). cbn zeta in C, D, E. rewrite C, D, E, A, B.
  assert (Ea : w_archs w1 = w_archs w) by apply drops_fold_archs.
  split; [|split; [reflexivity|exact Ea]]. rewrite <- app_assoc. f_equal. f_equal. apply flat_map_ext. intros [e0 v0]. unfold rstored, tracked_cv. apply flat_map_ext. intros [c v]. now rewrite (comp_tag_same w w1 B).
Qed.

Theorem op_drop_spec w : w_drops (op_drop w) = w_drops w ++ stored w.
Proof.
  unfold op_drop, stored. generalize (slab_iter (w_archs w)). intros L.
  assert (G : forall L w0, w_comps w0 = w_comps w ->
    w_drops (fold_left (fun (w' : world) '(_, a) => fold_left (fun (w'' : world) '(_, vals) => fold_left (fun w3 '(c, v) => drop_cval w3 (comp_tag w3 c) v) (combine (a_comps a) vals) w'') (a_rows a) w') L w0)
      = w_drops w0 ++ flat_map (fun p : N * arch => astored (comp_tag w) (snd p)) L).
  { clear L. induction L as [|[ai a] L IH]; intros w0 E0; cbn [fold_left flat_map snd]; [now rewrite app_nil_r|].
    destruct (rows_drop_spec a (a_rows a) w0) as (A & B & _). cbn zeta in A, B. rewrite IH by congruence. rewrite A, <- app_assoc. f_equal. f_equal.
    unfold astored. apply flat_map_ext. intros [e v]. unfold rstored, tracked_cv. apply flat_map_ext. intros [c x]. now rewrite (comp_tag_same w w0 E0). }
  now apply G.
Qed.

(* ---------- stored under the replacement of one archetype ---------- *)
Lemma slab_iter_from_set l : forall i0 i a a', nget l i = Some (SOcc a) ->
  exists l1 l2, slab_iter_from l i0 = l1 ++ (i0 + i, a) :: l2 /\ slab_iter_from (nset l i (SOcc a')) i0 = l1 ++ (i0 + i, a') :: l2.
Proof.
  induction l as [|e t IH]; intros i0 i a a' Hg; [discriminate|]. cbn [nget] in Hg. cbn [nset]. destruct (i =? 0) eqn:E.
  - apply N.eqb_eq in E. subst i. inversion Hg; subst e. cbn [slab_iter_from]. exists [], (slab_iter_from t (i0 + 1)). rewrite N.add_0_r. split; reflexivity.
  - apply N.eqb_neq in E. destruct (IH (i0 + 1) (N.pred i) a a' Hg) as (l1 & l2 & A & B). replace (i0 + 1 + N.pred i) with (i0 + i) in * by lia.
    destruct e as [a0|n]; cbn [slab_iter_from]; [exists ((i0, a0) :: l1), l2|exists l1, l2]; rewrite A, B; split; reflexivity.
Qed.
Lemma slab_iter_set s i a a' : slab_get s i = Some a -> exists l1 l2, slab_iter s = l1 ++ (i, a) :: l2 /\ slab_iter (slab_set s i a') = l1 ++ (i, a') :: l2.
Proof.
  unfold slab_get, slab_iter, slab_set. cbn [sl_entries]. intros H. destruct (nget (sl_entries s) i) as [[a0|]|] eqn:E; try discriminate. inversion H; subst a0.
  destruct (slab_iter_from_set (sl_entries s) 0 i a a' E) as (l1 & l2 & A & B). exists l1, l2. now rewrite A, B.
Qed.

Lemma stored_set w i a a' w' : slab_get (w_archs w) i = Some a -> w_archs w' = slab_set (w_archs w) i a' -> w_comps w' = w_comps w ->
  forall X Y, Permutation (astored (comp_tag w) a' ++ X) (astored (comp_tag w) a ++ Y) -> Permutation (stored w' ++ X) (stored w ++ Y).
Proof.
  intros Ha Ear Ec X Y HP. unfold stored. rewrite Ear. destruct (slab_iter_set (w_archs w) i a a' Ha) as (l1 & l2 & -> & ->).
  rewrite !flat_map_app. cbn [flat_map snd].
  assert (Etg : forall p : N * arch, astored (comp_tag w') (snd p) = astored (comp_tag w) (snd p)).
  { intros p. unfold astored. apply flat_map_ext. intros r. unfold rstored, tracked_cv. apply flat_map_ext. intros [c v]. now rewrite (comp_tag_same w w' Ec). }
  rewrite !(flat_map_ext _ _ Etg). pose proof (Etg (i, a')) as E1. cbn [snd] in E1. rewrite E1.
  set (A := flat_map (fun p : N * arch => astored (comp_tag w) (snd p)) l1). set (B := flat_map (fun p : N * arch => astored (comp_tag w) (snd p)) l2).
  rewrite <- !app_assoc.  apply Permutation_app_head.
  transitivity (B ++ astored (comp_tag w) a' ++ X); [rewrite !app_assoc; apply Permutation_app_tail; apply Permutation_app_comm|].
  transitivity (B ++ astored (comp_tag w) a ++ Y); [now apply Permutation_app_head|]. rewrite !app_assoc. apply Permutation_app_tail. apply Permutation_app_comm.
Qed.

(* ---------- list decompositions ---------- *)
Lemma nget_split {A} (l : list A) : forall i x, nget l i = Some x -> exists l1 l2, l = l1 ++ x :: l2 /\ nlen l1 = i.
Proof.
  induction l as [|h t IH]; intros i x H; [discriminate|]. cbn [nget] in H. destruct (i =? 0) eqn:E.
  - apply N.eqb_eq in E. subst i. inversion H; subst. exists [], t. split; reflexivity.
  - apply N.eqb_neq in E. destruct (IH _ _ H) as (l1 & l2 & -> & Hl). exists (h :: l1), l2. split; [reflexivity|]. rewrite nlen_cons. lia.
Qed.

Lemma rows_swap_remove_perm (rows : list (key * list cval)) row x : nget rows row = Some x -> Permutation rows (x :: swap_remove rows row).
Proof.
  intros H. destruct (nget_split rows row x H) as (l1 & l2 & -> & <-).
  transitivity (x :: l1 ++ l2); [symmetry; apply Permutation_middle|]. constructor. symmetry. apply swap_remove_perm.
Qed.

Lemma astored_rows tg a rows : astored tg (set_rows a rows) = flat_map (fun r : key * list cval => rstored tg a (snd r)) rows.
Proof. reflexivity. Qed.

Lemma notify_remove_fields w ai : w_archs (notify_remove w ai) = w_archs w /\ w_drops (notify_remove w ai) = w_drops w /\ w_comps (notify_remove w ai) = w_comps w.
Proof. unfold notify_remove. destruct (slab_get (w_archs w) ai); repeat split. Qed.
Lemma notify_refresh_fields w ai : w_archs (notify_refresh w ai) = w_archs w /\ w_drops (notify_refresh w ai) = w_drops w /\ w_comps (notify_refresh w ai) = w_comps w.
Proof. unfold notify_refresh. destruct (slab_get (w_archs w) ai); repeat split. Qed.

(* ---------- remove_entity ---------- *)
Theorem remove_entity_ledger w ai row a e vals w' :
  remove_entity w (ai, row) = ROk tt w' -> slab_get (w_archs w) ai = Some a -> nget (a_rows a) row = Some (e, vals) ->
  w_drops w' = w_drops w ++ rstored (comp_tag w) a vals /\ w_comps w' = w_comps w /\
  Permutation (stored w' ++ rstored (comp_tag w) a vals) (stored w).
Proof.
  intros Hm Ha Hrow. unfold remove_entity in Hm. rewrite Ha, Hrow in Hm.
  destruct (drops_fold_spec (combine (a_comps a) vals) w) as [D1 C1]. cbn zeta in D1, C1.
  set (w1 := fold_left _ (combine (a_comps a) vals) w) in *. assert (A1 : w_archs w1 = w_archs w) by apply drops_fold_archs.
  set (a1 := set_rows a (swap_remove (a_rows a) row)) in Hm. set (w2 := set_archs w1 (slab_set (w_archs w1) ai a1)) in Hm.
  destruct (sm_remove e (w_ents w2)) as [[v ents']|]; [|discriminate].
  assert (Hsl : forall w0 e0 l w0', set_loc w0 e0 l = ROk tt w0' -> w_archs w0' = w_archs w0 /\ w_drops w0' = w_drops w0 /\ w_comps w0' = w_comps w0).
  { intros w0 e0 l w0' X. unfold set_loc in X. destruct (sm_get e0 (w_ents w0)); inversion X; subst. repeat split. }
  set (w3 := set_ents w2 ents') in Hm. set (r4 := match nget _ row with Some _ => _ | None => _ end) in Hm.
  assert (X4 : forall w4, r4 = ROk tt w4 -> w_archs w4 = w_archs w3 /\ w_drops w4 = w_drops w3 /\ w_comps w4 = w_comps w3).
  { intros w4 X. unfold r4 in X. destruct (nget (a_rows a1) row) as [[de dv]|]; [|inversion X; subst; repeat split]. destruct (sm_get de (w_ents w3)); [eapply Hsl; eauto|discriminate]. }
  destruct r4 as [[] w4|f w4]; cbn [rbind] in Hm; [|discriminate]. destruct (X4 w4 eq_refl) as (A4 & D4 & C4).
  assert (Hfin : w_archs w' = slab_set (w_archs w) ai a1 /\ w_drops w' = w_drops w1 /\ w_comps w' = w_comps w1).
  { inversion Hm; subst w'. assert (Hw4 : w_archs w4 = slab_set (w_archs w) ai a1 /\ w_drops w4 = w_drops w1 /\ w_comps w4 = w_comps w1).
    { rewrite A4, D4, C4. unfold w3, w2. cbn [w_archs w_drops w_comps set_ents set_archs]. rewrite A1. repeat split. }
    destruct (notify_remove_fields w4 ai) as (N1 & N2 & N3). destruct (nlen (swap_remove (a_rows a) row) =? 0); [rewrite N1, N2, N3|]; exact Hw4. }
  destruct Hfin as (Af & Df & Cf). split; [rewrite Df; exact D1|]. split; [congruence|].
  rewrite <- (app_nil_r (stored w)). apply (stored_set w ai a a1 w' Ha Af (eq_trans Cf C1)). rewrite app_nil_r.
  unfold a1. rewrite astored_rows. unfold astored.
  rewrite (flat_map_perm _ _ _ (rows_swap_remove_perm (a_rows a) row (e, vals) Hrow)). cbn [flat_map snd]. apply Permutation_app_comm.
Qed.

(* ---------- move_entity ---------- *)
Lemma killed_fold_spec killed : forall w,
  let w1 := fold_left (fun (w' : world) '(c, v) => drop_cval w' (comp_tag w' c) v) killed w in
  w_drops w1 = w_drops w ++ tracked_cv (comp_tag w) killed /\ w_comps w1 = w_comps w.
Proof. exact (drops_fold_spec killed). Qed.

Lemma combine_split_at (cs : list N) : forall (vs : list cval) ci c, col_index cs c = Some ci -> length vs = length cs ->
  exists c1 c2 v1 old v2, cs = c1 ++ c :: c2 /\ vs = v1 ++ old :: v2 /\ length v1 = length c1 /\ nlen v1 = ci /\ nget vs ci = Some old.
Proof.
  induction cs as [|h t IH]; intros vs ci c Hc Hl; [discriminate|]. destruct vs as [|v vs]; [discriminate|]. cbn [col_index] in Hc. destruct (c =? h) eqn:E.
  - apply N.eqb_eq in E. subst h. inversion Hc; subst ci. exists [], t, [], v, vs. split; [reflexivity|]. split; [reflexivity|]. split; [reflexivity|]. split; reflexivity.
  - destruct (col_index t c) as [j|] eqn:Ej; [|discriminate]. inversion Hc; subst ci. cbn [length] in Hl. injection Hl as Hl.
    destruct (IH vs j c Ej Hl) as (c1 & c2 & v1 & old & v2 & -> & -> & L1 & L2 & L3). exists (h :: c1), c2, (v :: v1), old, v2. cbn [app length].
    split; [reflexivity|]. split; [reflexivity|]. split; [congruence|]. split.
    + rewrite nlen_cons. lia.
    + cbn [nget]. replace (N.succ j =? 0) with false by (symmetry; apply N.eqb_neq; lia). now rewrite N.pred_succ.
Qed.

Lemma nset_split {A} (v1 : list A) old v2 x : nset (v1 ++ old :: v2) (nlen v1) x = v1 ++ x :: v2.
Proof. apply nset_app_mid. Qed.

Lemma combine_app_eq {A B} (a1 a2 : list A) (b1 b2 : list B) : length a1 = length b1 -> combine (a1 ++ a2) (b1 ++ b2) = combine a1 b1 ++ combine a2 b2.
Proof. revert b1. induction a1 as [|x a1 IH]; intros [|y b1] H; cbn in *; try discriminate; [reflexivity|]. f_equal. apply IH. lia. Qed.

Theorem move_entity_ledger w sai srow dst nw sa e vals w' :
  move_entity w (sai, srow) dst nw = ROk tt w' -> slab_get (w_archs w) sai = Some sa -> nget (a_rows sa) srow = Some (e, vals) -> length vals = length (a_comps sa) ->
  exists newdrops, w_drops w' = w_drops w ++ newdrops /\ w_comps w' = w_comps w /\
    Permutation (stored w' ++ newdrops) (stored w ++ tracked_cv (comp_tag w) (new_pair nw)).
Proof.
  intros Hm Hsa Hrow Hlen. unfold move_entity in Hm. rewrite Hsa in Hm. destruct (sai =? dst) eqn:Esd.
  - (* in place *)
    destruct nw as [[c v]|].
    + rewrite Hrow in Hm. destruct (col_index (a_comps sa) c) as [ci|] eqn:Eci; [|discriminate]. inversion Hm; subst w'; clear Hm.
      destruct (combine_split_at (a_comps sa) vals ci c Eci Hlen) as (c1 & c2 & v1 & old & v2 & Ec & Ev & L1 & L2 & L3). rewrite L3.
      set (w1 := drop_cval w (comp_tag w c) old).
      assert (D1 : w_drops w1 = w_drops w ++ tracked_cv (comp_tag w) [(c, old)]) by (unfold w1, drop_cval, tracked_cv; cbn [flat_map]; destruct (ctag_has_drop (comp_tag w c)); cbn; now rewrite ?app_nil_r).
      assert (C1 : w_comps w1 = w_comps w) by (unfold w1, drop_cval; now destruct (ctag_has_drop _)).
      assert (A1 : w_archs w1 = w_archs w) by (unfold w1, drop_cval; now destruct (ctag_has_drop _)).
      exists (tracked_cv (comp_tag w) [(c, old)]). split; [exact D1|]. split; [exact C1|].
      set (sa' := set_rows sa (nset (a_rows sa) srow (e, nset vals ci v))).
      apply (stored_set w sai sa sa' _ Hsa); [cbn [w_archs set_archs]; now rewrite A1|exact C1|].
      unfold sa'. rewrite astored_rows. unfold astored.
      destruct (nget_split (a_rows sa) srow (e, vals) Hrow) as (r1 & r2 & Er & Lr). rewrite Er. rewrite <- Lr, nset_app_mid. rewrite !flat_map_app. cbn [flat_map snd].
      rewrite <- !app_assoc. apply Permutation_app_head.
      set (R2 := flat_map (fun r : key * list cval => rstored (comp_tag w) sa (snd r)) r2).
      (* the row itself *)
      assert (Hr : Permutation (rstored (comp_tag w) sa (nset vals ci v) ++ tracked_cv (comp_tag w) [(c, old)]) (rstored (comp_tag w) sa vals ++ tracked_cv (comp_tag w) [(c, v)])).
      { unfold rstored. rewrite Ec, Ev, <- L2, nset_app_mid. rewrite !combine_app_eq by (symmetry; exact L1). cbn [combine]. rewrite !tracked_cv_app.
        change ((c, v) :: combine c2 v2) with ([(c, v)] ++ combine c2 v2). change ((c, old) :: combine c2 v2) with ([(c, old)] ++ combine c2 v2). rewrite !tracked_cv_app.
        rewrite <- !app_assoc. apply Permutation_app_head.
        set (T2 := tracked_cv (comp_tag w) (combine c2 v2)). set (Tv := tracked_cv (comp_tag w) [(c, v)]). set (To := tracked_cv (comp_tag w) [(c, old)]).
        transitivity (Tv ++ To ++ T2); [apply Permutation_app_head; apply Permutation_app_comm|].
        transitivity (To ++ Tv ++ T2); [rewrite !app_assoc; apply Permutation_app_tail; apply Permutation_app_comm|]. apply Permutation_app_head. apply Permutation_app_comm. }
      cbn [new_pair].
      transitivity (R2 ++ rstored (comp_tag w) sa (nset vals ci v) ++ tracked_cv (comp_tag w) [(c, old)]); [rewrite !app_assoc; apply Permutation_app_tail; apply Permutation_app_comm|].
      transitivity (R2 ++ rstored (comp_tag w) sa vals ++ tracked_cv (comp_tag w) [(c, v)]); [now apply Permutation_app_head|].
      rewrite !app_assoc. apply Permutation_app_tail. apply Permutation_app_comm.
    + inversion Hm; subst w'. exists []. cbn [new_pair tracked_cv flat_map]. rewrite !app_nil_r. split; [reflexivity|]. split; reflexivity.
  - (* to another archetype *)
    apply N.eqb_neq in Esd. destruct (slab_get (w_archs w) dst) as [da|] eqn:Hda; [|discriminate]. rewrite Hrow in Hm.
    destruct (reserve_one da) as [da1 re] eqn:Hres. destruct (merge_row _ _ _ _ _) as [[dvals killed]|] eqn:Emr; [|discriminate].
    destruct (merge_row_conserves _ _ _ _ _ _ _ Hlen Emr) as [Hdl Hperm].
    destruct (killed_fold_spec killed w) as [D1 C1]. cbn zeta in D1, C1. set (w1 := fold_left _ killed w) in *. assert (A1 : w_archs w1 = w_archs w) by apply drops_fold_archs.
    set (sa1 := set_rows sa (swap_remove (a_rows sa) srow)) in Hm. set (da2 := set_rows da1 (a_rows da1 ++ [(e, dvals)])) in Hm.
    set (w2 := set_archs w1 (slab_set (slab_set (w_archs w1) sai sa1) dst da2)) in Hm.
    assert (Hsl : forall w0 e0 l w0', set_loc w0 e0 l = ROk tt w0' -> w_archs w0' = w_archs w0 /\ w_drops w0' = w_drops w0 /\ w_comps w0' = w_comps w0).
    { intros w0 e0 l w0' X. unfold set_loc in X. destruct (sm_get e0 (w_ents w0)); inversion X; subst. repeat split. }
    destruct (set_loc w2 e (dst, nlen (a_rows da1))) as [[] w3|f w3] eqn:E3; cbn [rbind] in Hm; [|discriminate]. destruct (Hsl _ _ _ _ E3) as (A3 & D3 & C3).
    set (r4 := match nget _ srow with Some _ => _ | None => _ end) in Hm.
    assert (X4 : forall w4, r4 = ROk tt w4 -> w_archs w4 = w_archs w3 /\ w_drops w4 = w_drops w3 /\ w_comps w4 = w_comps w3).
    { intros w4 X. unfold r4 in X. destruct (nget (a_rows sa1) srow) as [[se sv]|]; [|inversion X; subst; repeat split]. destruct (sm_get se (w_ents w3)); [eapply Hsl; eauto|discriminate]. }
    destruct r4 as [[] w4|f w4]; cbn [rbind] in Hm; [|discriminate]. destruct (X4 w4 eq_refl) as (A4 & D4 & C4).
    assert (Hw4 : w_archs w4 = slab_set (slab_set (w_archs w) sai sa1) dst da2 /\ w_drops w4 = w_drops w1 /\ w_comps w4 = w_comps w1).
    { rewrite A4, D4, C4, A3, D3, C3. unfold w2. cbn [w_archs w_drops w_comps set_archs]. rewrite A1. repeat split. }
    assert (Hfin : w_archs w' = slab_set (slab_set (w_archs w) sai sa1) dst da2 /\ w_drops w' = w_drops w1 /\ w_comps w' = w_comps w1).
    { inversion Hm; subst w'. change (swap_remove (a_rows sa) srow) with (a_rows sa1). set (w5 := if nlen (a_rows sa1) =? 0 then notify_remove w4 sai else w4).
      assert (H5 : w_archs w5 = w_archs w4 /\ w_drops w5 = w_drops w4 /\ w_comps w5 = w_comps w4) by (unfold w5; destruct (nlen (a_rows sa1) =? 0); [apply notify_remove_fields|repeat split]).
      destruct H5 as (N1 & N2 & N3). destruct (notify_refresh_fields w5 dst) as (M1 & M2 & M3).
      destruct (re || _); [rewrite M1, M2, M3|]; rewrite N1, N2, N3; exact Hw4. }
    destruct Hfin as (Af & Df & Cf). exists (tracked_cv (comp_tag w) killed). split; [rewrite Df; exact D1|]. split; [congruence|].
    (* first the source, then the destination *)
    set (wm := set_archs w (slab_set (w_archs w) sai sa1)).
    assert (P1 : Permutation (stored wm ++ rstored (comp_tag w) sa vals) (stored w)).
    { rewrite <- (app_nil_r (stored w)). apply (stored_set w sai sa sa1 wm Hsa eq_refl eq_refl). rewrite app_nil_r. unfold sa1. rewrite astored_rows. unfold astored.
      rewrite (flat_map_perm _ _ _ (rows_swap_remove_perm (a_rows sa) srow (e, vals) Hrow)). cbn [flat_map snd]. apply Permutation_app_comm. }
    assert (Hdam : slab_get (w_archs wm) dst = Some da) by (unfold wm; cbn [w_archs set_archs]; now rewrite slab_get_set_neq by exact Esd).
    assert (Hd1 : a_comps da1 = a_comps da /\ a_rows da1 = a_rows da).
    { assert (X1 : da1 = fst (reserve_one da)) by now rewrite Hres. rewrite X1. unfold reserve_one. destruct (nlen (a_rows da) =? a_cap da); cbn; split; reflexivity. }
    destruct Hd1 as [Dc Dr].
    assert (P2 : Permutation (stored w') (stored wm ++ rstored (comp_tag w) da dvals)).
    { rewrite <- (app_nil_r (stored w')). apply (stored_set wm dst da da2 w' Hdam); [exact Af|rewrite Cf, C1; reflexivity|]. rewrite app_nil_r.
      change (comp_tag wm) with (comp_tag w). unfold da2. rewrite astored_rows, Dr, flat_map_app. cbn [flat_map snd]. rewrite app_nil_r. unfold astored.
      assert (Er : forall vals0, rstored (comp_tag w) da1 vals0 = rstored (comp_tag w) da vals0) by (intros; unfold rstored; now rewrite Dc).
      rewrite (flat_map_ext _ _ (fun r => Er (snd r))), Er. reflexivity. }
    assert (P3 : Permutation (rstored (comp_tag w) da dvals ++ tracked_cv (comp_tag w) killed) (rstored (comp_tag w) sa vals ++ tracked_cv (comp_tag w) (new_pair nw))).
    { unfold rstored. rewrite <- !tracked_cv_app. now apply tracked_cv_perm. }
    set (Sm := stored wm) in *. set (Dd := rstored (comp_tag w) da dvals) in *. set (R := rstored (comp_tag w) sa vals) in *.
    set (K := tracked_cv (comp_tag w) killed) in *. set (Nn := tracked_cv (comp_tag w) (new_pair nw)) in *.
    apply (Permutation_app_inv_r R). transitivity (Sm ++ ((R ++ Nn) ++ R)).
    + transitivity (((Sm ++ Dd) ++ K) ++ R); [apply Permutation_app_tail; apply Permutation_app_tail; exact P2|].
      replace (((Sm ++ Dd) ++ K) ++ R) with (Sm ++ ((Dd ++ K) ++ R)) by (rewrite !app_assoc; reflexivity).
      apply Permutation_app_head. apply Permutation_app_tail. exact P3.
    + replace (Sm ++ ((R ++ Nn) ++ R)) with (((Sm ++ R) ++ Nn) ++ R) by (rewrite !app_assoc; reflexivity).
      apply Permutation_app_tail. apply Permutation_app_tail. exact P1.
Qed.

(* ---------- inserting an empty archetype / changing transitions does not change what is stored ---------- *)
Lemma slab_iter_from_app l1 : forall l2 i0, slab_iter_from (l1 ++ l2) i0 = slab_iter_from l1 i0 ++ slab_iter_from l2 (i0 + nlen l1).
Proof.
  induction l1 as [|e t IH]; intros l2 i0; cbn [app slab_iter_from]; [now rewrite nlen_nil, N.add_0_r|].
  rewrite nlen_cons. replace (i0 + (nlen t + 1)) with (i0 + 1 + nlen t) by lia. destruct e; cbn [app]; now rewrite IH.
Qed.
Lemma slab_iter_from_vac l : forall i0 i nx a, nget l i = Some (SVac nx) ->
  exists l1 l2, slab_iter_from l i0 = l1 ++ l2 /\ slab_iter_from (nset l i (SOcc a)) i0 = l1 ++ (i0 + i, a) :: l2.
Proof.
  induction l as [|e t IH]; intros i0 i nx a Hg; [discriminate|]. cbn [nget] in Hg. cbn [nset]. destruct (i =? 0) eqn:E.
  - apply N.eqb_eq in E. subst i. inversion Hg; subst e. cbn [slab_iter_from]. exists [], (slab_iter_from t (i0 + 1)). rewrite N.add_0_r. split; reflexivity.
  - apply N.eqb_neq in E. destruct (IH (i0 + 1) (N.pred i) nx a Hg) as (l1 & l2 & A & B). replace (i0 + 1 + N.pred i) with (i0 + i) in * by lia.
    destruct e as [a0|n]; cbn [slab_iter_from]; [exists ((i0, a0) :: l1), l2|exists l1, l2]; rewrite A, B; split; reflexivity.
Qed.

Lemma stored_insert_empty w w' a1 : w_archs w' = slab_insert (w_archs w) a1 -> a_rows a1 = [] -> (forall c, comp_tag w' c = comp_tag w c) -> stored w' = stored w.
Proof.
  intros Ear Hr Etg. unfold stored. rewrite Ear.
  assert (Ef : forall p : N * arch, astored (comp_tag w') (snd p) = astored (comp_tag w) (snd p)).
  { intros p. unfold astored. apply flat_map_ext. intros r. unfold rstored, tracked_cv. apply flat_map_ext. intros [c v]. now rewrite Etg. }
  rewrite (flat_map_ext _ _ Ef). assert (E1 : astored (comp_tag w) a1 = []) by (unfold astored; now rewrite Hr).
  unfold slab_insert, slab_iter. destruct (sl_next (w_archs w) =? nlen (sl_entries (w_archs w))) eqn:E.
  - cbn [sl_entries]. rewrite slab_iter_from_app, flat_map_app. cbn [slab_iter_from flat_map snd]. now rewrite E1, !app_nil_r.
  - destruct (nget (sl_entries (w_archs w)) (sl_next (w_archs w))) as [[a0|nx]|] eqn:Eg; try reflexivity. cbn [sl_entries].
    destruct (slab_iter_from_vac (sl_entries (w_archs w)) 0 (sl_next (w_archs w)) nx a1 Eg) as (l1 & l2 & -> & ->). rewrite !flat_map_app. cbn [flat_map snd]. now rewrite E1.
Qed.

Lemma stored_same_rows w w' i a a' : slab_get (w_archs w) i = Some a -> w_archs w' = slab_set (w_archs w) i a' -> w_comps w' = w_comps w ->
  a_comps a' = a_comps a -> a_rows a' = a_rows a -> Permutation (stored w') (stored w).
Proof.
  intros Ha Ear Ec Hc Hr. rewrite <- (app_nil_r (stored w')), <- (app_nil_r (stored w)). apply (stored_set w i a a' w' Ha Ear Ec). rewrite !app_nil_r.
  unfold astored. rewrite Hr. unfold rstored. now rewrite Hc.
Qed.

Lemma comp_tag_creg w w' : creg w' = creg w -> forall c, comp_tag w' c = comp_tag w c.
Proof.
  unfold creg. intros H c. injection H as Hm _ _. unfold comp_tag.
  assert (E : option_map (fun s : slot cinfo => (gen s, link s, option_map cstat (val s))) (sget (slots (w_comps w')) c) =
              option_map (fun s : slot cinfo => (gen s, link s, option_map cstat (val s))) (sget (slots (w_comps w)) c)) by (rewrite !sget_nth, <- !nth_error_map; now rewrite Hm).
  destruct (sget (slots (w_comps w')) c) as [s'|], (sget (slots (w_comps w)) c) as [s|]; cbn in E; try discriminate; [|reflexivity].
  injection E as _ _ Ev. destruct (val s') as [ci'|], (val s) as [ci|]; cbn in Ev; try discriminate; [|reflexivity]. unfold cstat in Ev. now inversion Ev.
Qed.

Lemma upd_edges_stored w ai i r : Permutation (stored (upd_arch w ai (fun a => set_edges a (i a) (r a)))) (stored w).
Proof.
  unfold upd_arch. destruct (slab_get (w_archs w) ai) as [a|] eqn:Ha; [|reflexivity]. apply (stored_same_rows w _ ai a (set_edges a (i a) (r a)) Ha); reflexivity.
Qed.

Lemma create_arch_stored w cs ins rem : stored (snd (create_arch w cs ins rem)) = stored w.
Proof.
  destruct (create_arch_reg w cs ins rem) as (_ & Harchs & _). cbn zeta in Harchs.
  apply (stored_insert_empty w _ _ Harchs); [|apply comp_tag_creg, creg_create_arch].
  set (a0 := mkA (w_auid w) cs [] 0 0 ins rem [] []). set (vk := slab_vacant_key (w_archs w)).
  assert (G : forall L a hs, a_rows a = [] -> a_rows (fst (fold_left (reg_step vk) L (a, hs))) = []).
  { induction L as [|[o hk] L IH]; intros a hs H0; cbn [fold_left]; [exact H0|].
    change (reg_step vk (a, hs) (o, hk)) with (match sm_get hk hs with Some h => let '(a', h') := register_handler vk a h in (a', upd_by_key hs hk (fun _ => h')) | None => (a, hs) end).
    destruct (sm_get hk hs) as [h|]; [|now apply IH]. destruct (register_handler_core vk a h) as (_ & Hr & _). destruct (register_handler vk a h) as [a' h']. cbn [fst] in Hr. apply IH. congruence. }
  now apply G.
Qed.

Lemma traverse_insert_ledger w src c : let w1 := res_world (traverse_insert w src c) in
  w_drops w1 = w_drops w /\ (forall x, comp_tag w1 x = comp_tag w x) /\ Permutation (stored w1) (stored w).
Proof.
  cbn zeta. split; [apply (r_traverse_insert w_drops); fr|]. split; [apply comp_tag_creg, creg_traverse_insert|].
  unfold traverse_insert. destruct (slab_get (w_archs w) src) as [sa|]; [|reflexivity]. destruct (alookup c (a_ins sa)); [reflexivity|]. destruct (arch_has sa c); [reflexivity|].
  destruct (aby_lookup w (sorted_insert c (a_comps sa))); cbn [res_world]; [apply (upd_edges_stored w src (fun a => ainsert c n (a_ins a)) a_rem)|].
  pose proof (create_arch_stored w (sorted_insert c (a_comps sa)) [] [(c, src)]) as H. destruct (create_arch w _ _ _) as [d w1]. cbn [snd res_world] in *.
  rewrite <- H. apply (upd_edges_stored w1 src (fun a => ainsert c d (a_ins a)) a_rem).
Qed.
Lemma traverse_remove_ledger w src c : let w1 := res_world (traverse_remove w src c) in
  w_drops w1 = w_drops w /\ (forall x, comp_tag w1 x = comp_tag w x) /\ Permutation (stored w1) (stored w).
Proof.
  cbn zeta. split; [apply (r_traverse_remove w_drops); fr|]. split; [apply comp_tag_creg, creg_traverse_remove|].
  unfold traverse_remove. destruct (slab_get (w_archs w) src) as [sa|]; [|reflexivity]. destruct (alookup c (a_rem sa)); [reflexivity|]. destruct (negb (arch_has sa c)); [reflexivity|].
  destruct (aby_lookup w (filter (fun x => negb (x =? c)) (a_comps sa))); cbn [res_world]; [apply (upd_edges_stored w src a_ins (fun a => ainsert c n (a_rem a)))|].
  pose proof (create_arch_stored w (filter (fun x => negb (x =? c)) (a_comps sa)) [(c, src)] []) as H. destruct (create_arch w _ _ _) as [d w1]. cbn [snd res_world] in *.
  rewrite <- H. apply (upd_edges_stored w1 src a_ins (fun a => ainsert c d (a_rem a))).
Qed.

(* ---------- spawn: new rows hold no values ---------- *)
Lemma arch_spawn_ledger w e : let w1 := snd (arch_spawn w e) in w_drops w1 = w_drops w /\ w_comps w1 = w_comps w /\ Permutation (stored w1) (stored w).
Proof.
  cbn zeta. unfold arch_spawn. destruct (slab_get (w_archs w) 0) as [a0|] eqn:Ha; [|repeat split; reflexivity]. destruct (reserve_one a0) as [a1 re] eqn:Hres.
  assert (Hd : a_comps a1 = a_comps a0 /\ a_rows a1 = a_rows a0).
  { assert (X1 : a1 = fst (reserve_one a0)) by now rewrite Hres. rewrite X1. unfold reserve_one. destruct (nlen (a_rows a0) =? a_cap a0); cbn; split; reflexivity. }
  destruct Hd as [Dc Dr]. set (a2 := set_rows a1 (a_rows a1 ++ [(e, [])])). set (w1 := set_archs w (slab_set (w_archs w) 0 a2)).
  assert (P : Permutation (stored w1) (stored w)).
  { rewrite <- (app_nil_r (stored w1)), <- (app_nil_r (stored w)). apply (stored_set w 0 a0 a2 w1 Ha eq_refl eq_refl). rewrite !app_nil_r.
    unfold a2. rewrite astored_rows, Dr, flat_map_app. cbn [flat_map snd]. unfold rstored at 2. rewrite combine_nil. cbn [tracked_cv flat_map]. rewrite !app_nil_r.
    unfold astored. assert (Er : forall vals0, rstored (comp_tag w) a1 vals0 = rstored (comp_tag w) a0 vals0) by (intros; unfold rstored; now rewrite Dc).
    now rewrite (flat_map_ext _ _ (fun r => Er (snd r))). }
  destruct (_ || re); cbn [snd]; [destruct (notify_refresh_fields w1 0) as (N1 & N2 & N3); rewrite N2, N3; split; [reflexivity|split; [reflexivity|]]; unfold stored; rewrite N1;
    assert (Etg : forall p : N * arch, astored (comp_tag (notify_refresh w1 0)) (snd p) = astored (comp_tag w1) (snd p)) by (intros p; unfold astored; apply flat_map_ext; intros r; unfold rstored, tracked_cv; apply flat_map_ext; intros [c v]; now rewrite (comp_tag_same w1 _ N3));
    rewrite (flat_map_ext _ _ Etg); exact P|split; [reflexivity|split; [reflexivity|exact P]]].
Qed.

Lemma stored_set_ents w x : stored (set_ents w x) = stored w. Proof. reflexivity. Qed.

Lemma spawn_all_n_ledger n : forall w, let w1 := res_world (spawn_all_n n w) in w_drops w1 = w_drops w /\ w_comps w1 = w_comps w /\ Permutation (stored w1) (stored w).
Proof.
  induction n as [|n IH]; intros w; cbn zeta; cbn [spawn_all_n]; [repeat split; reflexivity|].
  destruct (insert_with (fun _ => (0, 0)) (w_ents w)) as [[k m]|]; [|repeat split; reflexivity].
  destruct (arch_spawn_ledger w k) as (A & B & C). cbn zeta in A, B, C. destruct (arch_spawn w k) as [loc w1]. cbn [snd] in *.
  destruct (insert_with (fun _ => loc) (w_ents w1)) as [[k' ents']|]; [|split; [exact A|split; [exact B|exact C]]].
  destruct (IH (set_ents w1 ents')) as (A' & B' & C'). cbn zeta in A', B', C'. split; [now rewrite A'|]. split; [now rewrite B'|]. etransitivity; [exact C'|exact C].
Qed.
Lemma spawn_all_ledger w : let w1 := res_world (spawn_all w) in w_drops w1 = w_drops w /\ w_comps w1 = w_comps w /\ Permutation (stored w1) (stored w).
Proof.
  cbn zeta. unfold spawn_all. destruct (spawn_all_n_ledger (N.to_nat (w_rcnt w)) w) as (A & B & C). cbn zeta in A, B, C.
  destruct (spawn_all_n _ w) as [[] w1|f w1]; cbn [rbind res_world] in *; split; auto.
Qed.

Lemma stored_tag_ext w w' : w_archs w' = w_archs w -> (forall c, comp_tag w' c = comp_tag w c) -> stored w' = stored w.
Proof.
  intros Ea Etg. unfold stored. rewrite Ea. apply flat_map_ext. intros p. unfold astored. apply flat_map_ext. intros r. unfold rstored, tracked_cv. apply flat_map_ext. intros [c v]. now rewrite Etg.
Qed.
Lemma tracked_tag_ext tg tg' cvs : (forall c, tg' c = tg c) -> tracked_cv tg' cvs = tracked_cv tg cvs.
Proof. intros E. unfold tracked_cv. apply flat_map_ext. intros [c v]. now rewrite E. Qed.

(* ---------- C12, effect by effect ---------- *)
Theorem insert_effect_ledger w e loc c ev w' :
  WInv w -> sm_get e (w_ents w) = Some loc -> builtin_effect (KInsert c) ev loc w = ROk tt w' ->
  exists newdrops, w_drops w' = w_drops w ++ newdrops /\
    Permutation (stored w' ++ newdrops) (stored w ++ tracked_cv (comp_tag w) [(c, (ev_ser ev, ev_val ev))]).
Proof.
  intros (Hst & Hg & _) Hloc Heff. destruct loc as [sai srow]. cbn [builtin_effect fst] in Heff.
  pose proof Hst as (_ & Hl & Hr). destruct (Hl _ _ _ Hloc) as (sa & vals & Hsa & Hrow).
  destruct (traverse_insert_ok w sai sa c Hst Hg Hsa) as (d & w1 & Et & Hst1 & _ & _ & _ & (sa1 & Hsa1 & Hc1 & Hr1) & _).
  destruct (traverse_insert_ledger w sai c) as (D1 & T1 & P1). cbn zeta in D1, T1, P1. rewrite Et in *. cbn [rbind res_world] in *.
  assert (Hrow1 : nget (a_rows sa1) srow = Some (e, vals)) by now rewrite Hr1.
  assert (Hlen : length vals = length (a_comps sa1)) by (destruct Hst1 as (_ & _ & Hr'); exact (proj2 (Hr' _ _ _ _ _ Hsa1 Hrow1))).
  destruct (move_entity_ledger w1 sai srow d (Some (c, (ev_ser ev, ev_val ev))) sa1 e vals w' Heff Hsa1 Hrow1 Hlen) as (nd & A & B & C).
  exists nd. split; [now rewrite A, D1|]. rewrite (tracked_tag_ext _ _ _ T1) in C. etransitivity; [exact C|]. now apply Permutation_app_tail.
Qed.

Theorem remove_effect_ledger w e loc c ev w' :
  WInv w -> sm_get e (w_ents w) = Some loc -> builtin_effect (KRemove c) ev loc w = ROk tt w' ->
  exists newdrops, w_drops w' = w_drops w ++ newdrops /\ Permutation (stored w' ++ newdrops) (stored w).
Proof.
  intros (Hst & Hg & _) Hloc Heff. destruct loc as [sai srow]. cbn [builtin_effect fst] in Heff.
  pose proof Hst as (_ & Hl & Hr). destruct (Hl _ _ _ Hloc) as (sa & vals & Hsa & Hrow).
  destruct (traverse_remove_ok w sai sa c Hst Hg Hsa) as (d & w1 & Et & Hst1 & _ & _ & _ & (sa1 & Hsa1 & Hc1 & Hr1) & _).
  destruct (traverse_remove_ledger w sai c) as (D1 & T1 & P1). cbn zeta in D1, T1, P1. rewrite Et in *. cbn [rbind res_world] in *.
  assert (Hrow1 : nget (a_rows sa1) srow = Some (e, vals)) by now rewrite Hr1.
  assert (Hlen : length vals = length (a_comps sa1)) by (destruct Hst1 as (_ & _ & Hr'); exact (proj2 (Hr' _ _ _ _ _ Hsa1 Hrow1))).
  destruct (move_entity_ledger w1 sai srow d None sa1 e vals w' Heff Hsa1 Hrow1 Hlen) as (nd & A & B & C).
  exists nd. split; [now rewrite A, D1|]. cbn [new_pair tracked_cv flat_map] in C. rewrite app_nil_r in C. etransitivity; [exact C|exact P1].
Qed.

Theorem despawn_effect_ledger w e loc ev w' :
  WInv w -> sm_get e (w_ents w) = Some loc -> builtin_effect KDespawn ev loc w = ROk tt w' ->
  exists newdrops, w_drops w' = w_drops w ++ newdrops /\ Permutation (stored w' ++ newdrops) (stored w).
Proof.
  intros HW Hloc Heff. cbn [builtin_effect] in Heff. pose proof (spawn_all_ok w HW) as Hsp. destruct (spawn_all_ledger w) as (D1 & C1 & P1). cbn zeta in D1, C1, P1.
  destruct (spawn_all w) as [[] w2|f w2]; cbn [rbind res_world] in *; [|discriminate]. destruct Hsp as (HW2 & Hl2 & _).
  assert (Hlive : sm_get e (w_ents w) <> None) by congruence. destruct (Hl2 e Hlive) as [He2 _]. rewrite Hloc in He2.
  destruct loc as [ai row]. pose proof HW2 as ((_ & Hlk & _) & _). destruct (Hlk _ _ _ He2) as (a & vals & Ha & Hrow).
  destruct (remove_entity w2 (ai, row)) as [[] w3|f w3] eqn:Er; cbn [rbind] in Heff; [|discriminate]. inversion Heff; subst w'; clear Heff.
  destruct (remove_entity_ledger w2 ai row a e vals w3 Er Ha Hrow) as (A & B & C).
  exists (rstored (comp_tag w2) a vals). split; [cbn [w_drops refresh_cursor set_res]; now rewrite A, D1|].
  change (stored (refresh_cursor w3)) with (stored w3). etransitivity; [exact C|exact P1].
Qed.

Theorem spawn_effect_ledger w ev loc : let w' := res_world (builtin_effect KSpawn ev loc w) in
  w_drops w' = w_drops w /\ Permutation (stored w') (stored w).
Proof. cbn zeta. cbn [builtin_effect]. destruct (spawn_all_ledger w) as (A & _ & C). split; assumption. Qed.

(* ---------- C13: the dropper destroys each event handed to it exactly once ---------- *)
Definition ev_entry (targeted : bool) (tag : N) (ev : evv) : list (N * N) :=
  if targeted then
    if (20 <=? tag) && (tag <? 40) then (if ctag_has_drop (tag - 20) then [(tag - 20, ev_ser ev)] else [])
    else if ttag_has_drop tag then [(200 + tag, ev_ser ev)] else []
  else if gtag_has_drop tag then [(100 + tag, ev_ser ev)] else [].

Lemma ev_drop_spec w targeted tag ev : w_drops (ev_drop w targeted tag ev) = w_drops w ++ ev_entry targeted tag ev /\
  w_gev (ev_drop w targeted tag ev) = w_gev w /\ w_tev (ev_drop w targeted tag ev) = w_tev w.
Proof.
  unfold ev_drop, ev_entry, drop_cval. destruct targeted; [destruct ((20 <=? tag) && (tag <? 40)); [destruct (ctag_has_drop (tag - 20))|destruct (ttag_has_drop tag)]|destruct (gtag_has_drop tag)];
    cbn [w_drops w_gev w_tev log_drop set_drops fst]; rewrite ?app_nil_r; repeat split.
Qed.

Definition item_tag (w : world) (it : qitem) : N :=
  if qi_targeted it
  then match get_by_index (w_tev w) (qi_idx it) with Some (_, i) => e_tag i | None => 999 end
  else match get_by_index (w_gev w) (qi_idx it) with Some (_, i) => e_tag i | None => 999 end.

Theorem unwind_queue_spec q : forall w,
  w_drops (unwind_queue q w) = w_drops w ++ flat_map (fun it => ev_entry (qi_targeted it) (item_tag w it) (qi_ev it)) q.
Proof.
  unfold unwind_queue. induction q as [|it q IH]; intros w; cbn [fold_left flat_map]; [now rewrite app_nil_r|].
  set (tag := if qi_targeted it then _ else _). destruct (ev_drop_spec w (qi_targeted it) tag (qi_ev it)) as (A & B & C).
  rewrite IH, A, <- app_assoc. f_equal. change (item_tag w it) with tag. f_equal. apply flat_map_ext. intros it'. unfold item_tag. now rewrite B, C.
Qed.
