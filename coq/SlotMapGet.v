(* SlotMapGet.v : what `get` returns after insert / remove / in-place update, under SmInv. *)
From Coq Require Import List NArith Bool Lia.
Import ListNotations.
Require Import EV.Base EV.SlotMap EV.World.
Open Scope N_scope.

Section G.
Context {V : Type}.
Implicit Types (m : smap V) (k : key).

Lemma sm_get_some_inv k m v : sm_get k m = Some v ->
  exists s, sget (slots m) (fst k) = Some s /\ gen s = snd k /\ val s = Some v.
Proof.
  unfold sm_get. destruct (sget (slots m) (fst k)) as [s|]; [|discriminate].
  destruct (gen s =? snd k) eqn:E; [|discriminate]. apply N.eqb_eq in E. eauto.
Qed.

(* an occupied slot is not vacant: SmInv ties parity and presence *)
Lemma vacant_val_none m i s : SmInv m -> sget (slots m) i = Some s -> N.even (gen s) = true -> val s = None.
Proof.
  intros (_ & Hok & _) Hs He. destruct (Hok _ _ Hs) as [_ Hodd]. destruct (val s) eqn:Ev; [|reflexivity].
  assert (N.odd (gen s) = true) by (apply Hodd; congruence). rewrite <- N.negb_odd, H in He. discriminate.
Qed.

Lemma insert_get_new f m k m' : SmInv m -> insert_with f m = Some (k, m') -> sm_get k m' = Some (f k).
Proof. intros Hi H. exact (proj2 (proj2 (sm_fresh f m [] k m' Hi (fun _ Hin => match Hin with end) H))). Qed.

Lemma insert_get_other f m k m' k' : SmInv m -> insert_with f m = Some (k, m') -> k' <> k -> sm_get k' m' = sm_get k' m.
Proof.
  intros Hi H Hne. pose proof Hi as ((c & Hc & Hnd) & Hok & Hb). unfold insert_with in H.
  destruct (sget (slots m) (next_free m)) as [s|] eqn:Es.
  - inversion H; subst; clear H. unfold sm_get. cbn [slots].
    destruct (N.eq_dec (next_free m) (fst k')) as [E|E].
    + rewrite <- E. erewrite sget_supd_eq by eauto. rewrite Es. cbn [gen val].
      destruct (chain_head _ _ _ Hb Hc _ Es) as (rest & -> & Hev & Hnz & Hrest).
      rewrite (vacant_val_none m _ s Hi Es Hev).
      destruct (gen s + 1 =? snd k') eqn:G; [|now destruct (gen s =? snd k')].
      apply N.eqb_eq in G. exfalso. apply Hne. destruct k'. cbn in *. now subst.
    + now rewrite sget_supd_neq by auto.
  - destruct (N.of_nat (length (slots m)) =? U32MAX) eqn:El; [discriminate|]. inversion H; subst; clear H.
    unfold sm_get. cbn [slots]. destruct (sget (slots m) (fst k')) as [s|] eqn:Es'.
    + now rewrite (sget_app_old _ _ _ _ Es').
    + destruct (sget (slots m ++ [_]) (fst k')) as [s|] eqn:Ea; [|reflexivity].
      apply sget_app_inv in Ea as [Ea|[Ei ->]]; [congruence|]. cbn [gen val].
      destruct (1 =? snd k') eqn:G; [|reflexivity]. apply N.eqb_eq in G. exfalso. apply Hne. destruct k'. cbn in *. now subst.
Qed.

(* a key about to be issued is not valid before the insertion *)
Lemma insert_get_fresh f m k m' : SmInv m -> insert_with f m = Some (k, m') -> sm_get k m = None.
Proof.
  intros Hi H. pose proof Hi as ((c & Hc & Hnd) & Hok & Hb). destruct (sm_get k m) as [v|] eqn:E; [|reflexivity]. exfalso.
  destruct (sm_get_some_inv _ _ _ E) as (s & Hs & Hgen & Hv). unfold insert_with in H.
  destruct (sget (slots m) (next_free m)) as [s0|] eqn:Es0.
  - inversion H; subst; clear H. cbn [fst snd] in Hs, Hgen. rewrite Es0 in Hs. inversion Hs; subst. lia.
  - destruct (N.of_nat (length (slots m)) =? U32MAX); [discriminate|]. inversion H; subst; clear H. cbn [fst] in Hs. apply sget_lt in Hs. lia.
Qed.

Lemma remove_get_self k m v m' : sm_remove k m = Some (v, m') -> sm_get k m = Some v.
Proof.
  unfold sm_remove, sm_get. destruct (sget (slots m) (fst k)) as [s|]; [|discriminate].
  destruct (gen s =? snd k); [|discriminate]. destruct (val s); [|discriminate].
  destruct (wrap_succ (gen s) =? 0); intros H; inversion H; reflexivity.
Qed.

Lemma remove_get_other k m v m' k' : SmInv m -> sm_remove k m = Some (v, m') -> k' <> k -> sm_get k' m' = sm_get k' m.
Proof.
  intros Hi H Hne. pose proof Hi as (_ & Hok & _). unfold sm_remove in H.
  destruct (sget (slots m) (fst k)) as [s|] eqn:Es; [|discriminate].
  destruct (gen s =? snd k) eqn:Eg; [|discriminate]. apply N.eqb_eq in Eg.
  destruct (val s) as [v0|] eqn:Ev; [|discriminate].
  assert (Hsame : forall s', sget (slots m') (fst k) = Some s' -> val s' = None /\ gen s' <> snd k).
  { destruct (Hok _ _ Es) as [Hlt Hodd]. assert (Ho : N.odd (gen s) = true) by (apply Hodd; congruence).
    destruct (wrap_succ (gen s) =? 0) eqn:Ew; inversion H; subst; cbn [slots]; intros s' Hs';
      erewrite sget_supd_eq in Hs' by eauto; inversion Hs'; subst; cbn [val gen]; split; try reflexivity.
    - intros Z. rewrite Eg, <- Z in Ho. discriminate.
    - apply N.eqb_neq in Ew. unfold wrap_succ in *. intros Z.
      destruct (N.eq_dec (gen s + 1) TWO32) as [E'|E'].
      + rewrite E', N.mod_same in Ew by (unfold TWO32; lia). congruence.
      + rewrite N.mod_small in Z by lia. lia. }
  unfold sm_get. destruct (N.eq_dec (fst k) (fst k')) as [E|E].
  - rewrite <- E, Es. destruct (sget (slots m') (fst k)) as [s'|] eqn:Es'.
    + destruct (Hsame _ eq_refl) as [Hv Hg]. rewrite Hv.
      destruct (gen s =? snd k') eqn:G; [|now destruct (gen s' =? snd k')].
      apply N.eqb_eq in G. exfalso. apply Hne. destruct k, k'. cbn in *. subst. reflexivity.
    + destruct (gen s =? snd k') eqn:G; [|reflexivity].
      apply N.eqb_eq in G. exfalso. apply Hne. destruct k, k'. cbn in *. subst. reflexivity.
  - assert (Hs : sget (slots m') (fst k') = sget (slots m) (fst k')).
    { destruct (wrap_succ (gen s) =? 0); inversion H; subst; cbn [slots]; now rewrite sget_supd_neq by auto. }
    now rewrite Hs.
Qed.

Lemma remove_get_gone k m v m' : SmInv m -> sm_remove k m = Some (v, m') -> sm_get k m' = None.
Proof.
  intros Hi H. pose proof Hi as (_ & Hok & _). unfold sm_remove in H.
  destruct (sget (slots m) (fst k)) as [s|] eqn:Es; [|discriminate].
  destruct (gen s =? snd k) eqn:Eg; [|discriminate].
  destruct (val s) as [v0|] eqn:Ev; [|discriminate].
  unfold sm_get. destruct (wrap_succ (gen s) =? 0); inversion H; subst; cbn [slots];
    erewrite sget_supd_eq by eauto; cbn [gen val]; match goal with |- (if ?b then _ else _) = _ => destruct b end; reflexivity.
Qed.

(* in-place update of the value of a live key *)
Lemma upd_get_eq m k (f : V -> V) v : sm_get k m = Some v -> sm_get k (upd_by_index m (fst k) f) = Some (f v).
Proof.
  intros H. destruct (sm_get_some_inv _ _ _ H) as (s & Hs & Hg & Hv). unfold upd_by_index. rewrite Hs, Hv.
  unfold sm_get. cbn [slots]. erewrite sget_supd_eq by eauto. cbn [gen val]. now rewrite Hg, N.eqb_refl.
Qed.
Lemma upd_get_neq m i (f : V -> V) k : fst k <> i -> sm_get k (upd_by_index m i f) = sm_get k m.
Proof.
  intros Hne. unfold upd_by_index. destruct (sget (slots m) i) as [s|]; [|reflexivity]. destruct (val s); [|reflexivity].
  unfold sm_get. cbn [slots]. now rewrite sget_supd_neq by auto.
Qed.
Lemma upd_get_same_index m k (f : V -> V) k' v : sm_get k m = Some v -> fst k' = fst k -> k' <> k -> sm_get k' (upd_by_index m (fst k) f) = None.
Proof.
  intros H Hi Hne. destruct (sm_get_some_inv _ _ _ H) as (s & Hs & Hg & Hv). unfold upd_by_index. rewrite Hs, Hv.
  unfold sm_get. cbn [slots]. rewrite Hi. erewrite sget_supd_eq by eauto. cbn [gen val].
  destruct (gen s =? snd k') eqn:G; [|reflexivity]. apply N.eqb_eq in G. exfalso. apply Hne. destruct k, k'. cbn in *. subst. reflexivity.
Qed.
Lemma upd_inv m k (f : V -> V) v : SmInv m -> sm_get k m = Some v -> SmInv (upd_by_index m (fst k) f).
Proof.
  intros ((c & Hc & Hnd) & Hok & Hb) H. destruct (sm_get_some_inv _ _ _ H) as (s & Hs & Hg & Hv).
  unfold upd_by_index. rewrite Hs, Hv. unfold SmInv. cbn [slots next_free sm_len]. split; [|split].
  - exists c. split; [|exact Hnd]. apply chain_supd_notin; [exact Hc|]. intros Hin.
    destruct (chain_members_even _ _ _ Hc _ Hin) as (s' & Hs' & He). rewrite Hs in Hs'. inversion Hs'; subst.
    destruct (Hok _ _ Hs) as [_ Hodd]. assert (N.odd (gen s') = true) by (apply Hodd; congruence).
    rewrite <- N.negb_odd, H0 in He. discriminate.
  - intros j s' Hj. destruct (N.eq_dec (fst k) j) as [<-|Hne].
    + erewrite sget_supd_eq in Hj by eauto. inversion Hj; subst. destruct (Hok _ _ Hs) as [Hlt Hodd]. split; cbn; [exact Hlt|].
      split; [intros _; discriminate|intros _; apply Hodd; congruence].
    + rewrite sget_supd_neq in Hj by auto. eauto.
  - now rewrite supd_upd, upd_length.
Qed.

(* ---------- access by index (SlotMap::get_by_index) ---------- *)
Lemma gbi_of_get m k v : sm_get k m = Some v -> get_by_index m (fst k) = Some (k, v).
Proof.
  intros H. destruct (sm_get_some_inv _ _ _ H) as (s & Hs & Hg & Hv). unfold get_by_index. rewrite Hs, Hv, Hg. now destruct k.
Qed.
Lemma get_of_gbi m i k v : get_by_index m i = Some (k, v) -> fst k = i /\ sm_get k m = Some v.
Proof.
  unfold get_by_index, sm_get. destruct (sget (slots m) i) as [s|] eqn:Es; [|discriminate]. destruct (val s) as [v0|] eqn:Ev; [|discriminate].
  intros H. inversion H; subst. cbn [fst snd]. rewrite Es, N.eqb_refl, Ev. auto.
Qed.
Lemma gbi_upd m c (f : V -> V) i :
  get_by_index (upd_by_index m c f) i = if i =? c then match get_by_index m i with Some (k, v) => Some (k, f v) | None => None end else get_by_index m i.
Proof.
  unfold upd_by_index, get_by_index. destruct (i =? c) eqn:E.
  - apply N.eqb_eq in E. subst i. destruct (sget (slots m) c) as [s|] eqn:Es; [|now rewrite Es].
    destruct (val s) as [v|] eqn:Ev; [|now rewrite Es, Ev]. cbn [slots]. erewrite sget_supd_eq by eauto. reflexivity.
  - apply N.eqb_neq in E. destruct (sget (slots m) c) as [s|] eqn:Es; [|reflexivity]. destruct (val s); [|reflexivity].
    cbn [slots]. now rewrite sget_supd_neq by auto.
Qed.
Lemma upd_index_inv m c (f : V -> V) : SmInv m -> SmInv (upd_by_index m c f).
Proof.
  intros Hi. destruct (get_by_index m c) as [[k v]|] eqn:E.
  - destruct (get_of_gbi _ _ _ _ E) as [<- Hg]. eapply upd_inv; eauto.
  - unfold upd_by_index. unfold get_by_index in E. destruct (sget (slots m) c) as [s|]; [|exact Hi]. destruct (val s); [discriminate|exact Hi].
Qed.
Lemma gbi_insert_fresh f m k m' : SmInv m -> insert_with f m = Some (k, m') -> get_by_index m (fst k) = None.
Proof.
  intros Hi H. pose proof Hi as ((c & Hc & Hnd) & Hok & Hb). unfold insert_with in H. unfold get_by_index.
  destruct (sget (slots m) (next_free m)) as [s|] eqn:Es.
  - inversion H; subst; clear H. cbn [fst]. rewrite Es. destruct (chain_head _ _ _ Hb Hc _ Es) as (rest & -> & Hev & _).
    now rewrite (vacant_val_none m _ s Hi Es Hev).
  - destruct (N.of_nat (length (slots m)) =? U32MAX); [discriminate|]. inversion H; subst; clear H. cbn [fst].
    destruct (sget (slots m) (N.of_nat (length (slots m)))) as [s|] eqn:E; [|reflexivity]. apply sget_lt in E. lia.
Qed.
Lemma gbi_insert_new f m k m' : SmInv m -> insert_with f m = Some (k, m') -> get_by_index m' (fst k) = Some (k, f k).
Proof. intros Hi H. apply gbi_of_get. eapply insert_get_new; eauto. Qed.
Lemma gbi_insert_old f m k m' i k0 v : SmInv m -> insert_with f m = Some (k, m') -> get_by_index m i = Some (k0, v) -> get_by_index m' i = Some (k0, v).
Proof.
  intros Hi H Hg. destruct (get_of_gbi _ _ _ _ Hg) as [<- Hs]. apply gbi_of_get.
  rewrite (insert_get_other f m k m' k0 Hi H); [exact Hs|]. intros ->. rewrite (insert_get_fresh f m k m' Hi H) in Hs. discriminate.
Qed.
Lemma gbi_insert_other f m k m' i : SmInv m -> insert_with f m = Some (k, m') -> i <> fst k -> get_by_index m' i = get_by_index m i.
Proof.
  intros Hi H Hne. unfold insert_with in H. unfold get_by_index. destruct (sget (slots m) (next_free m)) as [s|] eqn:Es.
  - inversion H; subst; clear H. cbn [fst slots] in *. now rewrite sget_supd_neq by auto.
  - destruct (N.of_nat (length (slots m)) =? U32MAX); [discriminate|]. inversion H; subst; clear H. cbn [fst slots] in *.
    destruct (sget (slots m) i) as [s|] eqn:E; [now rewrite (sget_app_old _ _ _ _ E)|].
    destruct (sget (slots m ++ [_]) i) as [s|] eqn:Ea; [|reflexivity]. apply sget_app_inv in Ea as [Ea|[Ei _]]; [congruence|contradiction].
Qed.
Lemma gbi_remove_other k m v m' i : sm_remove k m = Some (v, m') -> i <> fst k -> get_by_index m' i = get_by_index m i.
Proof.
  unfold sm_remove, get_by_index. destruct (sget (slots m) (fst k)) as [s|] eqn:Es; [|discriminate].
  destruct (gen s =? snd k); [|discriminate]. destruct (val s) as [v0|]; [|discriminate]. intros H Hne.
  destruct (wrap_succ (gen s) =? 0); inversion H; subst; cbn [slots]; now rewrite sget_supd_neq by auto.
Qed.
Lemma gbi_remove_self k m v m' : sm_remove k m = Some (v, m') -> get_by_index m' (fst k) = None.
Proof.
  unfold sm_remove, get_by_index. destruct (sget (slots m) (fst k)) as [s|] eqn:Es; [|discriminate].
  destruct (gen s =? snd k); [|discriminate]. destruct (val s) as [v0|]; [|discriminate]. intros H.
  destruct (wrap_succ (gen s) =? 0); inversion H; subst; cbn [slots]; erewrite sget_supd_eq by eauto; reflexivity.
Qed.
End G.
