(* ---- Reserve.v (prototype) : NextKeyIter / ReservedEntities prediction, on top of SlotMap.v ---- *)
From Coq Require Import List NArith Bool Lia PeanoNat.
Import ListNotations.
Require Import EV.Base EV.SlotMap.
Open Scope N_scope.

Section R.
Variable V : Type.
Notation smap := (smap V). Notation slot := (slot V).

(* slot_map.rs:145-154 *)
Definition next_key_iter (m : smap) : N :=
  if next_free m =? U32MAX then N.of_nat (length (slots m)) else next_free m.

(* slot_map.rs:341-370 ; outer None = the "incorrect state for next key iter" panic *)
Definition nki_next (idx : N) (m : smap) : option (option key * N) :=
  match sget (slots m) idx with
  | Some s =>
      if N.even (gen s)
      then Some (Some (idx, gen s + 1),
                 if link s =? U32MAX then N.of_nat (length (slots m)) else link s)
      else None
  | None => if idx <? U32MAX then Some (Some (idx, 1), idx + 1) else Some (None, idx)
  end.

(* n successive predictions on an unchanged map *)
Fixpoint predict (n : nat) (idx : N) (m : smap) : option (list key * N) :=
  match n with
  | O => Some ([], idx)
  | S n' => match nki_next idx m with
            | Some (Some k, idx') => match predict n' idx' m with
                                     | Some (ks, i) => Some (k :: ks, i) | None => None end
            | _ => None
            end
  end.
(* n successive inserts (entity.rs:216-227 spawn_all) *)
Fixpoint inserts (n : nat) (f : key -> V) (m : smap) : option (list key * smap) :=
  match n with
  | O => Some ([], m)
  | S n' => match insert_with f m with
            | Some (k, m') => match inserts n' f m' with
                              | Some (ks, m'') => Some (k :: ks, m'') | None => None end
            | None => None
            end
  end.

(* the explicit key sequence both must produce: free chain first, then fresh indices *)
Fixpoint spec_keys (l : list slot) (c : list N) (base : N) (n : nat) : list key :=
  match n with
  | O => []
  | S n' => match c with
            | i :: rest => (i, match sget l i with Some s => gen s + 1 | None => 0 end) :: spec_keys l rest base n'
            | [] => (base, 1) :: spec_keys l [] (base + 1) n'
            end
  end.

Definition start_of (l : list slot) (h : N) : N := if h =? U32MAX then N.of_nat (length l) else h.

Lemma predict_spec m : N.of_nat (length (slots m)) <= U32MAX ->
  forall n h c, chain (slots m) h c ->
  (N.of_nat (length (slots m)) + N.of_nat n <= U32MAX) ->
  exists i, predict n (start_of (slots m) h) m = Some (spec_keys (slots m) c (N.of_nat (length (slots m))) n, i).
Proof.
  intros Hb. set (L := N.of_nat (length (slots m))) in *.
  (* fresh-index phase *)
  assert (Fresh : forall n base, L <= base -> base + N.of_nat n <= U32MAX ->
            exists i, predict n base m = Some (spec_keys (slots m) [] base n, i)).
  { induction n as [|n IH]; intros base H1 H2; cbn [predict spec_keys]; [eauto|].
    unfold nki_next. destruct (sget (slots m) base) as [s|] eqn:E.
    - apply sget_lt in E. fold L in E. lia.
    - assert (base <? U32MAX = true) as -> by (apply N.ltb_lt; lia).
      destruct (IH (base + 1)) as [i Hi]; [lia|lia|]. rewrite Hi. eauto. }
  induction n as [|n IH]; intros h c Hc Hn; cbn [predict spec_keys]; [eauto|].
  destruct Hc as [|i s rest Hs He Hnz Hrest].
  - unfold start_of. rewrite N.eqb_refl. fold L.
    destruct (Fresh (S n) L) as [j Hj]; [lia|lia|]. cbn [predict spec_keys] in Hj. eauto.
  - assert (i < L) by (eapply sget_lt; eauto). unfold start_of.
    assert (i =? U32MAX = false) as -> by (apply N.eqb_neq; lia).
    unfold nki_next. rewrite Hs, He.
    destruct (IH (link s) rest Hrest) as [j Hj]; [lia|]. unfold start_of in Hj. fold L. fold L in Hj. rewrite Hj. eauto.
Qed.

Lemma spec_keys_ext (l l' : list slot) c base n : (forall i, In i c -> sget l' i = sget l i) -> spec_keys l' c base n = spec_keys l c base n.
Proof.
  revert c base. induction n as [|n IH]; intros c base H; cbn; [reflexivity|]. destruct c as [|i rest].
  - f_equal. apply IH. intros ? [].
  - rewrite H by now left. f_equal. apply IH. intros j Hj. apply H. now right.
Qed.

Lemma inserts_spec f : forall n m c, SmInv m -> chain (slots m) (next_free m) c -> NoDup c ->
  N.of_nat (length (slots m)) + N.of_nat n <= U32MAX ->
  exists m', inserts n f m = Some (spec_keys (slots m) c (N.of_nat (length (slots m))) n, m') /\ SmInv m'.
Proof.
  induction n as [|n IH]; intros m c Hi Hc Hnd Hn; cbn [inserts spec_keys]; [eauto|].
  pose proof Hi as ((c0 & Hc0 & Hnd0) & Hok & Hb).
  destruct (insert_with f m) as [[k m1]|] eqn:E.
  2:{ exfalso. unfold insert_with in E. destruct (sget (slots m) (next_free m)); [discriminate|].
      destruct (N.of_nat (length (slots m)) =? U32MAX) eqn:El; [|discriminate]. apply N.eqb_eq in El. lia. }
  assert (Hi1 : SmInv m1) by (eapply insert_inv; eauto).
  unfold insert_with in E. destruct Hc as [|i s rest Hs He Hnz Hrest].
  - (* chain exhausted: fresh slot *)
    assert (Hnone : sget (slots m) U32MAX = None).
    { rewrite sget_nth. apply nth_error_None. lia. }
    rewrite Hnone in E. destruct (N.of_nat (length (slots m)) =? U32MAX) eqn:El; [discriminate|].
    inversion E; subst; clear E.
    destruct (IH _ [] Hi1) as (m' & Hm' & Hi'); cbn [slots next_free].
    + constructor. + constructor. + rewrite app_length. cbn. lia.
    + cbn [slots] in Hm'. rewrite app_length in Hm'. cbn [length] in Hm'.
      replace (N.of_nat (length (slots m) + 1)) with (N.of_nat (length (slots m)) + 1) in Hm' by lia.
      rewrite Hm'. eexists. split; [|exact Hi']. f_equal. f_equal. f_equal. apply spec_keys_ext. intros ? [].
  - rewrite Hs in E. inversion E; subst; clear E. inversion Hnd; subst.
    destruct (IH _ rest Hi1) as (m' & Hm' & Hi'); cbn [slots next_free].
    + apply chain_supd_notin; auto.
    + auto.
    + rewrite supd_upd, upd_length. lia.
    + cbn [slots] in Hm'.
      assert (Hlen : length (supd (slots m) i (mkSlot (gen s + 1) (link s) (Some (f (i, gen s + 1))))) = length (slots m))
        by (rewrite supd_upd; apply upd_length).
      rewrite Hlen in Hm'. rewrite Hm', Hs.
      eexists. split; [|exact Hi']. f_equal. f_equal. f_equal.
      apply spec_keys_ext. intros j Hj. apply sget_supd_neq. intros ->. contradiction.
Qed.

(* C03 core: what `reserve` promised is exactly what `spawn_all` creates, and the cursor is fresh again *)
Theorem nki_predicts f n m :
  SmInv m -> N.of_nat (length (slots m)) + N.of_nat n <= U32MAX ->
  exists ks i m', predict n (next_key_iter m) m = Some (ks, i) /\ inserts n f m = Some (ks, m') /\ SmInv m'.
Proof.
  intros Hi Hn. pose proof Hi as ((c & Hc & Hnd) & Hok & Hb).
  destruct (predict_spec m Hb n _ _ Hc Hn) as [i Hp].
  destruct (inserts_spec f n m c Hi Hc Hnd Hn) as (m' & Hm' & Hi').
  exists (spec_keys (slots m) c (N.of_nat (length (slots m))) n), i, m'. auto.
Qed.
End R.
Arguments inserts {V}. Arguments predict {V}. Arguments next_key_iter {V}. Arguments nki_next {V}.
Check nki_predicts. Print Assumptions nki_predicts.

(* The defect D6/D2 in the model: a removal between prediction and materialisation breaks the promise. *)
Definition m0 : smap nat := sm_empty.
Definition run3 := (* three inserts, then: predict one key, sm_remove key (1,1), insert one *)
  match inserts 3%nat (fun _ => 0%nat) m0 with
  | Some (_, m) =>
      match predict 1%nat (next_key_iter m) m, sm_remove (1,1) m with
      | Some (ks, _), Some (_, m') => match inserts 1%nat (fun _ => 0%nat) m' with Some (ks', _) => Some (ks, ks') | None => None end
      | _, _ => None
      end
  | None => None
  end.
Eval vm_compute in run3.   (* = Some ([(3,1)], [(1,3)]) : promised 3v1, created 1v3 *)
