(* HandlerCheck.v : the handler-level access check of World::try_add_handler (after the fix:
   conjunction of all parameters, every parameter alone, every pair) accepts a parameter list
   exactly when no archetype makes the parameters, taken together, hand out a mutable reference
   to a component alongside another reference to it. *)
From Coq Require Import List NArith Bool Lia.
Import ListNotations.
Require Import EV.Base EV.Access EV.AccessProofs EV.Query EV.QueryProofs EV.Aliasing EV.World.
Open Scope N_scope.

Lemma app_nonnil {A} (x y : list A) : x ++ y <> [] <-> x <> [] \/ y <> [].
Proof. destruct x; cbn; split; intros H; try tauto; [left; discriminate|discriminate]. Qed.

Lemma flat_nonnil {A B} (f : A -> list B) l : flat_map f l <> [] <-> exists x, In x l /\ f x <> [].
Proof.
  induction l as [|h t IH]; cbn; [split; [tauto|intros (x & [] & _)]|].
  rewrite app_nonnil, IH. split.
  - intros [H|(x & Hx & Hf)]; [exists h; auto|exists x; auto].
  - intros (x & [<-|Hx] & Hf); [now left|right; eauto].
Qed.

Lemma pair_conflicts_nonnil l : pair_conflicts l <> [] <->
  (exists a, In a l /\ ca_conflicts a <> []) \/
  (exists pre a mid b post, l = pre ++ a :: mid ++ b :: post /\ ca_conflicts (ca_and a b) <> []).
Proof.
  induction l as [|a t IH]; cbn [pair_conflicts].
  - split; [tauto|]. intros [(a & [] & _)|(pre & a & mid & b & post & E & _)]. destruct pre; discriminate.
  - rewrite !app_nonnil, flat_nonnil, IH. split.
    + intros [H|[(b & Hb & Hc)|[(x & Hx & Hc)|(pre & x & mid & b & post & -> & Hc)]]].
      * left. exists a. split; [now left|exact H].
      * right. apply in_split in Hb as (mid & post & ->). exists [], a, mid, b, post. auto.
      * left. exists x. split; [now right|exact Hc].
      * right. exists (a :: pre), x, mid, b, post. auto.
    + intros [(x & [<-|Hx] & Hc)|(pre & x & mid & b & post & E & Hc)].
      * now left.
      * right. right. left. eauto.
      * destruct pre as [|p pre]; cbn in E; inversion E; subst.
        -- right. left. exists b. split; [apply in_or_app; right; now left|exact Hc].
        -- right. right. right. exists pre, x, mid, b, post. auto.
Qed.

Lemma hrefs_app a x y c : refs_lvl (hrefs a (x ++ y)) c = lvl_join (refs_lvl (hrefs a x) c) (refs_lvl (hrefs a y) c).
Proof. unfold hrefs. rewrite flat_map_app. apply refs_lvl_app. Qed.

Lemma hrefs_all_match a qs : forallb (qmatch a) qs = true -> hrefs a qs = flat_map (srefs a) qs.
Proof.
  unfold hrefs. induction qs as [|q qs IH]; cbn [forallb flat_map]; intros H; [reflexivity|].
  apply andb_true_iff in H as [H1 H2]. now rewrite H1, IH.
Qed.

Lemma lvl_conf_mono a b : lvl_le a b = true -> a = LConf -> b = LConf.
Proof. intros H ->. now apply lvl_le_conf. Qed.

(* the parameters of a handler: queries of its fetchers / Single / TrySingle / targeted receivers *)
Theorem handler_check_exact (qs : list query) :
  handler_conflicts (map access_of qs) = [] <-> forall a, ~ aliasing (hrefs a qs).
Proof.
  split.
  - intros Hnil a (c & Hc). apply hrefs_conf_split in Hc as [(q & Hin & Hm & Hl)|(pre & q1 & mid & q2 & post & -> & M1 & M2 & Hl)].
    + assert (Hx : ca_conflicts (access_of q) <> []) by (apply conflict_iff_aliasing; exists a; split; [exact Hm|exists c; exact Hl]).
      assert (Hp : pair_conflicts (map access_of qs) <> []) by (apply pair_conflicts_nonnil; left; exists (access_of q); split; [now apply in_map|exact Hx]).
      unfold handler_conflicts in Hnil. apply app_eq_nil in Hnil as [_ Hnil]. contradiction.
    + assert (Hx : ca_conflicts (access_of (QTuple [q1; q2])) <> []).
      { apply conflict_iff_aliasing. exists a. split; [cbn; now rewrite M1, M2|]. exists c.
        change (srefs a (QTuple [q1; q2])) with (srefs a q1 ++ srefs a q2 ++ []).
        rewrite app_nil_r. rewrite refs_lvl_app. exact Hl. }
      rewrite access_pair in Hx.
      assert (Hp : pair_conflicts (map access_of (pre ++ q1 :: mid ++ q2 :: post)) <> []).
      { apply pair_conflicts_nonnil. right. exists (map access_of pre), (access_of q1), (map access_of mid), (access_of q2), (map access_of post).
        split; [now rewrite map_app; cbn; rewrite map_app|exact Hx]. }
      unfold handler_conflicts in Hnil. apply app_eq_nil in Hnil as [_ Hnil]. contradiction.
  - intros Hno. destruct (handler_conflicts (map access_of qs)) as [|x0 l0] eqn:E; [reflexivity|exfalso].
    assert (Hne : handler_conflicts (map access_of qs) <> []) by (rewrite E; discriminate). clear E.
    unfold handler_conflicts in Hne. apply app_nonnil in Hne as [Hc|Hp].
    + rewrite <- access_tuple in Hc. apply conflict_iff_aliasing in Hc as (a & Hm & c & Hl). apply (Hno a). exists c.
      change (qmatch a (QTuple qs)) with (forallb (qmatch a) qs) in Hm.
      change (srefs a (QTuple qs)) with (flat_map (srefs a) qs) in Hl.
      now rewrite (hrefs_all_match a qs Hm).
    + rewrite pair_conflicts_nonnil in Hp. destruct Hp as [(x & Hx & Hc)|(pre & x & mid & y & post & E & Hc)].
      * apply in_map_iff in Hx as (q & <- & Hq). apply conflict_iff_aliasing in Hc as (a & Hm & c & Hl). apply (Hno a). exists c.
        apply in_split in Hq as (l1 & l2 & ->). rewrite hrefs_app. apply lvl_conf_join_r. rewrite hrefs_cons, Hm. now apply lvl_conf_join_l.
      * (* decompose qs along the decomposition of its image *)
        assert (Hd : exists pq q1 mq q2 po, qs = pq ++ q1 :: mq ++ q2 :: po /\ x = access_of q1 /\ y = access_of q2).
        { apply map_eq_app in E as (pq & r1 & -> & _ & E). apply map_eq_cons in E as (q1 & r2 & -> & <- & E).
          apply map_eq_app in E as (mq & r3 & -> & _ & E). apply map_eq_cons in E as (q2 & po & -> & <- & _).
          exists pq, q1, mq, q2, po. auto. }
        destruct Hd as (pq & q1 & mq & q2 & po & -> & -> & ->). rewrite <- access_pair in Hc.
        apply conflict_iff_aliasing in Hc as (a & Hm & c & Hl). apply (Hno a). exists c.
        cbn [qmatch forallb] in Hm. apply andb_true_iff in Hm as [M1 Hm]. apply andb_true_iff in Hm as [M2 _].
        change (srefs a (QTuple [q1; q2])) with (srefs a q1 ++ srefs a q2 ++ []) in Hl. rewrite app_nil_r, refs_lvl_app in Hl.
        rewrite hrefs_app, hrefs_cons, M1, hrefs_app, hrefs_cons, M2.
        apply lvl_conf_join_r.
        destruct (refs_lvl (srefs a q1) c), (refs_lvl (srefs a q2) c), (refs_lvl (hrefs a mq) c), (refs_lvl (hrefs a po) c); try discriminate; reflexivity.
Qed.
