(* DeadEnts.v : the id of a despawned entity never becomes valid again (C03), at world level: through every
   propagation, every handler behaviour and every later call - spawns that recycle the slot included.
   PE k w : the entity slot map satisfies its invariant and k is dead in it (SlotMap.Dead: the slot's generation is
   beyond k's, or the slot is retired).  The entity map only changes by slot-map insertion (spawn_all), slot-map
   removal (remove_entity, the archetype removal of remove_component) and location updates; each keeps PE.  No
   other invariant of the world is needed. *)
From Coq Require Import List NArith Bool Lia Sorted.
Import ListNotations.
Require Import EV.Base EV.ListN EV.Access EV.Query EV.SlotMap EV.Reserve EV.HList EV.Loop EV.World EV.SlotMapGet
  EV.AccessProofs EV.ArchProofs EV.QueryProofs EV.WorldFrame EV.Store EV.Graph EV.Effects EV.Reach EV.RemoveComp EV.Member EV.Listen
  EV.ReserveW EV.Order EV.Fetch EV.NoUB EV.Sender EV.Users EV.DeadIds EV.Ledger EV.EvLedger EV.Quiet.
Open Scope N_scope.

Section DeadEnts.
Variable k : key.
Definition PE (w : world) : Prop := SmInv (w_ents w) /\ Dead (w_ents w) k.

Lemma PE_ents w w' : w_ents w' = w_ents w -> PE w -> PE w'.
Proof. unfold PE. now intros ->. Qed.
Lemma PE_shape w w' : shape (w_ents w') = shape (w_ents w) -> PE w -> PE w'.
Proof. intros Hs [A B]. split; [eapply sview_inv; eauto|]. eapply Dead_gens; [|exact B]. now apply (gens_sview (fun _ : eloc => tt)). Qed.
Lemma PE_eo w w' : eo w' = eo w -> PE w -> PE w'.
Proof. intros H. apply PE_shape. exact (proj1 (eo_parts _ _ H)). Qed.
Lemma PE_insert f w k0 m' : PE w -> insert_with f (w_ents w) = Some (k0, m') -> PE (set_ents w m').
Proof. intros [A B] E. split; cbn [w_ents set_ents]; [eapply insert_inv; eauto|eapply dead_insert; eauto]. Qed.
Lemma PE_remove w k1 v m' : PE w -> sm_remove k1 (w_ents w) = Some (v, m') -> PE (set_ents w m').
Proof. intros [A B] E. split; cbn [w_ents set_ents]; [eapply remove_inv; eauto|eapply dead_remove; eauto]. Qed.

Lemma spawn_all_n_PE n : forall w, PE w -> PE (res_world (spawn_all_n n w)).
Proof.
  induction n as [|n IH]; intros w HP; cbn [spawn_all_n]; [exact HP|].
  destruct (insert_with (fun _ => (0, 0)) (w_ents w)) as [[k0 m0]|]; [|exact HP].
  pose proof (r_arch_spawn w_ents ltac:(fr) ltac:(fr) w k0) as He. destruct (arch_spawn w k0) as [loc w1]. cbn [snd] in He.
  assert (HP1 : PE w1) by (eapply PE_ents; eauto).
  destruct (insert_with (fun _ => loc) (w_ents w1)) as [[k' ents']|] eqn:E2; [|exact HP1]. apply IH. eapply PE_insert; eauto.
Qed.
Lemma spawn_all_PE w : PE w -> PE (res_world (spawn_all w)).
Proof.
  intros HP. unfold spawn_all. pose proof (spawn_all_n_PE (N.to_nat (w_rcnt w)) w HP) as H.
  destruct (spawn_all_n (N.to_nat (w_rcnt w)) w) as [[] w1|f w1]; cbn [rbind res_world] in *; exact H.
Qed.

Lemma remove_entity_PE w loc : PE w -> PE (res_world (remove_entity w loc)).
Proof.
  intros HP. unfold remove_entity. destruct loc as [ai row]. destruct (slab_get (w_archs w) ai) as [a|]; [|exact HP].
  destruct (nget (a_rows a) row) as [[e vals]|]; [|exact HP]. cbn zeta. set (w2 := set_archs _ _).
  assert (HP2 : PE w2) by (eapply PE_eo; [|exact HP]; unfold w2; now rewrite eo_set_archs, eo_drop_fold).
  destruct (sm_remove e (w_ents w2)) as [[v ents']|] eqn:Er; [|exact HP2]. cbn zeta.
  pose proof (PE_remove w2 e v ents' HP2 Er) as HP3. set (w3 := set_ents w2 ents') in *.
  destruct (nget (a_rows (set_rows a (swap_remove (a_rows a) row))) row) as [[de dv]|].
  - destruct (sm_get de (w_ents w3)) as [l|]; [|exact HP3].
    pose proof (eo_set_loc w3 de (fst l, row)) as Hl. destruct (set_loc w3 de (fst l, row)) as [[] w4|f w4]; cbn [rbind res_world] in *.
    + eapply PE_eo; [|eapply PE_eo; [exact Hl|exact HP3]]. destruct (nlen _ =? 0); [apply eo_notify_remove|reflexivity].
    + eapply PE_eo; eauto.
  - cbn [rbind res_world]. eapply PE_eo; [|exact HP3]. destruct (nlen _ =? 0); [apply eo_notify_remove|reflexivity].
Qed.

Lemma builtin_effect_PE kind ev loc w : PE w -> PE (res_world (builtin_effect kind ev loc w)).
Proof.
  intros HP. destruct kind as [|c|c| |]; cbn [builtin_effect].
  - exact HP.
  - pose proof (eo_traverse_insert w (fst loc) c) as H1. destruct (traverse_insert w (fst loc) c) as [d w2|f w2]; cbn [rbind res_world] in *; [|eapply PE_eo; eauto].
    eapply PE_eo; [apply eo_move_entity|eapply PE_eo; eauto].
  - pose proof (eo_traverse_remove w (fst loc) c) as H1. destruct (traverse_remove w (fst loc) c) as [d w2|f w2]; cbn [rbind res_world] in *; [|eapply PE_eo; eauto].
    eapply PE_eo; [apply eo_move_entity|eapply PE_eo; eauto].
  - now apply spawn_all_PE.
  - pose proof (spawn_all_PE w HP) as H1. destruct (spawn_all w) as [[] w2|f w2]; cbn [rbind res_world] in *; [|exact H1].
    pose proof (remove_entity_PE w2 loc H1) as H2. destruct (remove_entity w2 loc) as [[] w3|f w3]; cbn [rbind res_world] in *; [|exact H2].
    eapply PE_ents; [|exact H2]. reflexivity.
Qed.

Variable beh : hinfo -> logent -> N -> script.

Lemma deliver_one_PE it w : PE w -> PE (snd (fst (deliver_one beh it w))).
Proof.
  intros HP. unfold deliver_one.
  assert (Hfin : forall tag kind hl loc,
     PE (snd (fst (let '(w1, ev, sent, taken, fl) := run_handlers beh hl w it tag loc [] in
              match fl with
              | Some f => (sent, (if taken then w1 else ev_drop w1 (qi_targeted it) tag ev), Some f)
              | None => if taken then (sent, w1, None) else
                  match kind with
                  | KNormal => (sent, ev_drop w1 (qi_targeted it) tag ev, None)
                  | _ => let '(w3, f) := fail_of (builtin_effect kind ev loc w1) in (sent, w3, f)
                  end
              end)))).
  { intros tag kind hl loc. pose proof (r_run_handlers w_ents ltac:(fr) ltac:(fr) ltac:(fr) ltac:(fr) beh hl w it tag loc []) as He.
    destruct (run_handlers beh hl w it tag loc []) as [[[[w1 ev] sent] taken] fl]. cbn [fst snd] in He.
    assert (HP1 : PE w1) by (eapply PE_ents; eauto).
    assert (Hd : forall t0 tg ev0, PE (ev_drop w1 t0 tg ev0)) by (intros; eapply PE_eo; [apply eo_ev_drop|exact HP1]).
    destruct fl; [destruct taken; cbn [fst snd]; auto|]. destruct taken; [cbn [fst snd]; exact HP1|].
    destruct kind; try (cbn [fst snd]; apply Hd);
      match goal with |- context [builtin_effect ?kd ev loc w1] => pose proof (builtin_effect_PE kd ev loc w1 HP1) as HB; destruct (builtin_effect kd ev loc w1); cbn [fail_of fst snd res_world] in *; exact HB end. }
  destruct (qi_targeted it).
  - destruct (get_by_index (w_tev w) (qi_idx it)) as [[k0 info]|]; [|exact HP].
    destruct (sm_get (qi_target it) (w_ents w)) as [loc|]; [|cbn [fst snd]; eapply PE_eo; [apply eo_ev_drop|exact HP]].
    destruct (slab_get (w_archs w) (fst loc)); [apply Hfin|exact HP].
  - destruct (get_by_index (w_gev w) (qi_idx it)) as [[k0 info]|]; [|exact HP].
    destruct (nget (w_glists w) (qi_idx it)); [apply Hfin|exact HP].
Qed.

Lemma flush_PE q w : PE w -> PE (res_world (flush beh q w)).
Proof.
  intros HP. unfold flush, flush_loop.
  destruct (Loop.flush wst qitem (run_w beh) unwind_w FUEL q (w, None) []) as [[[tr [w1 fl]] oc]|] eqn:E; [|exact HP].
  assert (H1 : PE w1).
  { apply (Loop.flush_invariant wst qitem (run_w beh) unwind_w (fun s : wst => PE (fst s))) with (n := FUEL) (q := q) (st := (w, None)) (acc := []) (tr := tr) (oc := oc) (st' := (w1, fl)); [| |exact E|exact HP].
    - intros e st Hs. unfold run_w. pose proof (deliver_one_PE e (fst st) Hs) as Hd. destruct (deliver_one beh e (fst st)) as [[sent w2] fl2]. exact Hd.
    - intros q0 st Hs. unfold unwind_w. destruct (snd st) as [[k0|s]|]; try exact Hs. cbn [fst].
      assert (Hu : PE (unwind_queue q0 (fst st))) by (eapply PE_eo; [apply eo_unwind_queue|exact Hs]).
      pose proof (spawn_all_PE _ Hu) as X. destruct (spawn_all (unwind_queue q0 (fst st))); exact X. }
  destruct oc; [cbn [res_world]; eapply PE_ents; [|exact H1]; reflexivity|]. destruct fl; exact H1.
Qed.

Lemma rbind_PE {A B} (r : res A) (f : A -> world -> res B) :
  PE (res_world r) -> (forall a w1, PE w1 -> PE (res_world (f a w1))) -> PE (res_world (rbind r f)).
Proof. intros H Hf. destruct r as [a w1|e w1]; cbn [rbind res_world] in *; [now apply Hf|exact H]. Qed.
Lemma PE_ev_drop w t tag ev : PE w -> PE (ev_drop w t tag ev).
Proof. apply PE_eo, eo_ev_drop. Qed.

Lemma gev_PE fuel : forall tag w, PE w -> PE (res_world (add_global_event beh fuel tag w)) /\ forall ev, PE (res_world (send_global beh fuel tag ev w)).
Proof.
  induction fuel as [|f IH]; intros tag w HP; [split; [|intros ev]; exact HP|].
  assert (Hadd : PE (res_world (add_global_event beh (S f) tag w))).
  { rewrite add_global_event_S. destruct (alookup tag (w_gby w)); [exact HP|].
    destruct (insert_with (fun _ => mkE tag (gkind tag)) (w_gev w)) as [[k0 m]|]; [|exact HP]. cbn zeta.
    set (w2 := set_glists _ _). assert (HP2 : PE w2) by (eapply PE_ents; [|exact HP]; reflexivity).
    apply rbind_PE; [|intros ? ? X; exact X]. apply (proj2 (IH G_ADDGE w2 HP2)). }
  split; [exact Hadd|]. intros ev. rewrite send_global_S. destruct (IH tag w HP) as [Ka _].
  destruct (add_global_event beh f tag w) as [k0 w1|e w1]; cbn [res_world] in *; [|now apply PE_ev_drop].
  apply flush_PE. destruct (10 <? tag); exact Ka.
Qed.
Lemma send_global_PE tag ev w : PE w -> PE (res_world (send_global beh RFUEL tag ev w)).
Proof. intros HP. exact (proj2 (gev_PE RFUEL tag w HP) ev). Qed.
Lemma add_global_event_PE tag w : PE w -> PE (res_world (add_global_event beh RFUEL tag w)).
Proof. intros HP. exact (proj1 (gev_PE RFUEL tag w HP)). Qed.

Lemma add_component_PE tag w : PE w -> PE (res_world (add_component beh tag w)).
Proof.
  intros HP. unfold add_component. destruct (alookup tag (w_cby w)); [exact HP|].
  destruct (insert_with (fun _ => mkC tag [] [] []) (w_comps w)) as [[k0 m]|]; [|exact HP].
  apply rbind_PE; [|intros ? ? X; exact X]. apply send_global_PE. eapply PE_ents; [|exact HP]. reflexivity.
Qed.
Lemma tev_stage1_PE tag w : PE w -> PE (res_world (tev_stage1 beh tag w)).
Proof.
  intros HP. unfold tev_stage1.
  destruct ((20 <=? tag) && (tag <? 40)); [apply rbind_PE; [now apply add_component_PE|intros ? ? X; exact X]|].
  destruct ((40 <=? tag) && (tag <? 60)); [apply rbind_PE; [now apply add_component_PE|intros ? ? X; exact X]|].
  destruct (tag =? T_DESPAWN); exact HP.
Qed.
Lemma add_targeted_event_PE tag w : PE w -> PE (res_world (add_targeted_event beh tag w)).
Proof.
  intros HP. rewrite add_targeted_event_unfold. apply rbind_PE; [now apply tev_stage1_PE|]. intros kind w0 HP0.
  destruct (alookup tag (w_tby w0)); [exact HP0|].
  destruct (insert_with (fun _ => mkE tag kind) (w_tev w0)) as [[k0 m]|]; [|exact HP0].
  apply rbind_PE; [|intros ? ? X; exact X]. apply send_global_PE. eapply PE_ents; [|exact HP0]. destruct kind; reflexivity.
Qed.
Lemma send_to_PE tag target ev w : PE w -> PE (res_world (send_to beh tag target ev w)).
Proof.
  intros HP. unfold send_to. pose proof (add_targeted_event_PE tag w HP) as Ka.
  destruct (add_targeted_event beh tag w) as [k0 w1|e w1]; cbn [res_world] in *; [now apply flush_PE|now apply PE_ev_drop].
Qed.
Lemma resolve_query_PE q : forall w, PE w -> PE (res_world (resolve_query beh q w)).
Proof.
  induction q as [c|c|qs IH|q IH|l r IHl IHr|l r IHl IHr|q IH|q IH|q IH|] using query_ind'; intros w HP; cbn [resolve_query];
    try (apply rbind_PE; [now apply add_component_PE|intros ? w1 X; exact X]);
    try (apply rbind_PE; [now apply IH|intros ? w1 X; exact X]);
    try (apply rbind_PE; [now apply IHl|intros a w1 HP1; apply rbind_PE; [now apply IHr|intros ? w2 X; exact X]]);
    try exact HP.
  apply rbind_PE; [|intros ? w1 X; exact X].
  revert w HP. induction IH as [|x t Hx _ IHt]; intros w HP; [exact HP|].
  apply rbind_PE; [now apply Hx|]. intros x' w1 HP1. apply rbind_PE; [now apply IHt|]. intros t' w2 X. exact X.
Qed.
Lemma register_set_PE evs : forall w, PE w -> PE (res_world (register_set beh evs w)).
Proof.
  induction evs as [|[t tag] rest IH]; intros w HP; cbn [register_set]; [exact HP|].
  apply rbind_PE; [destruct t; [now apply add_targeted_event_PE|now apply add_global_event_PE]|].
  intros k0 w1 HP1. apply rbind_PE; [now apply IH|]. intros r w2 X. exact X.
Qed.
Lemma init_param_PE p c w : PE w -> PE (res_world (init_param beh p c w)).
Proof.
  intros HP. destruct p as [tag m|tag m q|k0 q|evs]; cbn [init_param].
  - apply rbind_PE; [now apply add_global_event_PE|]. intros ? ? X. exact X.
  - apply rbind_PE; [now apply add_targeted_event_PE|]. intros ? w1 HP1. apply rbind_PE; [now apply resolve_query_PE|]. intros ? ? X. exact X.
  - apply rbind_PE; [now apply resolve_query_PE|]. intros ? ? X. exact X.
  - apply rbind_PE; [now apply register_set_PE|]. intros ? ? X. exact X.
Qed.
Lemma init_params_PE ps : forall c w, PE w -> PE (res_world (init_params beh ps c w)).
Proof. induction ps as [|p t IH]; intros c w HP; cbn [init_params]; [exact HP|]. apply rbind_PE; [now apply init_param_PE|]. intros c1 w1 HP1. now apply IH. Qed.

Lemma add_handler_PE sh w : PE w -> PE (res_world (add_handler beh sh w)).
Proof.
  intros HP. unfold add_handler.
  destruct (match sh_tid sh with Some t => alookup t (w_hby w) | None => None end); [exact HP|].
  apply rbind_PE; [now apply init_params_PE|]. intros c w1 HP1.
  destruct (cf_recv c) as [|rv|]; try exact HP1. destruct (cf_access c) as [acc|]; [|exact HP1].
  destruct (handler_conflicts (cf_cas c)); [|exact HP1]. cbn zeta.
  destruct (insert_with _ (w_hs w1)) as [[k0 hs]|]; [|exact HP1].
  apply rbind_PE; [|intros ? ? X; exact X]. apply send_global_PE.
  match goal with |- PE (archs_register_handler ?w2 k0) => destruct (archs_register_handler_structure w2 k0) as [Hs _]; eapply PE_ents; [exact (structure_ents _ _ Hs)|] end.
  eapply PE_ents; [|exact HP1]. reflexivity.
Qed.
Lemma remove_handler_PE k0 w : PE w -> PE (res_world (remove_handler beh k0 w)).
Proof.
  intros HP. unfold remove_handler. destruct (sm_get k0 (w_hs w)); [|exact HP].
  apply rbind_PE; [now apply send_global_PE|]. intros [] w1 HP1.
  unfold handlers_remove. destruct (sm_remove k0 (w_hs w1)) as [[h1 hs]|]; [|exact HP1]. cbn [res_world]. eapply PE_ents; [|exact HP1]. reflexivity.
Qed.
Lemma remove_handlers_PE ks : forall w, PE w -> PE (res_world (remove_handlers beh ks w)).
Proof. induction ks as [|k0 t IH]; intros w HP; cbn [remove_handlers]; [exact HP|]. apply rbind_PE; [now apply remove_handler_PE|]. intros b w1 HP1. now apply IH. Qed.
Lemma remove_global_event_PE k0 w : PE w -> PE (res_world (remove_global_event beh k0 w)).
Proof.
  intros HP. unfold remove_global_event. destruct (sm_get k0 (w_gev w)); [|exact HP].
  apply rbind_PE; [now apply send_global_PE|]. intros [] w1 HP1. apply rbind_PE; [now apply remove_handlers_PE|]. intros [] w2 HP2.
  destruct (sm_remove k0 (w_gev w2)) as [[info m]|]; [|exact HP2]. cbn [res_world]. eapply PE_ents; [|exact HP2]. reflexivity.
Qed.
Lemma remove_targeted_event_PE k0 w : PE w -> PE (res_world (remove_targeted_event beh k0 w)).
Proof.
  intros HP. unfold remove_targeted_event. destruct (sm_get k0 (w_tev w)); [|exact HP].
  apply rbind_PE; [now apply send_global_PE|]. intros [] w1 HP1. apply rbind_PE; [now apply remove_handlers_PE|]. intros [] w2 HP2.
  destruct (sm_remove k0 (w_tev w2)) as [[info m]|]; [|exact HP2]. cbn [res_world]. eapply PE_ents; [|exact HP2]. destruct (e_kind info); reflexivity.
Qed.
Lemma remove_tevents_PE ks : forall w, PE w -> PE (res_world (remove_tevents beh ks w)).
Proof. induction ks as [|k0 t IH]; intros w HP; cbn [remove_tevents]; [exact HP|]. apply rbind_PE; [now apply remove_targeted_event_PE|]. intros b w1 HP1. now apply IH. Qed.

Lemma rc_step_PE cidx ctag w ai : PE w -> PE (rc_step cidx ctag w ai).
Proof.
  intros HP. unfold rc_step. destruct (slab_get (w_archs w) ai) as [a|]; [|exact HP]. cbn zeta.
  apply (fold_left_invariant PE).
  - apply (fold_left_invariant PE); [eapply PE_ents; [|exact HP]; reflexivity|].
    intros w' [e vals] HP'. apply (fold_left_invariant PE); [exact HP'|]. intros w'' [c v] HP''. eapply PE_eo; [apply eo_drop_cval|exact HP''].
  - intros w' [e vals] HP'. destruct (sm_remove e (w_ents w')) as [[v m]|] eqn:Er; [|exact HP']. eapply PE_remove; eauto.
Qed.
Lemma archs_remove_component_PE cidx ctag w l : PE w -> PE (archs_remove_component w cidx ctag l).
Proof.
  intros HP. rewrite archs_remove_component_unfold. eapply PE_ents; [reflexivity|]. apply (fold_left_invariant PE); [exact HP|]. intros w0 ai. apply rc_step_PE.
Qed.

Lemma remove_component_PE k0 w : PE w -> PE (res_world (remove_component beh k0 w)).
Proof.
  intros HP. unfold remove_component. destruct (sm_get k0 (w_comps w)); [|exact HP].
  apply rbind_PE; [now apply send_global_PE|]. intros [] w1 HP1. apply rbind_PE; [now apply add_targeted_event_PE|]. intros dk w2 HP2. cbn zeta.
  apply rbind_PE; [now apply flush_PE|]. intros [] w3 HP3. apply rbind_PE; [now apply remove_handlers_PE|]. intros [] w4 HP4.
  destruct (sm_get k0 (w_comps w4)) as [ci|]; [|exact HP4].
  apply rbind_PE; [now apply remove_tevents_PE|]. intros [] w5 HP5.
  destruct (sm_remove k0 (w_comps w5)) as [[ci' m]|]; [|exact HP5]. cbn [res_world]. unfold refresh_cursor.
  eapply PE_ents; [reflexivity|]. apply archs_remove_component_PE. eapply PE_ents; [|exact HP5]. reflexivity.
Qed.

Lemma op_spawn_PE w : PE w -> PE (res_world (op_spawn beh w)).
Proof.
  intros HP. unfold op_spawn. pose proof (r_reserve w_ents ltac:(fr) w) as He.
  destruct (reserve w) as [id w1|f w1]; cbn [rbind res_world] in *; [|eapply PE_ents; eauto].
  apply rbind_PE; [apply send_global_PE; eapply PE_ents; eauto|]. intros [] w2 X. eapply PE_ents; [|exact X]. reflexivity.
Qed.
Lemma op_insert_PE e ktag w : PE w -> PE (res_world (op_insert beh e ktag w)).
Proof.
  intros HP. unfold op_insert. destruct (new_cval w ktag) as [v w1] eqn:E. apply send_to_PE.
  assert (Hw : w1 = snd (new_cval w ktag)) by now rewrite E. subst w1. unfold new_cval. destruct (ctag_zst ktag); exact HP.
Qed.

Theorem run_top_all_PE w o : PE w -> PE (run_top_all beh w o).
Proof.
  intros HP. destruct o as [o|k0]; cbn [run_top_all]; [|now apply remove_component_PE]. destruct o; cbn [run_top].
  - now apply op_spawn_PE. - now apply op_insert_PE. - unfold op_remove. now apply send_to_PE. - unfold op_despawn. now apply send_to_PE.
  - unfold op_send. cbn [fresh_serial]. apply send_global_PE. exact HP. - unfold op_send_to. cbn [fresh_serial]. apply send_to_PE. exact HP.
  - now apply add_handler_PE. - now apply remove_handler_PE. - now apply add_component_PE. - now apply add_global_event_PE.
  - now apply add_targeted_event_PE. - now apply remove_global_event_PE. - now apply remove_targeted_event_PE.
Qed.

(* once dead, dead for ever: through every later history of calls and every handler behaviour *)
Theorem dead_entity_stays_dead ops : forall w, PE w -> PE (fold_left (run_top_all beh) ops w).
Proof. induction ops as [|o t IH]; intros w HP; cbn [fold_left]; [exact HP|]. apply IH. now apply run_top_all_PE. Qed.
End DeadEnts.

(* the id of a despawned entity never becomes valid again: in any world with a consistent entity map in which k was a
   live entity, once a delivery (or any call) leaves k dead - World::despawn, a Despawn sent by a handler, the
   removal of one of its component types - k is invalid in every later world *)
Theorem despawned_entity_id_never_valid_again (beh : hinfo -> logent -> N -> script) (k : key) (w : world) (ops : list top_all) :
  SmInv (w_ents w) -> Dead (w_ents w) k -> N.odd (snd k) = true ->
  sm_get k (w_ents (fold_left (run_top_all beh) ops w)) = None.
Proof. intros HS HD Hk. destruct (dead_entity_stays_dead k beh ops w (conj HS HD)) as [_ H]. now apply dead_get. Qed.

(* removing the entity stored at a row makes its id dead *)
Lemma remove_entity_dead w ai row a e vals : SmInv (w_ents w) -> slab_get (w_archs w) ai = Some a -> nget (a_rows a) row = Some (e, vals) ->
  match remove_entity w (ai, row) with ROk _ w' => SmInv (w_ents w') /\ Dead (w_ents w') e | RFail _ _ => True end.
Proof.
  intros HS Ha Hrow. unfold remove_entity. rewrite Ha, Hrow. cbn zeta. set (w2 := set_archs _ _).
  assert (E2 : eo w2 = eo w) by (unfold w2; now rewrite eo_set_archs, eo_drop_fold).
  assert (HS2 : SmInv (w_ents w2)) by (eapply sview_inv; [exact (proj1 (eo_parts _ _ E2))|exact HS]).
  destruct (sm_remove e (w_ents w2)) as [[v ents']|] eqn:Er; [|exact I]. cbn zeta.
  assert (HP3 : PE e (set_ents w2 ents')) by (split; cbn [w_ents set_ents]; [eapply remove_inv; eauto|eapply remove_dead; eauto]).
  set (w3 := set_ents w2 ents') in *.
  destruct (nget (a_rows (set_rows a (swap_remove (a_rows a) row))) row) as [[de dv]|].
  - destruct (sm_get de (w_ents w3)) as [l|]; [|exact I].
    pose proof (eo_set_loc w3 de (fst l, row)) as Hl. destruct (set_loc w3 de (fst l, row)) as [[] w4|f w4]; cbn [rbind]; [|exact I].
    cbn [res_world] in Hl. apply (PE_eo e w3); [|exact HP3]. rewrite <- Hl. destruct (nlen _ =? 0); [apply eo_notify_remove|reflexivity].
  - cbn [rbind]. apply (PE_eo e w3); [|exact HP3]. destruct (nlen _ =? 0); [apply eo_notify_remove|reflexivity].
Qed.
