(* SpawnIds.v : every id handed out by Sender::spawn / World::spawn is created (C03, the composition that
   DESIGN listed as not stated).
   Slot-map level, with no capacity hypothesis: when NextKeyIter predicted k first (and the prediction of the
   following ids succeeded), insert_with succeeds, returns exactly k, and the remaining predictions are the same
   on the map after the insertion (predict_insert).
   World level: OW k w : the entity map satisfies its invariant, the cursor invariant holds with the promised list
   ks, and k is either still promised (In k ks) or was created (it is live, or it is dead for good).
   OW k is established by the reservation that returns k and is kept by every step of a propagation, for every
   handler behaviour, from any state; where nothing is reserved (after a Spawn or Despawn effect, at the end
   of a propagation that ends quiet) it says that k was created. *)
From Coq Require Import List NArith Bool Lia Sorted.
Import ListNotations.
Require Import EV.Base EV.ListN EV.Access EV.Query EV.SlotMap EV.Reserve EV.HList EV.Loop EV.World EV.SlotMapGet
  EV.AccessProofs EV.ArchProofs EV.QueryProofs EV.WorldFrame EV.Store EV.Graph EV.Effects EV.Reach EV.RemoveComp EV.Member EV.Listen
  EV.ReserveW EV.Order EV.Fetch EV.NoUB EV.Sender EV.Users EV.DeadIds EV.Ledger EV.EvLedger EV.Quiet EV.DeadEnts.
Open Scope N_scope.

(* ---------- slot map: prediction and insertion agree one step at a time, no capacity hypothesis ---------- *)
Section P.
Context {V : Type}.
Notation smap := (smap V).
Notation slot := (slot V).

Lemma sget_ge (l : list slot) i : N.of_nat (length l) <= i -> sget l i = None.
Proof. intros H. rewrite sget_nth. apply nth_error_None. lia. Qed.

Lemma fresh_ext (m m' : smap) : forall n base, N.of_nat (length (slots m)) <= base -> N.of_nat (length (slots m')) <= base ->
  predict n base m' = predict n base m.
Proof.
  induction n as [|n IH]; intros base H1 H2; cbn [predict]; [reflexivity|].
  unfold nki_next. rewrite (sget_ge _ _ H1), (sget_ge _ _ H2). destruct (base <? U32MAX); [|reflexivity].
  rewrite (IH (base + 1)) by lia. reflexivity.
Qed.

Lemma predict_ext (m m' : smap) i0 : length (slots m') = length (slots m) ->
  (forall j, j <> i0 -> sget (slots m') j = sget (slots m) j) -> N.of_nat (length (slots m)) <= U32MAX ->
  forall n h c, chain (slots m) h c -> ~ In i0 c -> predict n (start_of _ (slots m) h) m' = predict n (start_of _ (slots m) h) m.
Proof.
  intros Hl Hs Hb. induction n as [|n IH]; intros h c Hc Hni; cbn [predict]; [reflexivity|].
  destruct Hc as [|i s rest Hg He Hnz Hrest].
  - unfold start_of. rewrite N.eqb_refl. apply (fresh_ext m m' (S n)); [lia|rewrite Hl; lia].
  - assert (i < N.of_nat (length (slots m))) by (eapply sget_lt; eauto). unfold start_of.
    assert (i =? U32MAX = false) as -> by (apply N.eqb_neq; lia).
    assert (Hne : i <> i0) by (intros ->; apply Hni; now left).
    unfold nki_next. rewrite (Hs i Hne), Hg, He, Hl.
    specialize (IH (link s) rest Hrest (fun X => Hni (or_intror X))). unfold start_of in IH. rewrite IH. reflexivity.
Qed.

Lemma supd_length (l : list slot) : forall i s, length (supd l i s) = length l.
Proof. intros i s. rewrite supd_upd. apply upd_length. Qed.

Theorem predict_insert (f : key -> V) (m : smap) k ks i n : SmInv m ->
  predict (S n) (next_key_iter m) m = Some (k :: ks, i) ->
  exists m', insert_with f m = Some (k, m') /\ predict n (next_key_iter m') m' = Some (ks, i).
Proof.
  intros Hi Hp. pose proof Hi as ((c & Hc & Hnd) & Hok & Hb). cbn [predict] in Hp.
  destruct (nki_next (next_key_iter m) m) as [[[k0|] idx']|] eqn:En; try discriminate.
  destruct (predict n idx' m) as [[ks0 i0]|] eqn:Ep; [|discriminate]. inversion Hp; subst k0 ks0 i0. clear Hp.
  unfold next_key_iter, nki_next, insert_with in *. set (L := N.of_nat (length (slots m))) in *.
  destruct (next_free m =? U32MAX) eqn:Enf.
  - apply N.eqb_eq in Enf. rewrite (sget_ge (slots m) L) in En by (unfold L; lia).
    destruct (L <? U32MAX) eqn:EL; [|discriminate]. apply N.ltb_lt in EL. inversion En; subst k idx'. clear En.
    rewrite Enf, (sget_ge (slots m) U32MAX) by (fold L; lia). assert (L =? U32MAX = false) as -> by (apply N.eqb_neq; lia).
    eexists. split; [reflexivity|]. cbn [next_free slots]. rewrite N.eqb_refl, app_length. cbn [length].
    replace (N.of_nat (length (slots m) + 1)) with (L + 1) by (unfold L; lia).
    rewrite <- Ep. apply fresh_ext; [fold L; lia|cbn [slots]; rewrite app_length; cbn [length]; unfold L; lia].
  - apply N.eqb_neq in Enf. destruct (sget (slots m) (next_free m)) as [s|] eqn:Es.
    + destruct (chain_head _ _ _ Hb Hc _ Es) as (rest & -> & Hev & Hnz & Hrest). rewrite Hev in En. inversion En; subst k idx'. clear En.
      eexists. split; [reflexivity|]. cbn [next_free slots]. rewrite supd_length. fold L.
      apply NoDup_cons_iff in Hnd as [Hni _].
      pose proof (predict_ext m (mkSm (supd (slots m) (next_free m) (mkSlot (gen s + 1) (link s) (Some (f (next_free m, gen s + 1))))) (link s) (sm_len m + 1))
                   (next_free m) (supd_length _ _ _) (fun j Hj => sget_supd_neq _ _ _ _ (fun X => Hj (eq_sym X))) Hb n (link s) rest Hrest Hni) as X.
      unfold start_of in X. fold L in X. rewrite X. exact Ep.
    + exfalso. destruct Hc as [|j sj rest Hg _ _ _]; [now apply Enf|congruence].
Qed.
End P.

(* n steps: the predicted keys are the inserted keys, with no capacity hypothesis (Reserve.nki_predicts needed one) *)
Lemma predict_inserts {V} (f : key -> V) n : forall (m : smap V) ks i, SmInv m -> predict n (next_key_iter m) m = Some (ks, i) ->
  exists m', inserts n f m = Some (ks, m') /\ SmInv m' /\ next_key_iter m' = i.
Proof.
  induction n as [|n IH]; intros m ks i Hi Hp.
  - cbn [predict] in Hp. inversion Hp; subst. exists m. cbn [inserts]. auto.
  - assert (Hks : exists k1 ks', ks = k1 :: ks').
    { cbn [predict] in Hp. destruct (nki_next _ _) as [[[k1|] idx']|]; try discriminate. destruct (predict n idx' _) as [[ks' i']|]; [|discriminate]. inversion Hp. eauto. }
    destruct Hks as (k1 & ks' & ->). destruct (predict_insert f m k1 ks' i n Hi Hp) as (m1 & E1 & P1).
    destruct (IH m1 ks' i (insert_inv _ _ _ _ Hi E1) P1) as (m' & E2 & Hi' & Hn). exists m'. cbn [inserts]. rewrite E1, E2. auto.
Qed.

(* ---------- created: the id is live, or dead for good ---------- *)
Definition created (m : smap eloc) (k : key) : Prop := sm_get k m <> None \/ Dead m k.

Lemma created_insert f m k0 m' k : SmInv m -> insert_with f m = Some (k0, m') -> created m k -> created m' k.
Proof.
  intros Hi E [L|D]; [|right; eapply dead_insert; eauto].
  left. destruct (key_eq_dec k k0) as [->|Hne]; [rewrite (insert_get_new _ _ _ _ Hi E); discriminate|].
  now rewrite (insert_get_other _ _ _ _ _ Hi E Hne).
Qed.
Lemma created_new f m k0 m' : SmInv m -> insert_with f m = Some (k0, m') -> created m' k0.
Proof. intros Hi E. left. rewrite (insert_get_new _ _ _ _ Hi E). discriminate. Qed.
Lemma created_remove m k1 v m' k : SmInv m -> sm_remove k1 m = Some (v, m') -> created m k -> created m' k.
Proof.
  intros Hi E [L|D]; [|right; eapply dead_remove; eauto].
  destruct (key_eq_dec k k1) as [->|Hne]; [right; eapply remove_dead; eauto|left; now rewrite (remove_get_other _ _ _ _ _ Hi E Hne)].
Qed.
Lemma created_shape m m' k : shape m' = shape m -> created m k -> created m' k.
Proof.
  intros Hs [L|D]; [left|right; eapply Dead_gens; [|exact D]; now apply (gens_sview (fun _ : eloc => tt))].
  pose proof (shape_sget m m' (fst k) Hs) as X. unfold sm_get in *.
  destruct (sget (slots m') (fst k)) as [s'|], (sget (slots m) (fst k)) as [s|]; try contradiction.
  destruct X as (Eg & _ & Ev). rewrite Eg. destruct (gen s =? snd k); [|exact L]. intros Z. apply L. now apply Ev.
Qed.

(* cr: created, or the null id (events that carry no id carry KEY_NULL; OW KEY_NULL is the plain invariant) *)
Definition cr (m : smap eloc) (k : key) : Prop := k = KEY_NULL \/ created m k.
Lemma cr_insert f m k0 m' k : SmInv m -> insert_with f m = Some (k0, m') -> cr m k -> cr m' k.
Proof. intros Hi E [N0|C]; [now left|right; eapply created_insert; eauto]. Qed.
Lemma cr_new f m k0 m' : SmInv m -> insert_with f m = Some (k0, m') -> cr m' k0.
Proof. intros Hi E. right. eapply created_new; eauto. Qed.
Lemma cr_remove m k1 v m' k : SmInv m -> sm_remove k1 m = Some (v, m') -> cr m k -> cr m' k.
Proof. intros Hi E [N0|C]; [now left|right; eapply created_remove; eauto]. Qed.
Lemma cr_shape m m' k : shape m' = shape m -> cr m k -> cr m' k.
Proof. intros Hs [N0|C]; [now left|right; eapply created_shape; eauto]. Qed.

(* ---------- world level ---------- *)
Section OW.
Variable k : key.
Definition CE (w : world) : Prop := SmInv (w_ents w) /\ cr (w_ents w) k.
Definition OW (w : world) : Prop :=
  SmInv (w_ents w) /\ exists ks, reserved_ids w ks /\ (In k ks \/ cr (w_ents w) k).

Lemma CE_shape w w' : shape (w_ents w') = shape (w_ents w) -> CE w -> CE w'.
Proof. intros Hs [A B]. split; [eapply sview_inv; eauto|eapply cr_shape; eauto]. Qed.
Lemma CE_eo w w' : eo w' = eo w -> CE w -> CE w'.
Proof. intros H. apply CE_shape. exact (proj1 (eo_parts _ _ H)). Qed.
Lemma CE_remove w k1 v m' : CE w -> sm_remove k1 (w_ents w) = Some (v, m') -> CE (set_ents w m').
Proof. intros [A B] E. split; cbn [w_ents set_ents]; [eapply remove_inv; eauto|eapply cr_remove; eauto]. Qed.

Lemma OW_eo w w' : eo w' = eo w -> OW w -> OW w'.
Proof.
  intros H [A (ks & R & C)]. destruct (eo_parts _ _ H) as (Hs & Hc & Hr). split; [eapply sview_inv; eauto|].
  exists ks. split; [exact (ReserveInv_shape w w' Hs Hc Hr ks R)|]. destruct C as [C|C]; [now left|right; eapply cr_shape; eauto].
Qed.
Lemma OW_ro w w' : ro w' = ro w -> OW w -> OW w'.
Proof. intros H. apply OW_eo. now apply ro_eo. Qed.

(* nothing reserved: the id was created *)
Lemma OW_quiet w : OW w -> w_rcnt w = 0 -> cr (w_ents w) k.
Proof.
  intros [_ (ks & R & C)] Hz. unfold reserved_ids in R. rewrite Hz in R. cbn [N.to_nat predict] in R. inversion R; subst ks.
  destruct C as [[]|C]; exact C.
Qed.
Lemma CE_OW w : CE w -> Quiet w -> OW w.
Proof. intros [A B] Q. split; [exact A|]. exists []. split; [now apply Quiet_ReserveInv|now right]. Qed.

Lemma reserve_OW w : OW w -> OW (res_world (reserve w)).
Proof.
  intros [A (ks & R & C)]. pose proof (reserve_ReserveInv w ks R) as X. pose proof (reserve_ents w) as He.
  destruct (reserve w) as [k' w'|f w']; cbn [res_world] in *; [|subst; split; [exact A|exists ks; auto]].
  split; [now rewrite He|]. exists (ks ++ [k']). split; [exact X|]. rewrite He. destruct C as [C|C]; [left; apply in_or_app; now left|now right].
Qed.

(* materialisation: never fails under the cursor invariant, creates every promised id, ends quiet *)
Lemma spawn_all_n_CE n : forall w ks i, SmInv (w_ents w) -> predict n (next_key_iter (w_ents w)) (w_ents w) = Some (ks, i) ->
  In k ks \/ cr (w_ents w) k ->
  exists w', spawn_all_n n w = ROk tt w' /\ CE w' /\ w_rcnt w' = w_rcnt w.
Proof.
  induction n as [|n IH]; intros w ks i Hi Hp C.
  - cbn [predict] in Hp. inversion Hp; subst. exists w. split; [reflexivity|]. split; [|reflexivity]. split; [exact Hi|]. destruct C as [[]|C]; exact C.
  - assert (Hks : exists k1 ks', ks = k1 :: ks').
    { cbn [predict] in Hp. destruct (nki_next _ _) as [[[k1|] idx']|]; try discriminate. destruct (predict n idx' _) as [[ks' i']|]; [|discriminate]. inversion Hp. eauto. }
    destruct Hks as (k1 & ks' & ->).
    destruct (predict_insert (V:=(N * N)%type) (fun _ => (0, 0)) (w_ents w) k1 ks' i n Hi Hp) as (m1 & E1 & P1).
    cbn [spawn_all_n]. unfold eloc in *. rewrite E1.
    pose proof (r_arch_spawn w_ents ltac:(fr) ltac:(fr) w k1) as He. pose proof (r_arch_spawn w_rcnt ltac:(fr) ltac:(fr) w k1) as Hc.
    destruct (arch_spawn w k1) as [loc w1]. cbn [snd] in He, Hc. rewrite He.
    destruct (insert_shape (V:=(N * N)%type) (fun _ => (0, 0)) (fun _ => loc) (w_ents w) (w_ents w) k1 m1 eq_refl E1) as (b & Eb & Hsb). rewrite Eb.
    destruct (IH (set_ents w1 b) ks' i) as (w' & Es & HC & Hr).
    + cbn [w_ents set_ents]. eapply insert_inv; eauto.
    + cbn [w_ents set_ents]. rewrite (shape_nki0 _ _ (eq_sym Hsb)), (shape_predict _ _ _ (eq_sym Hsb)). exact P1.
    + cbn [w_ents set_ents]. destruct C as [[<-|C]|C]; [right; eapply cr_new; eauto|now left|right; eapply cr_insert; eauto].
    + exists w'. split; [exact Es|]. split; [exact HC|]. cbn [w_rcnt set_ents] in Hr. congruence.
Qed.
Lemma spawn_all_OW w : OW w -> exists w', spawn_all w = ROk tt w' /\ OW w' /\ Quiet w'.
Proof.
  intros [A (ks & R & C)]. unfold reserved_ids in R. destruct (spawn_all_n_CE _ w ks (w_rcur w) A R C) as (w1 & Es & HC & Hr).
  unfold spawn_all. rewrite Es. cbn [rbind]. eexists. split; [reflexivity|].
  assert (Q : Quiet (set_res w1 (next_key_iter (w_ents w1)) 0)) by (split; reflexivity).
  split; [|exact Q]. apply CE_OW; [|exact Q]. eapply CE_shape; [|exact HC]. reflexivity.
Qed.

Lemma remove_entity_fail_ub w loc f w' : remove_entity w loc = RFail f w' -> ubf (Some f).
Proof.
  unfold remove_entity, set_loc. destruct loc as [ai row]. intros H.
  repeat match type of H with
  | context [match ?x with _ => _ end] => destruct x; cbn [rbind] in H
  end; try discriminate; inversion H; subst; exact I.
Qed.

Lemma remove_entity_CE w loc : CE w -> CE (res_world (remove_entity w loc)).
Proof.
  intros HP. unfold remove_entity. destruct loc as [ai row]. destruct (slab_get (w_archs w) ai) as [a|]; [|exact HP].
  destruct (nget (a_rows a) row) as [[e vals]|]; [|exact HP]. cbn zeta. set (w2 := set_archs _ _).
  assert (HP2 : CE w2) by (eapply CE_eo; [|exact HP]; unfold w2; now rewrite eo_set_archs, eo_drop_fold).
  destruct (sm_remove e (w_ents w2)) as [[v ents']|] eqn:Er; [|exact HP2]. cbn zeta.
  pose proof (CE_remove w2 e v ents' HP2 Er) as HP3. set (w3 := set_ents w2 ents') in *.
  destruct (nget (a_rows (set_rows a (swap_remove (a_rows a) row))) row) as [[de dv]|].
  - destruct (sm_get de (w_ents w3)) as [l|]; [|exact HP3].
    pose proof (eo_set_loc w3 de (fst l, row)) as Hl. destruct (set_loc w3 de (fst l, row)) as [[] w4|f w4]; cbn [rbind res_world] in *.
    + eapply CE_eo; [|eapply CE_eo; [exact Hl|exact HP3]]. destruct (nlen _ =? 0); [apply eo_notify_remove|reflexivity].
    + eapply CE_eo; eauto.
  - cbn [rbind res_world]. eapply CE_eo; [|exact HP3]. destruct (nlen _ =? 0); [apply eo_notify_remove|reflexivity].
Qed.

Lemma builtin_effect_OW kind ev loc w : OW w ->
  match builtin_effect kind ev loc w with ROk _ w3 => OW w3 | RFail f w3 => ~ ubf (Some f) -> OW w3 end.
Proof.
  intros HP. destruct kind as [|c|c| |]; cbn [builtin_effect].
  - exact HP.
  - pose proof (eo_traverse_insert w (fst loc) c) as H1. destruct (traverse_insert w (fst loc) c) as [d w2|f w2]; cbn [rbind res_world] in *; [|intros _; eapply OW_eo; eauto].
    pose proof (eo_move_entity w2 loc d (Some (c, (ev_ser ev, ev_val ev)))) as H2.
    destruct (move_entity w2 loc d _); cbn [res_world] in H2; [|intros _]; (eapply OW_eo; [exact H2|eapply OW_eo; eauto]).
  - pose proof (eo_traverse_remove w (fst loc) c) as H1. destruct (traverse_remove w (fst loc) c) as [d w2|f w2]; cbn [rbind res_world] in *; [|intros _; eapply OW_eo; eauto].
    pose proof (eo_move_entity w2 loc d None) as H2.
    destruct (move_entity w2 loc d _); cbn [res_world] in H2; [|intros _]; (eapply OW_eo; [exact H2|eapply OW_eo; eauto]).
  - destruct (spawn_all_OW w HP) as (w' & -> & H & _). exact H.
  - destruct (spawn_all_OW w HP) as (w2 & -> & H2 & Q2). cbn [rbind].
    assert (C2 : CE w2) by (split; [exact (proj1 H2)|exact (OW_quiet w2 H2 (proj1 Q2))]).
    pose proof (remove_entity_CE w2 loc C2) as C3. pose proof (proj2 (remove_entity_el w2 loc)) as Hc.
    destruct (remove_entity w2 loc) as [[] w3|f w3] eqn:Er; cbn [rbind res_world] in *.
    + apply CE_OW; [eapply CE_shape; [|exact C3]; reflexivity|]. split; [cbn; rewrite Hc; exact (proj1 Q2)|reflexivity].
    + intros Hn. exfalso. apply Hn. eapply remove_entity_fail_ub; eauto.
Qed.
End OW.

(* ---------- handler bodies, deliveries, the stack machine ---------- *)
Lemma run_actions_OW k acts : forall ps t fresh sent w, OW k w -> OW k (snd (fst (run_actions acts ps t fresh sent w))).
Proof.
  induction acts as [|a rest IH]; intros ps t fresh sent w HR; cbn [run_actions]; [exact HR|].
  pose proof (r_use_fuel ro ltac:(fr) w) as Hf. destruct (use_fuel w) as [ok w0]. cbn [snd] in Hf.
  destruct ok; cbn [negb]; [|now apply IH].
  assert (HR0 : OW k w0) by (eapply OW_ro; eauto).
  destruct a; repeat (break_match; cbn [fst snd]);
    repeat match goal with
    | H : fresh_serial ?x = (_, ?y) |- _ => let E := fresh "E" in pose proof (r_fresh_serial ro ltac:(fr) x) as E; rewrite H in E; cbn [snd] in E; clear H
    | H : new_cval ?x ?c = (_, ?y) |- _ => let E := fresh "E" in pose proof (r_new_cval ro ltac:(fr) x c) as E; rewrite H in E; cbn [snd] in E; clear H
    | H : reserve ?x = _ |- _ => let E := fresh "E" in pose proof (reserve_OW k x HR0) as E; rewrite H in E; cbn [res_world] in E; clear H
    end;
    try (apply IH);
    repeat first [ assumption
                 | apply (OW_ro k _ _ (r_ev_drop ro ltac:(fr) _ _ _ _))
                 | apply (OW_ro k _ _ (r_push_known ro ltac:(fr) _ _))
                 | match goal with E : ro ?x = ro ?y |- OW k ?x => apply (OW_ro k y x E) end ].
Qed.

Section OWStep.
Variable beh : hinfo -> logent -> N -> script.
Variable k : key.

Lemma run_handler_OW w h it tag loc : OW k w -> OW k (snd (run_handler beh w h it tag loc)).
Proof.
  intros HR. unfold run_handler. destruct (param_views w (h_params h) loc) as [f|[ritems views]]; [exact HR|].
  match goal with |- context [run_actions ?a ?b ?c ?d ?e ?x0] =>
    assert (HR2 : OW k x0) by (eapply OW_ro; [|exact HR]; rewrite (r_apply_writes ro ltac:(fr)); reflexivity);
    pose proof (run_actions_OW k a b c d e x0 HR2) as Hra; destruct (run_actions a b c d e x0) as [[sent w3] fl] end.
  cbn [fst snd] in Hra. destruct fl; [exact Hra|]. destruct (_ =? _); exact Hra.
Qed.

Lemma run_handlers_OW hl : forall w it tag loc sent, OW k w -> OW k (fst (fst (fst (fst (run_handlers beh hl w it tag loc sent))))).
Proof.
  induction hl as [|hk rest IH]; intros w it tag loc sent HR; cbn [run_handlers]; [exact HR|].
  destruct (sm_get hk (w_hs w)) as [h|]; [|exact HR].
  pose proof (run_handler_OW w h it tag loc HR) as H1. destruct (run_handler beh w h it tag loc) as [r w1]. cbn [snd] in H1.
  assert (Hd : forall t0 tg ev0, OW k (ev_drop w1 t0 tg ev0)) by (intros; eapply OW_ro; [apply (r_ev_drop ro); fr|exact H1]).
  destruct (hr_fail r); [destruct (hr_taken r); cbn [fst]; [apply Hd|exact H1]|]. destruct (hr_taken r); cbn [fst]; [apply Hd|]. now apply IH.
Qed.

Lemma deliver_one_OW it w : OW k w -> ~ ubf (snd (deliver_one beh it w)) -> OW k (snd (fst (deliver_one beh it w))).
Proof.
  intros HR. unfold deliver_one.
  assert (Hfin : forall tag kind hl loc,
     let r := (let '(w1, ev, sent, taken, fl) := run_handlers beh hl w it tag loc [] in
              match fl with
              | Some f => (sent, (if taken then w1 else ev_drop w1 (qi_targeted it) tag ev), Some f)
              | None => if taken then (sent, w1, None) else
                  match kind with
                  | KNormal => (sent, ev_drop w1 (qi_targeted it) tag ev, None)
                  | _ => let '(w3, f) := fail_of (builtin_effect kind ev loc w1) in (sent, w3, f)
                  end
              end) in
     ~ ubf (snd r) -> OW k (snd (fst r))).
  { intros tag kind hl loc. pose proof (run_handlers_OW hl w it tag loc [] HR) as H1.
    destruct (run_handlers beh hl w it tag loc []) as [[[[w1 ev] sent] taken] fl]. cbn [fst snd] in H1. cbn zeta.
    assert (Hd : forall t0 tg ev0, OW k (ev_drop w1 t0 tg ev0)) by (intros; eapply OW_ro; [apply (r_ev_drop ro); fr|exact H1]).
    destruct fl; [destruct taken; cbn [fst snd]; intros _; auto|]. destruct taken; [cbn [fst snd]; auto|].
    destruct kind; try (cbn [fst snd]; intros _; apply Hd);
      match goal with |- context [builtin_effect ?kd ev loc w1] => pose proof (builtin_effect_OW k kd ev loc w1 H1) as HB; destruct (builtin_effect kd ev loc w1) as [[] w3|f w3]; cbn [fail_of fst snd res_world] in *; [intros _; exact HB|exact HB] end. }
  destruct (qi_targeted it).
  - destruct (get_by_index (w_tev w) (qi_idx it)) as [[k0 info]|]; [|cbn [fst snd]; intros X; exfalso; apply X; exact I].
    destruct (sm_get (qi_target it) (w_ents w)) as [loc|]; [|cbn [fst snd]; intros _; eapply OW_ro; [apply (r_ev_drop ro); fr|exact HR]].
    destruct (slab_get (w_archs w) (fst loc)); [apply Hfin|cbn [fst snd]; intros X; exfalso; apply X; exact I].
  - destruct (get_by_index (w_gev w) (qi_idx it)) as [[k0 info]|]; [|cbn [fst snd]; intros X; exfalso; apply X; exact I].
    destruct (nget (w_glists w) (qi_idx it)); [apply Hfin|cbn [fst snd]; intros X; exfalso; apply X; exact I].
Qed.

Theorem flush_loop_OW : forall n q (st : wst) acc tr st' oc,
  Loop.flush wst qitem (run_w beh) unwind_w n q st acc = Some (tr, st', oc) ->
  OW k (fst st) -> (oc = Aborted -> ~ ubf (snd st')) -> OW k (fst st').
Proof.
  induction n as [|n IH]; intros q st acc tr st' oc H HR Hnu; [discriminate|].
  cbn [Loop.flush] in H. destruct (rev q) as [|e r] eqn:Er.
  - unfold step in H. rewrite Er in H. inversion H; subst. exact HR.
  - assert (Hq : q = rev r ++ [e]) by (rewrite <- (rev_involutive q), Er; reflexivity).
    rewrite Hq, step_snoc in H. unfold run_w in H.
    pose proof (deliver_one_OW e (fst st) HR) as HD.
    destruct (deliver_one beh e (fst st)) as [[sent w2] fl2]. cbn [fst snd] in *.
    destruct fl2 as [f|].
    + inversion H; subst st'. clear H. unfold unwind_w in *. cbn [fst snd] in *. destruct f as [kf|s]; [|exfalso; apply Hnu; [congruence|exact I]].
      cbn [fst] in *. assert (H2 : OW k (unwind_queue (rev r ++ sent) w2)) by (eapply OW_eo; [apply eo_unwind_queue|apply HD; cbn; tauto]).
      destruct (spawn_all_OW k _ H2) as (w3 & -> & Hw3 & _). exact Hw3.
    + apply (IH _ _ _ _ _ _ H); [|exact Hnu]. cbn [fst]. apply HD. cbn. tauto.
Qed.

(* a whole propagation keeps OW k; the out-of-fuel outcome returns the world unchanged *)
Theorem flush_OW q w : OW k w -> ~ ubf (res_fail (flush beh q w)) -> OW k (res_world (flush beh q w)).
Proof.
  intros HR. unfold flush, flush_loop.
  destruct (Loop.flush wst qitem (run_w beh) unwind_w FUEL q (w, None) []) as [[[tr [w1 fl]] oc]|] eqn:E; [|cbn [res_world]; intros _; exact HR].
  pose proof (flush_loop_OW _ _ _ _ _ _ _ E HR) as HF. cbn [fst snd] in HF.
  destruct oc.
  - cbn [res_world res_fail]. intros _. apply (OW_ro k w1); [reflexivity|]. apply HF. discriminate.
  - pose proof (aborted_has_failure beh _ _ _ _ _ _ E) as Hab. cbn [snd] in Hab. destruct fl as [f|]; [|contradiction]. cbn [res_world res_fail]. intros Hn. apply HF. intros _. exact Hn.
Qed.
End OWStep.

(* ---------- the statements ---------- *)
(* Sender::spawn / World::spawn: the id returned is owed from then on *)
Theorem reserved_id_is_owed w k w' : SmInv (w_ents w) -> ReserveInv w -> reserve w = ROk k w' -> OW k w'.
Proof.
  intros A [ks R] E. pose proof (reserve_ReserveInv w ks R) as X. pose proof (reserve_ents w) as He. rewrite E in X, He. cbn [res_world] in He.
  split; [now rewrite He|]. exists (ks ++ [k]). split; [exact X|]. left. apply in_or_app. right. now left.
Qed.

(* ... through the whole propagation, whatever the handlers do; where the propagation ends with nothing reserved
   (Quiet.flush_Q: every propagation started from a quiet world or with a Spawn event queued), the id was created:
   it is the id of a live entity, or of one that was despawned since and is dead for good *)
Theorem owed_id_is_created beh k q w : k <> KEY_NULL -> OW k w -> ~ ubf (res_fail (flush beh q w)) -> w_rcnt (res_world (flush beh q w)) = 0 ->
  let w' := res_world (flush beh q w) in sm_get k (w_ents w') <> None \/ Dead (w_ents w') k.
Proof. intros Hk H Hn Hz. destruct (OW_quiet k _ (flush_OW beh k q w H Hn) Hz) as [N0|C]; [contradiction|exact C]. Qed.

(* the Spawn effect itself: it cannot fail under the cursor invariant, creates every owed id, leaves nothing reserved *)
Theorem spawn_effect_creates_owed k ev loc w : k <> KEY_NULL -> OW k w ->
  exists w', builtin_effect KSpawn ev loc w = ROk tt w' /\ Quiet w' /\ (sm_get k (w_ents w') <> None \/ Dead (w_ents w') k).
Proof.
  intros Hk H. cbn [builtin_effect]. destruct (spawn_all_OW k w H) as (w' & E & H' & Q). exists w'. split; [exact E|]. split; [exact Q|].
  destruct (OW_quiet k w' H' (proj1 Q)) as [N0|C]; [contradiction|exact C].
Qed.

(* ---------- from a Sender::spawn inside a handler body to the end of the propagation ---------- *)
(* RO: the plain invariant (entity map well formed, cursor invariant); it is OW for the null id.  Every event a
   handler body queues carries the null id or an owed id (only Sender::spawn puts an id into an event, and that id
   is the one its reservation returned); deliveries and the stack machine keep this for the whole queue and for
   everything already delivered. *)
Definition RO (w : world) : Prop := SmInv (w_ents w) /\ ReserveInv w.
Lemma RO_ro w w' : ro w' = ro w -> RO w -> RO w'.
Proof. intros H [A B]. split; [now rewrite (ro_ents _ _ H)|eapply RI_ro; eauto]. Qed.
Lemma RO_reserve w : RO w -> RO (res_world (reserve w)).
Proof. intros [A B]. split; [now rewrite reserve_ents|now apply RI_reserve]. Qed.
Definition nullid (x : qitem) : Prop := ev_id (qi_ev x) = KEY_NULL.

Lemma run_actions_spawn_owed acts : forall ps t fresh sent w, RO w ->
  forall x, In x (fst (fst (run_actions acts ps t fresh sent w))) ->
    In x sent \/ nullid x \/ OW (ev_id (qi_ev x)) (snd (fst (run_actions acts ps t fresh sent w))).
Proof.
  induction acts as [|a rest IH]; intros ps t fresh sent w HR x; cbn [run_actions]; [cbn [fst snd]; auto|].
  assert (step : forall w' sent' fresh', RO w' ->
     (forall y, In y sent' -> In y sent \/ nullid y \/ OW (ev_id (qi_ev y)) w') ->
     In x (fst (fst (run_actions rest ps t fresh' sent' w'))) ->
     In x sent \/ nullid x \/ OW (ev_id (qi_ev x)) (snd (fst (run_actions rest ps t fresh' sent' w')))).
  { intros w' sent' fresh' HR' Hs Hin. destruct (IH ps t fresh' sent' w' HR' x Hin) as [H|[H|H]]; [|auto|auto].
    destruct (Hs x H) as [H1|[H1|H1]]; [auto|auto|]. right. right. now apply run_actions_OW. }
  pose proof (r_use_fuel ro ltac:(fr) w) as Hf. destruct (use_fuel w) as [ok w0]. cbn [snd] in Hf.
  destruct ok; cbn [negb]; [|apply step; [exact HR|auto]].
  assert (HR0 : RO w0) by (eapply RO_ro; eauto).
  destruct a; repeat (break_match; cbn [fst snd]).
  all: repeat match goal with
    | H : fresh_serial ?x = (_, ?y) |- _ => let E := fresh "E" in pose proof (r_fresh_serial ro ltac:(fr) x) as E; rewrite H in E; cbn [snd] in E; clear H
    | H : new_cval ?x ?c = (_, ?y) |- _ => let E := fresh "E" in pose proof (r_new_cval ro ltac:(fr) x c) as E; rewrite H in E; cbn [snd] in E; clear H
    end.
  all: try (intros Hx; left; exact Hx).
  all: try (apply step; [ repeat first [ assumption | match goal with E : ro ?a = ro ?b |- RO ?a => apply (RO_ro b a E) end ] | intros y Hy; try (apply in_app_or in Hy as [Hy|[<-|[]]]); [left; exact Hy|right; left; reflexivity] ]).
  all: try (apply step; [ repeat first [ assumption | match goal with E : ro ?a = ro ?b |- RO ?a => apply (RO_ro b a E) end ] | intros y Hy; left; exact Hy ]).
  all: match goal with Hr : reserve ?w0 = ROk ?a ?w1 |- _ =>
         pose proof (RO_reserve w0 HR0) as HR1; rewrite Hr in HR1; cbn [res_world] in HR1;
         pose proof (reserved_id_is_owed w0 a w1 (proj1 HR0) (proj2 HR0) Hr) as HO end.
  all: apply step; [eapply RO_ro; [apply (r_push_known ro); fr|exact HR1]|].
  all: intros y Hy; apply in_app_or in Hy as [Hy|[<-|[]]]; [left; exact Hy|right; right; cbn [qi_ev ev_id]; eapply OW_ro; [apply (r_push_known ro); fr|exact HO]].
Qed.

(* the handler, with its views and its log entry around the body *)
Theorem run_handler_spawn_owed beh w h it tag loc : RO w ->
  forall x, In x (hr_sent (fst (run_handler beh w h it tag loc))) ->
    nullid x \/ OW (ev_id (qi_ev x)) (snd (run_handler beh w h it tag loc)).
Proof.
  intros HR x. unfold run_handler. destruct (param_views w (h_params h) loc) as [f|[ritems views]]; [cbn; tauto|].
  match goal with |- context [run_actions ?a ?b ?c ?d ?e ?x0] =>
    assert (HR2 : RO x0) by (eapply RO_ro; [|exact HR]; rewrite (r_apply_writes ro ltac:(fr)); reflexivity);
    pose proof (run_actions_spawn_owed a b c d e x0 HR2 x) as Hra; destruct (run_actions a b c d e x0) as [[sent w3] fl] end.
  cbn [fst snd] in Hra.
  assert (G : In x sent -> nullid x \/ OW (ev_id (qi_ev x)) w3) by (intros Hx; destruct (Hra Hx) as [[]|Hd]; exact Hd).
  destruct fl; [exact G|]. destruct (_ =? _); exact G.
Qed.

Section Deliver.
Variable beh : hinfo -> logent -> N -> script.

Lemma RO_run_handler w h it tag loc : RO w -> RO (snd (run_handler beh w h it tag loc)).
Proof.
  intros [A B]. split; [|now apply run_handler_RI].
  rewrite (r_run_handler w_ents ltac:(fr) ltac:(fr) ltac:(fr) ltac:(fr) beh w h it tag loc). exact A.
Qed.

Definition owed_all (l : list qitem) (w : world) : Prop := forall y, In y l -> nullid y \/ OW (ev_id (qi_ev y)) w.
Lemma RO_OW_null w : RO w <-> OW KEY_NULL w.
Proof.
  split.
  - intros [A [ks R]]. split; [exact A|]. exists ks. split; [exact R|]. right. now left.
  - intros [A (ks & R & _)]. split; [exact A|now exists ks].
Qed.
Lemma owed_all_ro l w w' : ro w' = ro w -> owed_all l w -> owed_all l w'.
Proof. intros H Ho y Hy. destruct (Ho y Hy) as [N0|O]; [now left|right; eapply OW_ro; eauto]. Qed.

Lemma run_handlers_spawn_owed hl : forall w it tag loc sent, RO w -> owed_all sent w ->
  let r := run_handlers beh hl w it tag loc sent in
  RO (fst (fst (fst (fst r)))) /\ owed_all (snd (fst (fst r))) (fst (fst (fst (fst r)))).
Proof.
  induction hl as [|hk rest IH]; intros w it tag loc sent HR Ho; cbn [run_handlers]; [cbn [fst snd]; auto|].
  destruct (sm_get hk (w_hs w)) as [h|]; [|cbn [fst snd]; auto].
  pose proof (RO_run_handler w h it tag loc HR) as H1. pose proof (run_handler_spawn_owed beh w h it tag loc HR) as H2.
  assert (H3 : owed_all sent (snd (run_handler beh w h it tag loc))).
  { intros y Hy. destruct (Ho y Hy) as [N0|O]; [now left|right; now apply run_handler_OW]. }
  destruct (run_handler beh w h it tag loc) as [r w1]. cbn [fst snd] in *.
  assert (H4 : owed_all (sent ++ hr_sent r) w1) by (intros y Hy; apply in_app_or in Hy as [Hy|Hy]; auto).
  assert (Hd : forall t0 tg ev0, RO (ev_drop w1 t0 tg ev0) /\ owed_all (sent ++ hr_sent r) (ev_drop w1 t0 tg ev0)).
  { intros. split; [eapply RO_ro; [apply (r_ev_drop ro); fr|exact H1]|eapply owed_all_ro; [apply (r_ev_drop ro); fr|exact H4]]. }
  destruct (hr_fail r); [destruct (hr_taken r); cbn [fst snd]; [apply Hd|auto]|]. destruct (hr_taken r); cbn [fst snd]; [apply Hd|]. now apply IH.
Qed.

(* one delivery: every event it queued that carries an id carries an owed one, in the world after the delivery
   (handlers, then the built-in effect or the release of the event) *)
Theorem deliver_one_spawn_owed it w : RO w -> ~ ubf (snd (deliver_one beh it w)) ->
  owed_all (fst (fst (deliver_one beh it w))) (snd (fst (deliver_one beh it w))).
Proof.
  intros HR. unfold deliver_one.
  assert (Hfin : forall tag kind hl loc,
     let r := (let '(w1, ev, sent, taken, fl) := run_handlers beh hl w it tag loc [] in
              match fl with
              | Some f => (sent, (if taken then w1 else ev_drop w1 (qi_targeted it) tag ev), Some f)
              | None => if taken then (sent, w1, None) else
                  match kind with
                  | KNormal => (sent, ev_drop w1 (qi_targeted it) tag ev, None)
                  | _ => let '(w3, f) := fail_of (builtin_effect kind ev loc w1) in (sent, w3, f)
                  end
              end) in
     ~ ubf (snd r) -> owed_all (fst (fst r)) (snd (fst r))).
  { intros tag kind hl loc. pose proof (run_handlers_spawn_owed hl w it tag loc [] HR ltac:(intros y [])) as H1.
    destruct (run_handlers beh hl w it tag loc []) as [[[[w1 ev] sent] taken] fl]. cbn [fst snd] in H1. cbn zeta. destruct H1 as [H1 H2].
    assert (Hd : forall t0 tg ev0, owed_all sent (ev_drop w1 t0 tg ev0)) by (intros; eapply owed_all_ro; [apply (r_ev_drop ro); fr|exact H2]).
    assert (HB : forall kd y, In y sent -> nullid y \/ match builtin_effect kd ev loc w1 with ROk _ w3 => OW (ev_id (qi_ev y)) w3 | RFail f w3 => ~ ubf (Some f) -> OW (ev_id (qi_ev y)) w3 end)
      by (intros kd y Hy; destruct (H2 y Hy) as [N0|O]; [now left|right; now apply builtin_effect_OW]).
    destruct fl; [destruct taken; cbn [fst snd]; intros _; auto|]. destruct taken; [cbn [fst snd]; auto|].
    destruct kind; try (cbn [fst snd]; intros _; apply Hd);
      match goal with |- context [builtin_effect ?kd ev loc w1] => specialize (HB kd); destruct (builtin_effect kd ev loc w1) as [[] w3|f w3]; cbn [fail_of fst snd res_world] in *;
        intros Hn y Hy; destruct (HB y Hy) as [N0|O]; [now left|right; auto|now left|right; auto] end. }
  destruct (qi_targeted it).
  - destruct (get_by_index (w_tev w) (qi_idx it)) as [[k0 info]|]; [|cbn [fst snd]; intros _ y []].
    destruct (sm_get (qi_target it) (w_ents w)) as [loc|]; [|cbn [fst snd]; intros _ y []].
    destruct (slab_get (w_archs w) (fst loc)); [apply Hfin|cbn [fst snd]; intros _ y []].
  - destruct (get_by_index (w_gev w) (qi_idx it)) as [[k0 info]|]; [|cbn [fst snd]; intros _ y []].
    destruct (nget (w_glists w) (qi_idx it)); [apply Hfin|cbn [fst snd]; intros _ y []].
Qed.
End Deliver.

(* ---------- the whole propagation ---------- *)
Section Loop.
Variable beh : hinfo -> logent -> N -> script.

(* the stack machine: the world satisfies the plain invariant and every queued event that carries an id carries an
   owed one - at every step, for every handler behaviour; FUB outcomes excluded as everywhere *)
Theorem flush_loop_spawn_owed : forall n q (st : wst) acc tr st' oc,
  Loop.flush wst qitem (run_w beh) unwind_w n q st acc = Some (tr, st', oc) ->
  RO (fst st) -> owed_all q (fst st) -> owed_all acc (fst st) -> (oc = Aborted -> ~ ubf (snd st')) ->
  RO (fst st') /\ owed_all tr (fst st').
Proof.
  induction n as [|n IH]; intros q st acc tr st' oc H HR Ho Ha Hnu; [discriminate|].
  cbn [Loop.flush] in H. destruct (rev q) as [|e r] eqn:Er.
  - unfold step in H. rewrite Er in H. inversion H; subst. auto.
  - assert (Hq : q = rev r ++ [e]) by (rewrite <- (rev_involutive q), Er; reflexivity).
    rewrite Hq, step_snoc in H. unfold run_w in H.
    pose proof (deliver_one_OW beh KEY_NULL e (fst st) (proj1 (RO_OW_null _) HR)) as HD.
    pose proof (deliver_one_spawn_owed beh e (fst st) HR) as HS.
    assert (HK : forall y, nullid y \/ OW (ev_id (qi_ev y)) (fst st) -> ~ ubf (snd (deliver_one beh e (fst st))) ->
                 nullid y \/ OW (ev_id (qi_ev y)) (snd (fst (deliver_one beh e (fst st))))).
    { intros y [N0|O] Hn; [now left|right; now apply deliver_one_OW]. }
    assert (Hqe : forall y, In y (rev r) \/ y = e -> nullid y \/ OW (ev_id (qi_ev y)) (fst st)).
    { intros y Hy. apply Ho. rewrite Hq. apply in_or_app. destruct Hy as [Hy| ->]; [now left|right; now left]. }
    destruct (deliver_one beh e (fst st)) as [[sent w2] fl2]. cbn [fst snd] in *.
    destruct fl2 as [f|].
    + inversion H; subst st' tr. clear H. unfold unwind_w in *. cbn [fst snd] in *. destruct f as [kf|s]; [|exfalso; apply Hnu; [congruence|exact I]].
      cbn [fst] in *.
      assert (Hn : ~ ubf (Some (FPanic kf))) by (cbn; tauto).
      assert (Hall : forall y, nullid y \/ OW (ev_id (qi_ev y)) w2 ->
                nullid y \/ OW (ev_id (qi_ev y)) (match spawn_all (unwind_queue (rev r ++ sent) w2) with ROk _ w3 => w3 | RFail _ w3 => w3 end)).
      { intros y [N0|O]; [now left|right]. assert (H2 : OW (ev_id (qi_ev y)) (unwind_queue (rev r ++ sent) w2)) by (eapply OW_eo; [apply eo_unwind_queue|exact O]).
        destruct (spawn_all_OW _ _ H2) as (w3 & -> & Hw3 & _). exact Hw3. }
      split.
      * destruct (Hall {| qi_targeted := false; qi_idx := 0; qi_target := KEY_NULL; qi_ev := mkEv 0 0 KEY_NULL |}) as [_|O]; [right; cbn [qi_ev ev_id]; now apply HD| |now apply RO_OW_null].
        assert (H2 : OW KEY_NULL (unwind_queue (rev r ++ sent) w2)) by (eapply OW_eo; [apply eo_unwind_queue|now apply HD]).
        destruct (spawn_all_OW _ _ H2) as (w3 & -> & Hw3 & _). now apply RO_OW_null.
      * intros y Hy. apply Hall. apply HK; [|exact Hn]. apply in_app_or in Hy as [Hy|[<-|[]]]; [now apply Ha|apply Hqe; now right].
    + assert (Hn : ~ ubf None) by (cbn; tauto).
      apply (IH _ _ _ _ _ _ H); [| | |exact Hnu]; cbn [fst].
      * apply RO_OW_null. now apply HD.
      * intros y Hy. apply in_app_or in Hy as [Hy|Hy]; [apply HK; [apply Hqe; now left|exact Hn]|apply HS; [exact Hn|now apply in_rev]].
      * intros y Hy. apply HK; [|exact Hn]. apply in_app_or in Hy as [Hy|[<-|[]]]; [now apply Ha|apply Hqe; now right].
Qed.

(* a whole propagation: every event that was delivered during it and carries an id - every Spawn event of a
   Sender::spawn or World::spawn - carries an id that was created by the time the propagation is over with nothing
   reserved: the id of a live entity, or of one despawned since (dead for good) *)
Theorem delivered_spawn_ids_are_created : forall q w tr w' fl oc,
  Loop.flush wst qitem (run_w beh) unwind_w FUEL q (w, None) [] = Some (tr, (w', fl), oc) ->
  RO w -> owed_all q w -> (oc = Aborted -> ~ ubf fl) -> w_rcnt w' = 0 ->
  forall x, In x tr -> ev_id (qi_ev x) <> KEY_NULL ->
    sm_get (ev_id (qi_ev x)) (w_ents w') <> None \/ Dead (w_ents w') (ev_id (qi_ev x)).
Proof.
  intros q w tr w' fl oc H HR Ho Hnu Hz x Hx Hk.
  destruct (flush_loop_spawn_owed _ _ _ _ _ _ _ H HR Ho ltac:(intros y []) Hnu) as [_ B]. cbn [fst] in B.
  destruct (B x Hx) as [N0|O]; [contradiction|]. destruct (OW_quiet _ _ O Hz) as [N0|C]; [contradiction|exact C].
Qed.
End Loop.

(* the plain invariant through a whole propagation, with no capacity hypothesis and no exclusion of the delivery budget
   (Quiet.flush_RI needed both, because it could not rule out a materialisation that fails half-way) *)
Theorem flush_RO beh q w : RO w -> ~ ubf (res_fail (flush beh q w)) -> RO (res_world (flush beh q w)).
Proof. intros H Hn. apply RO_OW_null. apply flush_OW; [now apply RO_OW_null|exact Hn]. Qed.

(* under the plain invariant the materialisation cannot fail, and it ends quiet *)
Theorem spawn_all_cannot_fail w : RO w -> exists w', spawn_all w = ROk tt w' /\ RO w' /\ Quiet w'.
Proof. intros H. destruct (spawn_all_OW KEY_NULL w (proj1 (RO_OW_null w) H)) as (w' & E & H' & Q). exists w'. split; [exact E|]. split; [now apply RO_OW_null|exact Q]. Qed.

(* ---------- World::spawn, end to end ---------- *)
Section Top.
Variable beh : hinfo -> logent -> N -> script.
Variable k : key.
Definition OWr {A} (r : res A) : Prop := ~ ubf (res_fail r) -> OW k (res_world r).
Lemma rbind_OWr {A B} (r : res A) (f : A -> world -> res B) : OWr r -> (forall a w1, OW k w1 -> OWr (f a w1)) -> OWr (rbind r f).
Proof. destruct r as [a w1|e w1]; cbn [rbind]; [intros H Hf; apply Hf; apply H; cbn; tauto|intros H _; exact H]. Qed.

Lemma gev_OW fuel : forall tag w, OW k w -> OWr (add_global_event beh fuel tag w) /\ forall ev, OWr (send_global beh fuel tag ev w).
Proof.
  induction fuel as [|f IH]; intros tag w HP; [split; [|intros ev]; intros _; exact HP|].
  assert (Hadd : OWr (add_global_event beh (S f) tag w)).
  { rewrite add_global_event_S. destruct (alookup tag (w_gby w)); [intros _; exact HP|].
    destruct (insert_with (fun _ => mkE tag (gkind tag)) (w_gev w)) as [[k0 m]|]; [|intros _; exact HP]. cbn zeta.
    set (w2 := set_glists _ _). assert (HP2 : OW k w2) by (eapply OW_ro; [|exact HP]; reflexivity).
    apply rbind_OWr; [|intros ? ? X _; exact X]. apply (proj2 (IH G_ADDGE w2 HP2)). }
  split; [exact Hadd|]. intros ev. rewrite send_global_S. destruct (IH tag w HP) as [Ka _].
  destruct (add_global_event beh f tag w) as [k0 w1|e w1]; unfold OWr in *; cbn [res_world res_fail] in *.
  - apply flush_OW. destruct (10 <? tag); [eapply OW_ro; [|apply Ka; cbn; tauto]; reflexivity|apply Ka; cbn; tauto].
  - intros Hn. eapply OW_ro; [apply (r_ev_drop ro); fr|now apply Ka].
Qed.
End Top.

Lemma reserve_not_null w id w' : SmInv (w_ents w) -> reserve w = ROk id w' -> id <> KEY_NULL.
Proof.
  intros (_ & _ & Hb) H. unfold reserve, nki_next in H. destruct (sget (slots (w_ents w)) (w_rcur w)) as [s|] eqn:Es.
  - destruct (N.even (gen s)); [|discriminate]. inversion H; subst. apply sget_lt in Es. unfold KEY_NULL. intros X. inversion X; try lia.
  - destruct (w_rcur w <? U32MAX) eqn:El; [|discriminate]. inversion H; subst. apply N.ltb_lt in El. unfold KEY_NULL. intros X. inversion X; try lia.
Qed.

(* World::spawn on a world that satisfies the plain invariant: the id it returns is owed when the call returns; when
   nothing is reserved then (c03_no_reservation_pending_at_a_quiescent_point) it is the id of a live entity, or of
   one that a handler despawned during the call - dead for good *)
Theorem world_spawn_id_is_created beh w id w' : RO w -> op_spawn beh w = ROk id w' ->
  OW id w' /\ (w_rcnt w' = 0 -> sm_get id (w_ents w') <> None \/ Dead (w_ents w') id).
Proof.
  intros [A B] H. unfold op_spawn in H. destruct (reserve w) as [id0 w1|f w1] eqn:Er; cbn [rbind] in H; [|discriminate].
  pose proof (reserved_id_is_owed w id0 w1 A B Er) as HO. pose proof (reserve_not_null w id0 w1 A Er) as Hnn.
  pose proof (proj2 (gev_OW beh id0 RFUEL G_SPAWN w1 HO) (mkEv 0 0 id0)) as HS. unfold OWr in HS.
  destruct (send_global beh RFUEL G_SPAWN (mkEv 0 0 id0) w1) as [[] w2|f w2]; cbn [rbind res_world res_fail] in *; [|discriminate].
  inversion H; subst id w'. clear H.
  assert (HF : OW id0 (push_known w2 id0)) by (eapply OW_ro; [apply (r_push_known ro); fr|apply HS; cbn; tauto]).
  split; [exact HF|]. intros Hz. destruct (OW_quiet _ _ HF Hz) as [N0|C]; [contradiction|exact C].
Qed.

(* ... for every reachable world: after ANY history of calls (under the hypotheses of Quiet.reachable_Quiet) the world
   satisfies the plain invariant, so the statement above applies to the next World::spawn *)
Theorem reachable_RO beh fuel p ops : NoTakeSpawn beh -> no_exhaustion beh ops (world0 fuel p) ->
  let w := fold_left (run_top_all beh) ops (world0 fuel p) in elen w < U32MAX -> RO w.
Proof.
  intros Hnt Hne w Hl. split.
  { pose proof (reachable_ZI beh fuel p ops) as [[HD _] _]. destruct (DI_parts _ HD) as (HF & _). destruct HF as [[HW _] _].
    destruct HW as ((Hsm & _) & _). exact Hsm. }
  exists []. apply Quiet_ReserveInv. exact (reachable_Quiet beh fuel p ops Hnt Hne Hl).
Qed.
Theorem reachable_world_spawn_id_is_created beh fuel p ops id w' : NoTakeSpawn beh -> no_exhaustion beh ops (world0 fuel p) ->
  let w := fold_left (run_top_all beh) ops (world0 fuel p) in elen w < U32MAX ->
  op_spawn beh w = ROk id w' -> w_rcnt w' = 0 -> sm_get id (w_ents w') <> None \/ Dead (w_ents w') id.
Proof.
  intros Hnt Hne w Hl Hs Hz. exact (proj2 (world_spawn_id_is_created beh w id w' (reachable_RO beh fuel p ops Hnt Hne Hl) Hs) Hz).
Qed.

(* ReserveW.reserved_ids_are_created without its capacity hypothesis: on a consistent world whose cursor is as the invariant
   says, spawn_all creates exactly the ids that were handed out, as component-less entities, leaves every existing entity
   alone, and leaves no reservation pending *)
Theorem reserved_ids_are_created_nocap w ks : WInv w -> reserved_ids w ks ->
  exists w', spawn_all w = ROk tt w' /\ WInv w' /\
             (forall k, In k ks -> sm_get k (w_ents w') <> None /\ forall c, abs w' k c = None) /\
             ext_by_spawn w w' /\ w_rcnt w' = 0 /\ reserved_ids w' [].
Proof.
  intros HW Hr. pose proof HW as ((Hsm & _) & _). unfold reserved_ids in Hr.
  destruct (predict_inserts (fun _ : key => ((0, 0) : eloc)) _ (w_ents w) ks (w_rcur w) Hsm Hr) as (m' & Hi & _ & _).
  destruct (spawn_all_n_inserts _ w ks m' HW Hi) as (w1 & Es & HW1 & Hs1 & Hks & Hext). unfold spawn_all. rewrite Es. cbn [rbind].
  eexists. split; [reflexivity|]. split; [eapply WInv_ext; [| | |exact HW1]; reflexivity|]. split; [exact Hks|]. split; [eapply ext_by_spawn_ext; [| | |exact Hext]; reflexivity|].
  split; [reflexivity|]. unfold reserved_ids. reflexivity.
Qed.

(* Quiet.quiet_reservation_is_kept without its capacity hypothesis: an id promised in a quiet world is the id of no
   existing entity and of the component-less entity the next materialisation creates, which cannot fail *)
Theorem quiet_reservation_is_kept_nocap w : WInv w -> Quiet w ->
  match reserve w with
  | ROk id w1 => exists w', spawn_all w1 = ROk tt w' /\ WInv w' /\ sm_get id (w_ents w) = None /\
                            sm_get id (w_ents w') <> None /\ (forall c, abs w' id c = None) /\ ext_by_spawn w1 w' /\ Quiet w'
  | RFail _ w1 => w1 = w
  end.
Proof.
  intros HW HQ. pose proof (reserve_ReserveInv w [] (Quiet_ReserveInv w HQ)) as Hr. cbn [app] in Hr.
  assert (Hres : forall id w1, reserve w = ROk id w1 -> w_ents w1 = w_ents w /\ w_rcnt w1 = w_rcnt w + 1 /\ WInv w1).
  { unfold reserve. intros id w1. destruct (nki_next (w_rcur w) (w_ents w)) as [[[k|] i']|]; intros H; inversion H; subst. split; [reflexivity|split; [reflexivity|exact HW]]. }
  destruct (reserve w) as [id w1|f w1] eqn:Er; [|exact Hr].
  destruct (Hres id w1 eq_refl) as (He & Hc & HW1). destruct HQ as [Hz Hcur].
  destruct (reserved_ids_are_created_nocap w1 [id] HW1 Hr) as (w' & Es & HW' & Hks & Hext & Hc0 & Hr0).
  exists w'. split; [exact Es|]. split; [exact HW'|]. destruct (Hks id (or_introl eq_refl)) as [A B].
  assert (Hfresh : sm_get id (w_ents w) = None).
  { pose proof HW as ((Hsm & _) & _). unfold reserved_ids in Hr. rewrite He, Hc, Hz in Hr. cbn [N.to_nat Pos.to_nat Pos.iter_op Nat.add] in Hr.
    change (N.to_nat (0 + 1)) with 1%nat in Hr.
    destruct (predict_insert (fun _ : key => ((0, 0) : eloc)) (w_ents w) id [] (w_rcur w1) 0 Hsm Hr) as (m1 & Ei & _).
    exact (insert_get_fresh _ _ _ _ Hsm Ei). }
  split; [exact Hfresh|]. split; [exact A|]. split; [exact B|]. split; [exact Hext|].
  apply ReserveInv_zero; [exists []; exact Hr0|exact Hc0].
Qed.

(* ---------- "stays valid until that entity is despawned" ---------- *)
(* LV k w: the entity map is well formed and k is live.  Every delivery keeps it unless the delivered event is a
   Despawn (the only built-in effect that removes an entity); handlers never change the entity map. *)
Section Live.
Variable k : key.
Definition LV (w : world) : Prop := SmInv (w_ents w) /\ sm_get k (w_ents w) <> None.
Lemma live_shape (m m' : smap eloc) : shape m' = shape m -> sm_get k m <> None -> sm_get k m' <> None.
Proof.
  intros Hs L. pose proof (shape_sget m m' (fst k) Hs) as X. unfold sm_get in *.
  destruct (sget (slots m') (fst k)) as [s'|], (sget (slots m) (fst k)) as [s|]; try contradiction.
  destruct X as (Eg & _ & Ev). rewrite Eg. destruct (gen s =? snd k); [|exact L]. intros Z. apply L. now apply Ev.
Qed.
Lemma LV_shape w w' : shape (w_ents w') = shape (w_ents w) -> LV w -> LV w'.
Proof. intros Hs [A B]. split; [eapply sview_inv; eauto|eapply live_shape; eauto]. Qed.
Lemma LV_eo w w' : eo w' = eo w -> LV w -> LV w'.
Proof. intros H. apply LV_shape. exact (proj1 (eo_parts _ _ H)). Qed.
Lemma LV_ents w w' : w_ents w' = w_ents w -> LV w -> LV w'.
Proof. unfold LV. now intros ->. Qed.
Lemma LV_insert f w k0 m' : LV w -> insert_with f (w_ents w) = Some (k0, m') -> LV (set_ents w m').
Proof.
  intros [A B] E. split; cbn [w_ents set_ents]; [eapply insert_inv; eauto|].
  destruct (key_eq_dec k k0) as [->|Hne]; [rewrite (insert_get_new _ _ _ _ A E); discriminate|now rewrite (insert_get_other _ _ _ _ _ A E Hne)].
Qed.
Lemma spawn_all_n_LV n : forall w, LV w -> LV (res_world (spawn_all_n n w)).
Proof.
  induction n as [|n IH]; intros w HP; cbn [spawn_all_n]; [exact HP|].
  destruct (insert_with (fun _ => (0, 0)) (w_ents w)) as [[k0 m0]|]; [|exact HP].
  pose proof (r_arch_spawn w_ents ltac:(fr) ltac:(fr) w k0) as He. destruct (arch_spawn w k0) as [loc w1]. cbn [snd] in He.
  assert (HP1 : LV w1) by (eapply LV_ents; eauto).
  destruct (insert_with (fun _ => loc) (w_ents w1)) as [[k' ents']|] eqn:E2; [|exact HP1]. apply IH. eapply LV_insert; eauto.
Qed.
Lemma spawn_all_LV w : LV w -> LV (res_world (spawn_all w)).
Proof.
  intros HP. unfold spawn_all. pose proof (spawn_all_n_LV (N.to_nat (w_rcnt w)) w HP) as H.
  destruct (spawn_all_n (N.to_nat (w_rcnt w)) w) as [[] w1|f w1]; cbn [rbind res_world] in *; [eapply LV_ents; [|exact H]; reflexivity|exact H].
Qed.
Lemma builtin_effect_LV kind ev loc w : kind <> KDespawn -> LV w -> LV (res_world (builtin_effect kind ev loc w)).
Proof.
  intros Hk HP. destruct kind as [|c|c| |]; cbn [builtin_effect]; [exact HP| | |now apply spawn_all_LV|contradiction].
  - pose proof (eo_traverse_insert w (fst loc) c) as H1. destruct (traverse_insert w (fst loc) c) as [d w2|f w2]; cbn [rbind res_world] in *; [|eapply LV_eo; eauto].
    eapply LV_eo; [apply eo_move_entity|eapply LV_eo; eauto].
  - pose proof (eo_traverse_remove w (fst loc) c) as H1. destruct (traverse_remove w (fst loc) c) as [d w2|f w2]; cbn [rbind res_world] in *; [|eapply LV_eo; eauto].
    eapply LV_eo; [apply eo_move_entity|eapply LV_eo; eauto].
Qed.

(* the removal itself: it takes exactly the entity stored at the row (DeadEnts.remove_entity_dead: that one becomes
   dead); every other live id stays live *)
Lemma LV_remove w k1 v m' : LV w -> k1 <> k -> sm_remove k1 (w_ents w) = Some (v, m') -> LV (set_ents w m').
Proof.
  intros [A B] Hne E. split; cbn [w_ents set_ents]; [eapply remove_inv; eauto|].
  rewrite (remove_get_other _ _ _ _ _ A E (fun X => Hne (eq_sym X))). exact B.
Qed.
Theorem remove_entity_spares_the_others w ai row a e vals : LV w ->
  slab_get (w_archs w) ai = Some a -> nget (a_rows a) row = Some (e, vals) -> e <> k ->
  LV (res_world (remove_entity w (ai, row))).
Proof.
  intros HP Ha Hr Hne. unfold remove_entity. rewrite Ha, Hr. cbn zeta. set (w2 := set_archs _ _).
  assert (HP2 : LV w2) by (eapply LV_eo; [|exact HP]; unfold w2; now rewrite eo_set_archs, eo_drop_fold).
  destruct (sm_remove e (w_ents w2)) as [[v ents']|] eqn:Er; [|exact HP2]. cbn zeta.
  pose proof (LV_remove w2 e v ents' HP2 Hne Er) as HP3. set (w3 := set_ents w2 ents') in *.
  destruct (nget (a_rows (set_rows a (swap_remove (a_rows a) row))) row) as [[de dv]|].
  - destruct (sm_get de (w_ents w3)) as [l|]; [|exact HP3].
    pose proof (eo_set_loc w3 de (fst l, row)) as Hl. destruct (set_loc w3 de (fst l, row)) as [[] w4|f w4]; cbn [rbind res_world] in *.
    + eapply LV_eo; [|eapply LV_eo; [exact Hl|exact HP3]]. destruct (nlen _ =? 0); [apply eo_notify_remove|reflexivity].
    + eapply LV_eo; eauto.
  - cbn [rbind res_world]. eapply LV_eo; [|exact HP3]. destruct (nlen _ =? 0); [apply eo_notify_remove|reflexivity].
Qed.

Variable beh : hinfo -> logent -> N -> script.
(* the registered kind of the delivered event *)
Definition item_kind (w : world) (it : qitem) : option ekind :=
  if qi_targeted it then option_map (fun x => e_kind (snd x)) (get_by_index (w_tev w) (qi_idx it))
  else option_map (fun x => e_kind (snd x)) (get_by_index (w_gev w) (qi_idx it)).

Theorem live_until_despawned it w : LV w -> item_kind w it <> Some KDespawn -> LV (snd (fst (deliver_one beh it w))).
Proof.
  intros HP Hk. unfold deliver_one.
  assert (Hfin : forall tag kind hl loc, kind <> KDespawn ->
     LV (snd (fst (let '(w1, ev, sent, taken, fl) := run_handlers beh hl w it tag loc [] in
              match fl with
              | Some f => (sent, (if taken then w1 else ev_drop w1 (qi_targeted it) tag ev), Some f)
              | None => if taken then (sent, w1, None) else
                  match kind with
                  | KNormal => (sent, ev_drop w1 (qi_targeted it) tag ev, None)
                  | _ => let '(w3, f) := fail_of (builtin_effect kind ev loc w1) in (sent, w3, f)
                  end
              end)))).
  { intros tag kind hl loc Hkd. pose proof (r_run_handlers w_ents ltac:(fr) ltac:(fr) ltac:(fr) ltac:(fr) beh hl w it tag loc []) as He.
    destruct (run_handlers beh hl w it tag loc []) as [[[[w1 ev] sent] taken] fl]. cbn [fst snd] in He.
    assert (HP1 : LV w1) by (eapply LV_ents; eauto).
    assert (Hd : forall t0 tg ev0, LV (ev_drop w1 t0 tg ev0)) by (intros; eapply LV_eo; [apply eo_ev_drop|exact HP1]).
    destruct fl; [destruct taken; cbn [fst snd]; auto|]. destruct taken; [cbn [fst snd]; exact HP1|].
    destruct kind; try (cbn [fst snd]; apply Hd); try contradiction;
      match goal with |- context [builtin_effect ?kd ev loc w1] => pose proof (builtin_effect_LV kd ev loc w1 Hkd HP1) as HB; destruct (builtin_effect kd ev loc w1); cbn [fail_of fst snd res_world] in *; exact HB end. }
  unfold item_kind in Hk. destruct (qi_targeted it).
  - destruct (get_by_index (w_tev w) (qi_idx it)) as [[k0 info]|]; [|exact HP]. cbn [option_map snd] in Hk.
    destruct (sm_get (qi_target it) (w_ents w)) as [loc|]; [|cbn [fst snd]; eapply LV_eo; [apply eo_ev_drop|exact HP]].
    destruct (slab_get (w_archs w) (fst loc)); [apply Hfin; congruence|exact HP].
  - destruct (get_by_index (w_gev w) (qi_idx it)) as [[k0 info]|]; [|exact HP]. cbn [option_map snd] in Hk.
    destruct (nget (w_glists w) (qi_idx it)); [apply Hfin; congruence|exact HP].
Qed.
End Live.

(* on a consistent world, despawning t at its own location takes t and nothing else: t becomes dead for good, every
   other live id stays live *)
Theorem despawn_takes_exactly_its_target w t ai row k : StoreInv w -> sm_get t (w_ents w) = Some (ai, row) ->
  match remove_entity w (ai, row) with
  | ROk _ w' => Dead (w_ents w') t /\ (t <> k -> sm_get k (w_ents w) <> None -> sm_get k (w_ents w') <> None)
  | RFail _ _ => True
  end.
Proof.
  intros (Hsm & Hloc & _) Ht. destruct (Hloc t ai row Ht) as (a & vals & Ha & Hr). unfold arch_at in Ha.
  pose proof (remove_entity_dead w ai row a t vals Hsm Ha Hr) as HD.
  pose proof (fun Hne HL => remove_entity_spares_the_others k w ai row a t vals (conj Hsm HL) Ha Hr Hne) as HS.
  destruct (remove_entity w (ai, row)) as [[] w'|f w']; [|exact I]. cbn [res_world] in HS.
  split; [exact (proj2 HD)|]. intros Hne HL. exact (proj2 (HS Hne HL)).
Qed.

(* not vacuous, and "from the moment its Spawn event has been delivered", not before: on a map with one live
   entity and one recycled slot, the two ids NextKeyIter promises are neither live nor dead; after the two
   insertions both are live *)
Definition mx : smap eloc :=
  match inserts 2%nat (fun _ => (0, 0)) sm_empty with
  | Some (_, m) => match sm_remove (0, 1) m with Some (_, m') => m' | None => m end
  | None => sm_empty
  end.
Example promised_ids_are_not_created_yet :
  predict 2%nat (next_key_iter mx) mx = Some ([(0, 3); (2, 1)], 3) /\
  (forall k, In k [(0, 3); (2, 1)] -> ~ created mx k) /\
  (exists m', inserts 2%nat (fun _ => (0, 0)) mx = Some ([(0, 3); (2, 1)], m') /\ forall k, In k [(0, 3); (2, 1)] -> sm_get k m' <> None).
Proof.
  split; [reflexivity|]. split.
  - intros k [<-|[<-|[]]] [L|(s & Hs & Hd)]; try (apply L; reflexivity); vm_compute in Hs; inversion Hs; subst s; cbn in Hd; lia.
  - eexists. split; [reflexivity|]. intros k [<-|[<-|[]]]; vm_compute; discriminate.
Qed.
