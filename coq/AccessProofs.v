(* AccessProofs.v : the access algebra of src/access.rs computes Boolean conjunction,
   disjunction and negation of the archetype-matching meaning of its operands.
   The per-cell tables are the ones generated from the running implementation. *)
From Coq Require Import List NArith Bool Lia.
Import ListNotations.
Require Import EV.Base EV.Access.

(* the generator could construct each of the five literals in the running implementation *)
Lemma tables_are_readable : tables_readable = true.
Proof. reflexivity. Qed.

Lemma merge_acc_holds a i x y :
  match merge_acc x y with
  | Some m => lit_holds a (i,m) = lit_holds a (i,x) && lit_holds a (i,y)
  | None => lit_holds a (i,x) && lit_holds a (i,y) = false
  end.
Proof. destruct x, y; cbn; destruct (a i); reflexivity. Qed.

Lemma merge_case_eq l r : merge_case l r =
    match l, r with
    | [], _ => Some r
    | _, [] => Some l
    | (li,la)::l', (ri,ra)::r' =>
       match N.compare li ri with
       | Lt => option_map (cons (li,la)) (merge_case l' r)
       | Eq => match merge_acc la ra with
               | None => None
               | Some m => option_map (cons (li,m)) (merge_case l' r') end
       | Gt => option_map (cons (ri,ra)) (merge_case l r')
       end
    end.
Proof. destruct l as [|[li la] l]; destruct r as [|[ri ra] r]; reflexivity. Qed.

Lemma merge_case_matches a : forall l r,
  match merge_case l r with
  | Some c => case_matches a c = case_matches a l && case_matches a r
  | None => case_matches a l && case_matches a r = false
  end.
Proof.
  unfold case_matches.
  induction l as [|[li la] l IHl]; intros r.
  - destruct r; reflexivity.
  - induction r as [|[ri ra] r IHr].
    + cbn [merge_case forallb]. now rewrite andb_true_r.
    + rewrite merge_case_eq. destruct (N.compare_spec li ri) as [E|L|G].
      * subst ri. pose proof (merge_acc_holds a li la ra) as H.
        destruct (merge_acc la ra) as [m|].
        -- specialize (IHl r). destruct (merge_case l r) as [c|]; cbn [option_map forallb] in *.
           ++ rewrite H, IHl.
              destruct (lit_holds a (li,la)), (lit_holds a (li,ra)), (forallb (lit_holds a) l), (forallb (lit_holds a) r); reflexivity.
           ++ destruct (lit_holds a (li,la)), (lit_holds a (li,ra)), (forallb (lit_holds a) l), (forallb (lit_holds a) r); try reflexivity; discriminate.
        -- cbn [forallb] in *.
           destruct (lit_holds a (li,la)), (lit_holds a (li,ra)), (forallb (lit_holds a) l), (forallb (lit_holds a) r); try reflexivity; discriminate.
      * specialize (IHl ((ri,ra)::r)). destruct (merge_case l ((ri,ra)::r)) as [c|]; cbn [option_map forallb] in *.
        -- rewrite IHl. now rewrite andb_assoc.
        -- rewrite <- andb_assoc, IHl. now rewrite andb_false_r.
      * destruct (merge_case ((li,la)::l) r) as [c|]; cbn [option_map forallb] in *.
        -- rewrite IHr.
           destruct (lit_holds a (li,la)), (lit_holds a (ri,ra)), (forallb (lit_holds a) l), (forallb (lit_holds a) r); reflexivity.
        -- destruct (lit_holds a (li,la)), (lit_holds a (ri,ra)), (forallb (lit_holds a) l), (forallb (lit_holds a) r); try reflexivity; discriminate.
Qed.

Lemma ca_and_matches a x y : ca_matches a (ca_and x y) = ca_matches a x && ca_matches a y.
Proof.
  unfold ca_and, ca_matches. induction y as [|r y IH]; cbn [flat_map existsb].
  - now rewrite andb_false_r.
  - rewrite existsb_app, IH. 
    assert (H: existsb (case_matches a) (flat_map (fun left => match merge_case left r with Some c => [c] | None => [] end) x)
               = existsb (case_matches a) x && case_matches a r).
    { clear. induction x as [|l x IH]; cbn [flat_map existsb]; [reflexivity|].
      rewrite existsb_app, IH. pose proof (merge_case_matches a l r) as H.
      destruct (merge_case l r); cbn [existsb]; rewrite ?orb_false_r.
      - rewrite H. destruct (case_matches a l), (case_matches a r), (existsb (case_matches a) x); reflexivity.
      - destruct (case_matches a l), (case_matches a r), (existsb (case_matches a) x); try reflexivity; discriminate. }
    rewrite H. destruct (existsb (case_matches a) x), (case_matches a r), (existsb (case_matches a) y); reflexivity.
Qed.

Lemma ca_or_matches a x y : ca_matches a (ca_or x y) = ca_matches a x || ca_matches a y.
Proof. unfold ca_or, ca_matches. apply existsb_app. Qed.
Lemma ca_true_matches a : ca_matches a ca_true = true.
Proof. reflexivity. Qed.
Lemma ca_false_matches a : ca_matches a ca_false = false.
Proof. reflexivity. Qed.
Lemma ca_var_matches a i acc : ca_matches a (ca_var i acc) = a i.
Proof. unfold ca_var, ca_matches, case_matches, lit_holds. cbn. destruct acc; cbn; now rewrite andb_true_r, orb_false_r. Qed.

Lemma neg_lit_holds a i x : lit_holds a (i, neg_acc x) = negb (lit_holds a (i, x)).
Proof. unfold lit_holds. destruct x; cbn; destruct (a i); reflexivity. Qed.
Lemma clear_lit_holds a i x : lit_holds a (i, clear_acc x) = lit_holds a (i, x).
Proof. unfold lit_holds. destruct x; reflexivity. Qed.

Lemma neg_case_matches a c :
  ca_matches a (map (fun p => [(fst p, neg_acc (snd p))]) c) = negb (case_matches a c).
Proof.
  unfold ca_matches, case_matches. induction c as [|[i x] c IH]; [reflexivity|].
  cbn [map existsb forallb fst snd]. rewrite IH, neg_lit_holds, andb_true_r, negb_andb. reflexivity.
Qed.

Lemma ca_not_matches a x : ca_matches a (ca_not x) = negb (ca_matches a x).
Proof.
  unfold ca_not.
  assert (G : forall acc, ca_matches a (fold_left (fun acc c => ca_and acc (map (fun p => [(fst p, neg_acc (snd p))]) c)) x acc)
                        = ca_matches a acc && negb (ca_matches a x)).
  { induction x as [|c x IH]; intros acc; cbn [fold_left].
    - unfold ca_matches at 3. cbn. now rewrite andb_true_r.
    - rewrite IH, ca_and_matches, neg_case_matches. unfold ca_matches at 4. cbn [existsb].
      fold (ca_matches a x). rewrite negb_orb. now rewrite andb_assoc. }
  rewrite G. reflexivity.
Qed.

Lemma ca_clear_matches a x : ca_matches a (ca_clear x) = ca_matches a x.
Proof.
  unfold ca_clear, ca_matches. induction x as [|c x IH]; [reflexivity|]. cbn [map existsb]. rewrite IH. f_equal.
  unfold case_matches. induction c as [|[i y] c IHc]; [reflexivity|]. cbn [map forallb fst snd].
  now rewrite clear_lit_holds, IHc.
Qed.

(* conjunction of a whole list of expressions (handler-level conjunction / tuple queries) *)
Lemma fold_and_matches a (l : list ca) : forall acc,
  ca_matches a (fold_left ca_and l acc) = ca_matches a acc && forallb (ca_matches a) l.
Proof.
  induction l as [|x l IH]; intros acc; cbn [fold_left forallb]; [now rewrite andb_true_r|].
  rewrite IH, ca_and_matches. now rewrite andb_assoc.
Qed.
Lemma fold_or_matches a (l : list ca) : forall acc,
  ca_matches a (fold_left ca_or l acc) = ca_matches a acc || existsb (ca_matches a) l.
Proof.
  induction l as [|x l IH]; intros acc; cbn [fold_left existsb]; [now rewrite orb_false_r|].
  rewrite IH, ca_or_matches. now rewrite orb_assoc.
Qed.
