(* Sender.v : no call on a reachable world reaches an unchecked failure (C01).
   NoUB.v shows that one delivery is free of unchecked failures once the queued item's event is
   found in the registry.  This file closes that gap: every item that is ever queued - by a
   top-level send, by a registration notification, or by a handler through its Sender - names a
   registered event (with a listener list), because
     ByInv  the by-type maps point at live events carrying that type,
     GlInv  every live global event has a listener list,
     NInv   every event index a live handler's Sender can produce is registered (and recorded in
            the handler's sent-sets, which is what remove_*_event uses to remove such handlers first).
   These hold in every reachable world; with the invariants of Fetch.v / NoUB.v they give: no
   call, with any handler behaviour, returns an unchecked failure. *)
From Coq Require Import List NArith Bool Lia Sorted Permutation.
Import ListNotations.
Require Import EV.Base EV.ListN EV.Access EV.Query EV.SlotMap EV.Reserve EV.HList EV.Loop EV.World EV.SlotMapGet
  EV.AccessProofs EV.ArchProofs EV.QueryProofs EV.WorldFrame EV.Store EV.Graph EV.Effects EV.Reach EV.RemoveComp EV.Member EV.Listen EV.Order EV.Fetch EV.NoUB.
Open Scope N_scope.

(* ---------- the stack machine keeps a state invariant together with a queue invariant ---------- *)
Section LoopQ.
Variables (St Ev : Type).
Variable run : Ev -> St -> list Ev * St * bool.
Variable unwind : list Ev -> St -> St.
Variable P : St -> Prop.
Variable Q : St -> Ev -> Prop.
Hypothesis Hrun : forall e st, P st -> Q st e ->
  P (snd (fst (run e st))) /\ (forall x, In x (fst (fst (run e st))) -> Q (snd (fst (run e st))) x) /\ (forall x, Q st x -> Q (snd (fst (run e st))) x).
Hypothesis Hunw : forall q st, P st -> P (unwind q st).

Theorem flush_invariant_q : forall n q st acc tr st' oc,
  Loop.flush St Ev run unwind n q st acc = Some (tr, st', oc) -> P st -> (forall x, In x q -> Q st x) -> P st'.
Proof.
  induction n as [|n IH]; intros q st acc tr st' oc H HP HQ; [discriminate|].
  cbn [Loop.flush] in H. destruct (rev q) as [|e r] eqn:Er.
  - unfold step in H. rewrite Er in H. inversion H; subst. exact HP.
  - assert (Hq : q = rev r ++ [e]) by (rewrite <- (rev_involutive q), Er; reflexivity).
    rewrite Hq, step_snoc in H. assert (Qe : Q st e) by (apply HQ; rewrite Hq; apply in_or_app; right; now left).
    destruct (Hrun e st HP Qe) as (P1 & Q1 & Q2). destruct (run e st) as [[sent st1] ab]. cbn [fst snd] in *.
    destruct ab; [inversion H; subst; now apply Hunw|].
    eapply IH; [exact H|exact P1|]. intros x Hin. apply in_app_or in Hin as [Hin|Hin].
    + apply Q2, HQ. rewrite Hq. apply in_or_app. now left.
    + apply Q1. now apply in_rev.
Qed.
End LoopQ.

(* ---------- registered events ---------- *)
Definition greg (w : world) (i : N) : Prop := get_by_index (w_gev w) i <> None /\ nget (w_glists w) i <> None.
Definition treg (w : world) (i : N) : Prop := get_by_index (w_tev w) i <> None.
(* the event registered at global index [i], if any, carries type tag [tag] *)
Definition gtagged (w : world) (i tag : N) : Prop := forall k info, get_by_index (w_gev w) i = Some (k, info) -> e_tag info = tag.
Definition item_ok (w : world) (it : qitem) : Prop := if qi_targeted it then treg w (qi_idx it) else greg w (qi_idx it).

Definition sender_ok (w : world) (h : hinfo) : Prop :=
  forall g t, In (Some (g, t)) (pss h) ->
    (forall tag i, In (tag, i) g -> smem i (h_sent_g h) = true /\ greg w i /\ gtagged w i tag) /\
    (forall tag i, In (tag, i) t -> smem i (h_sent_t h) = true /\ treg w i).
Definition NInv (w : world) : Prop := forall hk h, hlive w hk h -> sender_ok w h.
Definition ByInv (w : world) : Prop :=
  (forall tag k, alookup tag (w_gby w) = Some k -> exists info, sm_get k (w_gev w) = Some info /\ e_tag info = tag) /\
  (forall tag k, alookup tag (w_tby w) = Some k -> exists info, sm_get k (w_tev w) = Some info /\ e_tag info = tag).
Definition GlInv (w : world) : Prop := forall i, get_by_index (w_gev w) i <> None -> nget (w_glists w) i <> None.
(* the receiver of a live handler is a live event *)
Definition recv_ok (w : world) (h : hinfo) : Prop :=
  match h_recv h with RvGlobal ek => sm_get ek (w_gev w) <> None | RvTargeted ek => sm_get ek (w_tev w) <> None end.
Definition RcvI (w : world) : Prop := forall hk h, hlive w hk h -> recv_ok w h.
Definition YI (w : world) : Prop := ByInv w /\ GlInv w /\ NInv w /\ RcvI w.

(* registries only grow *)
Definition ev_le0 (w' w : world) : Prop := (forall i, greg w i -> greg w' i) /\ (forall i, treg w i -> treg w' i).
Definition kl_le (w' w : world) : Prop :=
  (forall k, sm_get k (w_gev w) <> None -> sm_get k (w_gev w') <> None) /\ (forall k, sm_get k (w_tev w) <> None -> sm_get k (w_tev w') <> None).
Definition tg_le (w' w : world) : Prop := forall i x, get_by_index (w_gev w) i = Some x -> get_by_index (w_gev w') i = Some x.
Definition ev_le1 (w' w : world) : Prop := ev_le0 w' w /\ kl_le w' w.
Definition ev_le (w' w : world) : Prop := ev_le1 w' w /\ tg_le w' w.
Lemma ev_le_g w' w : ev_le w' w -> forall i, greg w i -> greg w' i. Proof. intros [[[A _] _] _]. exact A. Qed.
Lemma ev_le_t w' w : ev_le w' w -> forall i, treg w i -> treg w' i. Proof. intros [[[_ A] _] _]. exact A. Qed.
Lemma ev_le_tg w' w : ev_le w' w -> forall i tag, greg w i -> gtagged w i tag -> gtagged w' i tag.
Proof.
  intros [_ T] i tag [Hg _] Ht k info Hi. destruct (get_by_index (w_gev w) i) as [[k0 i0]|] eqn:E; [|congruence].
  rewrite (T i _ E) in Hi. inversion Hi; subst. exact (Ht _ _ E).
Qed.
Lemma ev_le_refl w : ev_le w w. Proof. split; [split; split; auto|intros i x H; exact H]. Qed.
Lemma ev_le_trans a b c : ev_le a b -> ev_le b c -> ev_le a c.
Proof. intros [[[A1 A2] [A3 A4]] A5] [[[B1 B2] [B3 B4]] B5]. split; [split; split; auto|intros i x H; auto]. Qed.
Lemma ev_le_reg w' w : registries w' = registries w -> ev_le w' w.
Proof. unfold registries. intros H. injection H as E1 _ E2 _ E3. unfold ev_le, ev_le1, tg_le, ev_le0, kl_le, greg, treg. rewrite E1, E2, E3. split; [split; split; auto|auto]. Qed.
Lemma ev_le_kg w' w : ev_le w' w -> forall k, sm_get k (w_gev w) <> None -> sm_get k (w_gev w') <> None. Proof. intros [[_ [A _]] _]. exact A. Qed.
Lemma ev_le_kt w' w : ev_le w' w -> forall k, sm_get k (w_tev w) <> None -> sm_get k (w_tev w') <> None. Proof. intros [[_ [_ A]] _]. exact A. Qed.
Lemma recv_ok_view w w' h h' : hview3 h' = hview3 h -> ev_le w' w -> recv_ok w h -> recv_ok w' h'.
Proof.
  unfold hview3. intros E [[_ [K1 K2]] _] Hr. assert (Es : hstat h' = hstat h) by congruence. unfold recv_ok in *.
  rewrite (f_equal h_recv Es : h_recv h' = h_recv h). destruct (h_recv h); auto.
Qed.

Lemma sender_ok_view w w' h h' : hview3 h' = hview3 h -> ev_le w' w -> sender_ok w h -> sender_ok w' h'.
Proof.
  unfold hview3. intros E Hle Hs g t Hin. assert (Es : hstat h' = hstat h) by congruence. assert (Ep : pss h' = pss h) by congruence.
  rewrite Ep in Hin. destruct (Hs g t Hin) as [A B].
  rewrite (f_equal h_sent_g Es : h_sent_g h' = h_sent_g h), (f_equal h_sent_t Es : h_sent_t h' = h_sent_t h).
  split; intros tag i X; [destruct (A tag i X) as (A1 & A2 & A3); split; [exact A1|split; [exact (ev_le_g _ _ Hle _ A2)|exact (ev_le_tg _ _ Hle _ _ A2 A3)]]|destruct (B tag i X) as [B1 B2]; split; [exact B1|exact (ev_le_t _ _ Hle _ B2)]].
Qed.
Lemma NInv_le w' w : hs_le w' w -> ev_le w' w -> NInv w -> NInv w'.
Proof. intros Hh He HN hk h' Hl. destruct (Hh hk h' Hl) as (h & A & B). eapply sender_ok_view; eauto. Qed.
Lemma RcvI_le w' w : hs_le w' w -> ev_le w' w -> RcvI w -> RcvI w'.
Proof. intros Hh He HN hk h' Hl. destruct (Hh hk h' Hl) as (h & A & B). eapply recv_ok_view; eauto. Qed.

Lemma YI_frame w' w : registries w' = registries w -> hs_le w' w -> YI w -> YI w'.
Proof.
  intros Hr Hh (HB & HG & HN & HR). pose proof (ev_le_reg _ _ Hr) as He. unfold registries in Hr. injection Hr as E1 E2 E3 E4 E5.
  split; [|split; [|split]].
  - unfold ByInv. rewrite E1, E2, E3, E4. exact HB.
  - unfold GlInv. rewrite E1, E5. exact HG.
  - eapply NInv_le; eauto.
  - eapply RcvI_le; eauto.
Qed.

(* ---------- what a handler can push ---------- *)
Lemma sender_lookup_some ps targeted tag i : sender_lookup ps targeted tag = Some (Some i) ->
  exists g t, In (RSender g t) ps /\ alookup tag (if targeted then t else g) = Some i.
Proof.
  unfold sender_lookup. set (senders := filter _ ps).
  assert (Hs : forall p, In p senders -> In p ps) by (intros p H; unfold senders in H; apply filter_In in H; tauto).
  destruct senders as [|s0 rest] eqn:Es; [discriminate|]. rewrite <- Es in *. intros H. injection H as H1. clear Es.
  assert (G : forall l acc, (forall p, In p l -> In p ps) ->
     fold_left (fun acc p => match acc, p with Some i, _ => Some i | None, RSender g t => alookup tag (if targeted then t else g) | None, _ => None end) l acc = Some i ->
     acc = Some i \/ exists g t, In (RSender g t) ps /\ alookup tag (if targeted then t else g) = Some i).
  { induction l as [|p l IH]; intros acc Hl Hf; cbn [fold_left] in Hf; [now left|].
    apply IH in Hf; [|intros; apply Hl; now right]. destruct Hf as [Hf|Hf]; [|now right].
    destruct acc as [j|]; [now left|]. destruct p; try discriminate. right. exists g, t. split; [apply Hl; now left|exact Hf]. }
  destruct (G senders None Hs H1) as [X|X]; [discriminate|exact X].
Qed.

Definition pushed (ps : list rparam) (x : qitem) : Prop := exists tag, sender_lookup ps (qi_targeted x) tag = Some (Some (qi_idx x)).

Lemma run_actions_sent acts : forall ps t fresh sent w x,
  In x (fst (fst (run_actions acts ps t fresh sent w))) -> In x sent \/ pushed ps x.
Proof.
  induction acts as [|a rest IH]; intros ps t fresh sent w x; cbn [run_actions]; [cbn; auto|].
  destruct (use_fuel w) as [ok w0]. destruct (negb ok); [apply IH|].
  destruct a; repeat (break_match; try apply IH; try (cbn [fst]; now left));
    intros Hin; apply IH in Hin as [Hin|Hin]; auto; (apply in_app_or in Hin as [Hin|[<-|[]]]; [now left|]); right; unfold pushed; cbn [qi_targeted qi_idx]; eauto.
Qed.

Lemma pushed_ok w h x : sender_ok w h -> pushed (h_params h) x -> item_ok w x.
Proof.
  intros Hs (tag & Hl). apply sender_lookup_some in Hl as (g & t & Hin & Hal). apply alookup_in in Hal.
  assert (Hp : In (Some (g, t)) (pss h)) by (unfold pss; apply in_map_iff; exists (RSender g t); split; [reflexivity|exact Hin]).
  destruct (Hs g t Hp) as [A B]. unfold item_ok. destruct (qi_targeted x); [exact (proj2 (B _ _ Hal))|exact (proj1 (proj2 (A _ _ Hal)))].
Qed.

Lemma item_ok_reg w w' x : registries w' = registries w -> item_ok w x -> item_ok w' x.
Proof. intros H. destruct (ev_le_reg _ _ H) as [[[A B] _] _]. unfold item_ok. destruct (qi_targeted x); auto. Qed.

(* ---------- one delivery ---------- *)
Definition ZI (w : world) : Prop := EI w /\ YI w.

Section Step.
Variable beh : hinfo -> logent -> N -> script.

Lemma run_handler_sent w h it tag loc x : In x (hr_sent (fst (run_handler beh w h it tag loc))) -> pushed (h_params h) x.
Proof.
  unfold run_handler. destruct (param_views w (h_params h) loc) as [f|[ritems views]]; [intros []|].
  match goal with |- context [run_actions ?a ?b ?c ?d ?e ?x0] =>
    pose proof (run_actions_sent a b c d e x0 x) as Hra; destruct (run_actions a b c d e x0) as [[sent w3] fl] end.
  cbn [fst] in Hra. intros Hin. assert (Hs : In x sent) by (destruct fl; [exact Hin|destruct (_ =? _); exact Hin]).
  destruct (Hra Hs) as [[]|X]; exact X.
Qed.

Lemma run_handlers_sent w0 hl : NInv w0 -> forall w it tag loc sent x, registries w = registries w0 -> w_hs w = w_hs w0 ->
  In x (snd (fst (fst (run_handlers beh hl w it tag loc sent)))) -> In x sent \/ item_ok w0 x.
Proof.
  intros HN. induction hl as [|hk rest IH]; intros w it tag loc sent x Hr Hh; cbn [run_handlers]; [cbn; auto|].
  destruct (sm_get hk (w_hs w)) as [h|] eqn:Eh; [|cbn; auto].
  pose proof (run_handler_sent w h it tag loc x) as Hps. assert (Hr1 : registries (snd (run_handler beh w h it tag loc)) = registries w) by (apply (r_run_handler registries); fr).
  pose proof (sl_run_handler beh w h it tag loc) as Hs1.
  destruct (run_handler beh w h it tag loc) as [r w1]. cbn [fst snd] in *.
  assert (Hok : In x (sent ++ hr_sent r) -> In x sent \/ item_ok w0 x).
  { intros Hin. apply in_app_or in Hin as [Hin|Hin]; [now left|]. right. apply (pushed_ok w0 h); [|now apply Hps].
    apply (HN hk h). unfold hlive. now rewrite <- Hh. }
  destruct (hr_fail r); [cbn [fst snd]; exact Hok|]. destruct (hr_taken r); [cbn [fst snd]; exact Hok|].
  intros Hin. apply IH in Hin; [destruct Hin as [Hin|Hin]; [now apply Hok|now right]|congruence|].
  destruct (structureL_arch w w1 Hs1) as (A & _). congruence.
Qed.

Lemma deliver_one_sent it w x : NInv w -> In x (fst (fst (deliver_one beh it w))) -> item_ok w x.
Proof.
  intros HN. unfold deliver_one.
  assert (Hfin : forall tag kind hl loc,
     In x (fst (fst (let '(w1, ev, sent, taken, fl) := run_handlers beh hl w it tag loc [] in
              match fl with
              | Some f => (sent, (if taken then w1 else ev_drop w1 (qi_targeted it) tag ev), Some f)
              | None => if taken then (sent, w1, None) else
                  match kind with
                  | KNormal => (sent, ev_drop w1 (qi_targeted it) tag ev, None)
                  | _ => let '(w3, f) := fail_of (builtin_effect kind ev loc w1) in (sent, w3, f)
                  end
              end))) -> item_ok w x).
  { intros tag kind hl loc. pose proof (run_handlers_sent w hl HN w it tag loc [] x eq_refl eq_refl) as Hs.
    destruct (run_handlers beh hl w it tag loc []) as [[[[w1 ev] sent] taken] fl]. cbn [fst snd] in Hs.
    intros Hin. assert (Hx : In x sent).
    { destruct fl; [exact Hin|]. destruct taken; [exact Hin|]. destruct kind; try exact Hin; destruct (fail_of _); exact Hin. }
    destruct (Hs Hx) as [[]|X]; exact X. }
  destruct (qi_targeted it).
  - destruct (get_by_index (w_tev w) (qi_idx it)) as [[k info]|]; [|intros []].
    destruct (sm_get (qi_target it) (w_ents w)) as [loc|]; [|intros []].
    destruct (slab_get (w_archs w) (fst loc)); [|intros []]. apply Hfin.
  - destruct (get_by_index (w_gev w) (qi_idx it)) as [[k info]|]; [|intros []].
    destruct (nget (w_glists w) (qi_idx it)); [|intros []]. apply Hfin.
Qed.

Lemma hv3_deliver_one it w : hv3 (snd (fst (deliver_one beh it w))) = hv3 w.
Proof. apply (r_deliver_one hv3); h3fr. Qed.

Lemma deliver_one_DI it w : DI w -> DI (snd (fst (deliver_one beh it w))).
Proof.
  intros [[[HA HG] HO] HX]. pose proof (deliver_one_AO beh it w (conj HA HO)) as [A O].
  destruct HA as [HF HH]. destruct (FInv_parts _ HF) as (H1 & H2 & _). pose proof (deliver_one_XI beh it w H1 H2 HH HX) as X.
  pose proof (deliver_one_keeps_registries beh it w) as Hr. split; [split; [split; [exact A|]|exact O]|exact X].
  unfold GInv in *. unfold registries in Hr. injection Hr as E _ _ _ _. now rewrite E.
Qed.

Lemma deliver_one_ZI it w : ZI w -> ZI (snd (fst (deliver_one beh it w))).
Proof.
  intros [[HD HS] HY]. pose proof (hs_le_hv3 _ _ (hv3_deliver_one it w)) as Hle.
  split; [split; [now apply deliver_one_DI|eapply SInv_le; eauto]|].
  eapply YI_frame; [apply deliver_one_keeps_registries|exact Hle|exact HY].
Qed.

Lemma unwind_ZI q0 (st : wst) : ZI (fst st) -> ZI (fst (unwind_w q0 st)).
Proof.
  intros HZ. unfold unwind_w. destruct (snd st) as [[k|s]|] eqn:Es; try exact HZ. cbn [fst].
  destruct HZ as [[HD HS] HY].
  assert (Hw : res_world (spawn_all (unwind_queue q0 (fst st))) = match spawn_all (unwind_queue q0 (fst st)) with ROk _ w3 => w3 | RFail _ w3 => w3 end) by (destruct (spawn_all _); reflexivity).
  rewrite <- Hw.
  assert (Hv : hv3 (res_world (spawn_all (unwind_queue q0 (fst st)))) = hv3 (fst st)).
  { rewrite (r_spawn_all hv3) by h3fr. apply (r_unwind_queue hv3); h3fr. }
  assert (Hr : registries (res_world (spawn_all (unwind_queue q0 (fst st)))) = registries (fst st)).
  { rewrite spawn_all_keeps_registries. apply unwind_queue_keeps_registries. }
  pose proof (hs_le_hv3 _ _ Hv) as Hle.
  split; [split; [|eapply SInv_le; eauto]|eapply YI_frame; eauto].
  destruct HD as [[[HA HG] HO] HX]. pose proof (unwind_AO q0 (fst st, Some (FPanic k)) (conj HA HO)) as [A O]. unfold unwind_w in A, O. cbn [fst snd] in A, O.
  rewrite <- Hw in A, O. split; [split; [split; [exact A|]|exact O]|].
  - unfold GInv in *. unfold registries in Hr. injection Hr as E _ _ _ _. now rewrite E.
  - apply spawn_all_XI. unfold unwind_queue. apply (fold_left_invariant XI); [exact HX|]. intros acc y Hacc. now apply XI_ev_drop.
Qed.

Definition nub {A} (r : res A) : Prop := match r with RFail (FUB _) _ => False | _ => True end.
Definition ZOK {A} (r : res A) (post : A -> world -> Prop) : Prop :=
  ZI (res_world r) /\ nub r /\ match r with ROk a w' => post a w' | RFail _ _ => True end.

Lemma rbind_ZOK {A B} (r : res A) (f : A -> world -> res B) post1 post2 :
  ZOK r post1 -> (forall a w1, ZI w1 -> post1 a w1 -> ZOK (f a w1) post2) -> ZOK (rbind r f) post2.
Proof.
  intros (HZ & Hn & Hp) Hf. destruct r as [a w1|e w1]; cbn [rbind res_world] in *; [now apply Hf|].
  split; [exact HZ|split; [exact Hn|exact I]].
Qed.
Lemma ZOK_weaken {A} (r : res A) (p1 p2 : A -> world -> Prop) : (forall a w, ZI w -> p1 a w -> p2 a w) -> ZOK r p1 -> ZOK r p2.
Proof. intros H (A1 & A2 & A3). split; [exact A1|split; [exact A2|]]. destruct r; [apply H; assumption|exact I]. Qed.

Theorem flush_ZOK q w : ZI w -> (forall x, In x q -> item_ok w x) -> ZOK (flush beh q w) (fun _ _ => True).
Proof.
  intros HZ HQ. unfold flush, flush_loop.
  destruct (Loop.flush wst qitem (run_w beh) unwind_w FUEL q (w, None) []) as [[[tr [w1 fl]] oc]|] eqn:E.
  2:{ split; [exact HZ|split; exact I]. }
  assert (HP : ZI w1 /\ ~ ubf fl).
  { apply (flush_invariant_q wst qitem (run_w beh) unwind_w (fun s : wst => ZI (fst s) /\ ~ ubf (snd s)) (fun (s : wst) it => item_ok (fst s) it))
      with (n := FUEL) (q := q) (st := (w, None)) (acc := []) (tr := tr) (oc := oc) (st' := (w1, fl)); [| |exact E|split; [exact HZ|cbn; tauto]|exact HQ].
    - intros e st [HZs _] Qe. unfold run_w.
      pose proof (deliver_one_ZI e (fst st) HZs) as Z1. destruct HZs as [[HD HS] (HB & HGl & HN & HRc)].
      pose proof (deliver_one_no_ub beh e (fst st) HD HS) as Hn. pose proof (fun x => deliver_one_sent e (fst st) x HN) as Hsent.
      pose proof (deliver_one_keeps_registries beh e (fst st)) as Hr.
      destruct (deliver_one beh e (fst st)) as [[sent w2] fl2]. cbn [fst snd] in *.
      split; [split; [exact Z1|]|split].
      + apply Hn. unfold item_ok, greg, treg in Qe. destruct (qi_targeted e); exact Qe.
      + intros x Hin. apply (item_ok_reg (fst st)); [exact Hr|now apply Hsent].
      + intros x Hx. now apply (item_ok_reg (fst st)).
    - intros q0 st [HZs Hf]. split; [now apply unwind_ZI|]. unfold unwind_w. destruct (snd st) as [[k|s]|] eqn:Es; [cbn; tauto|rewrite Es; exact Hf|rewrite Es; exact Hf]. }
  destruct HP as [Z1 Hf]. destruct oc.
  - split; [|split; exact I]. cbn [res_world]. destruct Z1 as [[HD HS] HY].
    assert (Hh : hs_le (set_resets w1 (w_resets w1 + 1)) w1) by now apply hs_le_hs.
    split; [split; [|eapply SInv_le; eauto]|eapply YI_frame; eauto].
    pose proof (flush_DI beh q w (proj1 (proj1 HZ))) as X. unfold flush, flush_loop in X. rewrite E in X. exact X.
  - destruct fl as [f|]; cbn [res_world]; (split; [exact Z1|split; [|exact I]]); [destruct f as [k|s]; [exact I|exact (Hf I)]|exact I].
Qed.
End Step.

(* ---------- registries only grow along registration and sending ---------- *)
Lemma rbind_ev {A B} (r : res A) (f : A -> world -> res B) w :
  ev_le (res_world r) w -> (forall a w1, ev_le (res_world (f a w1)) w1) -> ev_le (res_world (rbind r f)) w.
Proof. intros H1 H2. destruct r as [a w1|e w1]; cbn [rbind res_world] in *; [eapply ev_le_trans; eauto|exact H1]. Qed.

Lemma nget_nrepeat_mono {A} (d : A) l n i : nget l i <> None -> nget (nrepeat_to l n d) i <> None.
Proof. rewrite nget_nrepeat_to. destruct (nget l i); [discriminate|tauto]. Qed.
Lemma nget_nset_mono {A} (l : list A) j x i : nget l i <> None -> nget (nset l j x) i <> None.
Proof.
  intros H. destruct (N.eq_dec j i) as [->|Hne]; [|now rewrite nget_nset_neq].
  rewrite nget_nset_eq; [discriminate|]. destruct (nget l i) eqn:E; [eapply nget_some_lt; eauto|tauto].
Qed.
Lemma gbi_insert_mono {V} (f : key -> V) m k m' i : SmInv m -> insert_with f m = Some (k, m') -> get_by_index m i <> None -> get_by_index m' i <> None.
Proof. intros S Ei H. destruct (get_by_index m i) as [[k0 v]|] eqn:E; [|tauto]. now rewrite (gbi_insert_old f m k m' i k0 v S Ei E). Qed.

Section EvOps.
Variable beh : hinfo -> logent -> N -> script.

Lemma registries_flush q w : registries (res_world (flush beh q w)) = registries w.
Proof.
  unfold flush, flush_loop. destruct (Loop.flush wst qitem (run_w beh) unwind_w FUEL q (w, None) []) as [[[tr [w1 fl]] oc]|] eqn:E; [|reflexivity].
  pose proof (flush_keeps_registries beh _ _ _ _ _ _ E) as H. cbn [fst] in H. destruct oc; [exact H|destruct fl; exact H].
Qed.
Lemma ev_le_flush q w : ev_le (res_world (flush beh q w)) w.
Proof. apply ev_le_reg, registries_flush. Qed.
Lemma registries_ev_drop w t tag ev : registries (ev_drop w t tag ev) = registries w.
Proof. unfold ev_drop, drop_cval. repeat break_match; reflexivity. Qed.

End EvOps.

(* ---------- the registration steps between two flushes keep DI (extracted from the proofs in Fetch.v) ---------- *)
Lemma add_global_event_entry_DI w tag k m : DI w -> insert_with (fun _ => mkE tag (gkind tag)) (w_gev w) = Some (k, m) ->
  DI (set_glists (set_gev w m (ainsert tag k (w_gby w))) (nrepeat_to (w_glists (set_gev w m (ainsert tag k (w_gby w)))) (N.to_nat (fst k) + 1) hl_new)).
Proof.
  intros HD Ei. set (w2 := set_glists _ _).
  destruct HD as [HB HX]. split; [|exact HX]. split.
  - destruct (AI_parts _ (proj1 HB)) as ([[HW HK] HKK] & HH & HG). split; [split; [split; [split; [eapply WInv_ext; [| | |exact HW]; reflexivity|]|exact HKK]|]|].
    + intros i k' info Hg. unfold w2 in Hg. cbn [w_gev set_glists set_hreg set_gev] in Hg.
      destruct (gbi_insert _ _ _ _ _ _ _ Ei Hg) as [->|Hold]; [|eauto]. cbn [e_kind]. unfold gkind. now destruct (tag =? G_SPAWN).
    + apply (HL_conv_gl w w2); try reflexivity; [|exact HH].
      intros idx. unfold glist_of, w2. cbn [w_glists set_glists set_hreg set_gev]. apply (glist_nrepeat w (w_glists w) _ eq_refl).
    + unfold GInv, w2. cbn [w_gev set_glists set_hreg set_gev]. eapply SlotMap.insert_inv; eauto.
  - destruct HB as [_ (O1 & O2 & O3)]. split; [exact O1|]. split; [|exact O3].
    intros idx l Hl. unfold w2 in Hl. cbn [w_glists set_glists set_hreg set_gev] in Hl. rewrite nget_nrepeat_to in Hl.
    change (HlW w2 l) with (HlW w l). destruct (nget (w_glists w) idx) as [l0|] eqn:E0; [inversion Hl; subst; eauto|].
    destruct (idx <? _); inversion Hl; subst. apply HListProofs.hl_new_inv.
Qed.

Lemma add_component_entry_DI w tag k m : DI w -> alookup tag (w_cby w) = None -> insert_with (fun _ => mkC tag [] [] []) (w_comps w) = Some (k, m) ->
  DI (set_comps w m (ainsert tag k (w_cby w))).
Proof.
  intros HD El Ei. set (w1 := set_comps w m (ainsert tag k (w_cby w))).
  destruct HD as [HB HX]. split; [|exact HX]. destruct (AI_parts _ (proj1 HB)) as (HF & HH & HG). destruct (add_component_entry_FInv tag w k m HF El Ei) as [HF1 _].
  split; [|apply (OInv_conv w w1); try reflexivity; exact (proj2 HB)].
  destruct (HL_GInv_conv w w1) as [X Y]; try reflexivity; [auto|auto|]. split; [split|]; assumption.
Qed.

Lemma tev_entry_DI w0 tag kind k m : DI w0 -> kind_comp_live w0 kind ->
  insert_with (fun _ => mkE tag kind) (w_tev w0) = Some (k, m) -> DI (tev_entry_world w0 tag kind k m).
Proof.
  intros HD0 Hl Ei. destruct HD0 as [HB0 HX0]. destruct (AI_parts _ (proj1 HB0)) as (HF0 & HH0 & HG0).
  pose proof (tev_entry_FInv w0 tag kind k m HF0 Hl Ei) as HF1.
  split; [split|].
  - destruct (HL_GInv_conv w0 (tev_entry_world w0 tag kind k m)) as [X Y]; try (unfold tev_entry_world; destruct kind; reflexivity); [|auto|split; [split|]; assumption].
    assert (S2 : SmInv (w_tev w0)) by (destruct HF0 as [_ (_ & X & _)]; exact X).
    intros k0 Hlv. assert (Et : w_tev (tev_entry_world w0 tag kind k m) = m) by (unfold tev_entry_world; destruct kind; reflexivity). rewrite Et.
    rewrite (insert_get_other _ _ _ _ k0 S2 Ei); [exact Hlv|]. intros ->. apply Hlv. eapply insert_get_fresh; eauto.
  - apply (OInv_conv w0); try (unfold tev_entry_world; destruct kind; reflexivity). exact (proj2 HB0).
  - apply (XI_ext w0); try (intros; unfold tev_entry_world; destruct kind; reflexivity); exact HX0.
Qed.

(* ---------- helpers ---------- *)
Lemma ZI_intro w' w : DI w' -> w_hs w' = w_hs w -> registries w' = registries w -> ZI w -> ZI w'.
Proof.
  intros HD Hh Hr [[_ HS] HY]. pose proof (hs_le_hs _ _ Hh) as Hle.
  split; [split; [exact HD|eapply SInv_le; eauto]|eapply YI_frame; eauto].
Qed.

Lemma by_insert kd (by_ : list (N * key)) (ev m : smap einfo) tag k : SmInv ev ->
  insert_with (fun _ => mkE tag kd) ev = Some (k, m) ->
  (forall t k0, alookup t by_ = Some k0 -> exists info, sm_get k0 ev = Some info /\ e_tag info = t) ->
  forall t k0, alookup t (ainsert tag k by_) = Some k0 -> exists info, sm_get k0 m = Some info /\ e_tag info = t.
Proof.
  intros S Ei H t k0 Hl. destruct (N.eq_dec t tag) as [->|Hne].
  - rewrite alookup_ainsert_eq in Hl. inversion Hl; subst k0. exists (mkE tag kd). split; [exact (insert_get_new (fun _ => mkE tag kd) ev k m S Ei)|reflexivity].
  - rewrite alookup_ainsert_neq in Hl by exact Hne. destruct (H t k0 Hl) as (info & A & B). exists info. split; [|exact B].
    rewrite (insert_get_other _ _ _ _ k0 S Ei); [exact A|]. intros ->. rewrite (insert_get_fresh _ _ _ _ S Ei) in A. discriminate.
Qed.

Lemma greg_of_by w tag k : ByInv w -> GlInv w -> alookup tag (w_gby w) = Some k -> greg w (fst k).
Proof.
  intros [B _] G H. destruct (B tag k H) as (info & A & _). apply gbi_of_get in A.
  assert (X : get_by_index (w_gev w) (fst k) <> None) by (rewrite A; discriminate). split; [exact X|now apply G].
Qed.
Lemma treg_of_by w tag k : ByInv w -> alookup tag (w_tby w) = Some k -> treg w (fst k).
Proof. intros [_ B] H. destruct (B tag k H) as (info & A & _). apply gbi_of_get in A. unfold treg. rewrite A. discriminate. Qed.

Lemma ZOK_fail {A} f w : ZI w -> ~ ubf (Some f) -> forall post, ZOK (@RFail A f w) post.
Proof. intros HZ Hf post. split; [exact HZ|split; [|exact I]]. destruct f; cbn in *; tauto. Qed.
Lemma ZOK_ok {A} (a : A) w (post : A -> world -> Prop) : ZI w -> post a w -> ZOK (ROk a w) post.
Proof. intros HZ Hp. split; [exact HZ|split; [exact I|exact Hp]]. Qed.

Lemma ZI_ev_drop w t tag ev : ZI w -> ZI (ev_drop w t tag ev).
Proof.
  intros HZ. apply (ZI_intro _ w); [apply DI_ev_drop; exact (proj1 (proj1 HZ))| |apply registries_ev_drop|exact HZ].
  unfold ev_drop, drop_cval. repeat break_match; reflexivity.
Qed.

Section ZOps.
Variable beh : hinfo -> logent -> N -> script.

Lemma flush_ZOK_le q w w0 : ZI w -> (forall x, In x q -> item_ok w x) -> ev_le w w0 -> ZOK (flush beh q w) (fun _ w' => ev_le w' w0).
Proof.
  intros HZ HQ Hle. destruct (flush_ZOK beh q w HZ HQ) as (A & B & _). pose proof (ev_le_flush beh q w) as Hf.
  destruct (flush beh q w) as [[] w'|e w']; cbn [res_world] in *; (split; [exact A|split; [exact B|]]); [eapply ev_le_trans; eauto|exact I].
Qed.

Lemma gev_entry_ZI w tag k m : ZI w -> insert_with (fun _ => mkE tag (gkind tag)) (w_gev w) = Some (k, m) ->
  let w2 := set_glists (set_gev w m (ainsert tag k (w_gby w))) (nrepeat_to (w_glists (set_gev w m (ainsert tag k (w_gby w)))) (N.to_nat (fst k) + 1) hl_new) in
  ZI w2 /\ ev_le w2 w /\ greg w2 (fst k) /\ gtagged w2 (fst k) tag.
Proof.
  intros HZ Ei. destruct HZ as [[HD HS] (HB & HGl & HN & HRc)].
  pose proof (add_global_event_entry_DI w tag k m HD Ei) as HD2. cbn zeta. set (w2 := set_glists _ _) in *.
    assert (SG : SmInv (w_gev w)) by (destruct HD as [[[_ X] _] _]; exact X).
    assert (Hle : ev_le w2 w).
    { split; [split; split; [|intros i X; exact X| |intros k0 X; exact X]|].
      - intros i [A B]. split; unfold w2; cbn [w_gev w_glists set_glists set_hreg set_gev]; [eapply gbi_insert_mono; eauto|now apply nget_nrepeat_mono].
      - intros k0 X. unfold w2. cbn [w_gev set_glists set_hreg set_gev]. rewrite (insert_get_other _ _ _ _ k0 SG Ei); [exact X|]. intros ->. apply X. eapply insert_get_fresh; eauto.
      - intros i [k0 x0] X. unfold w2. cbn [w_gev set_glists set_hreg set_gev]. exact (gbi_insert_old _ _ _ _ _ _ _ SG Ei X). }
    assert (Hnew : greg w2 (fst k)).
    { split; unfold w2; cbn [w_gev w_glists set_glists set_hreg set_gev].
      - erewrite gbi_insert_new by eauto. discriminate.
      - rewrite nget_nrepeat_to. destruct (nget (w_glists w) (fst k)); [discriminate|].
        replace (fst k <? N.of_nat (N.to_nat (fst k) + 1)) with true; [discriminate|]. symmetry. apply N.ltb_lt. lia. }
    assert (HZ2 : ZI w2).
    { split; [split; [exact HD2|eapply SInv_le; [|exact HS]; now apply hs_le_hs]|]. split; [|split; [|split]]; [| | |eapply RcvI_le; [|exact Hle|exact HRc]; now apply hs_le_hs].
      - destruct HB as [B1 B2]. split; [|exact B2]. unfold w2. cbn [w_gev w_gby set_glists set_hreg set_gev]. eapply by_insert; eauto.
      - intros i Hi. unfold w2 in *. cbn [w_gev w_glists set_glists set_hreg set_gev] in *. destruct (N.eq_dec i (fst k)) as [->|Hne]; [exact (proj2 Hnew)|].
        rewrite (gbi_insert_other _ _ _ _ i SG Ei Hne) in Hi. apply nget_nrepeat_mono. now apply HGl.
      - eapply NInv_le; [|exact Hle|exact HN]. now apply hs_le_hs. }
    assert (Htag2 : gtagged w2 (fst k) tag).
    { intros k1 info1 Hg1. unfold w2 in Hg1. cbn [w_gev set_glists set_hreg set_gev] in Hg1. rewrite (gbi_insert_new _ _ _ _ SG Ei) in Hg1. inversion Hg1; subst. reflexivity. }
  split; [exact HZ2|split; [exact Hle|split; [exact Hnew|exact Htag2]]].
Qed.

Lemma gev_ZOK fuel : forall tag w, ZI w ->
  ZOK (add_global_event beh fuel tag w) (fun k w' => ev_le w' w /\ greg w' (fst k) /\ sm_get k (w_gev w') <> None /\ gtagged w' (fst k) tag) /\
  forall ev, ZOK (send_global beh fuel tag ev w) (fun _ w' => ev_le w' w).
Proof.
  induction fuel as [|f IH]; intros tag w HZ; [split; [|intros ev]; apply ZOK_fail; auto; cbn; tauto|].
  assert (Hadd : ZOK (add_global_event beh (S f) tag w) (fun k w' => ev_le w' w /\ greg w' (fst k) /\ sm_get k (w_gev w') <> None /\ gtagged w' (fst k) tag)).
  { rewrite add_global_event_S. destruct HZ as [[HD HS] (HB & HGl & HN & HRc)].
    destruct (alookup tag (w_gby w)) as [k0|] eqn:El.
    { apply ZOK_ok; [split; [split|split; [|split; [|split]]]; assumption|]. split; [apply ev_le_refl|split; [eapply greg_of_by; eauto|]]. destruct (proj1 HB _ _ El) as (i0 & A & At). split; [rewrite A; discriminate|].
      intros k1 info1 Hg1. rewrite (gbi_of_get _ _ _ A) in Hg1. inversion Hg1; subst k1 info1. exact At. }
    destruct (insert_with (fun _ => mkE tag (gkind tag)) (w_gev w)) as [[k m]|] eqn:Ei.
    2:{ apply ZOK_fail; [split; [split|split; [|split; [|split]]]; assumption|cbn; tauto]. }
    cbn zeta. assert (SG : SmInv (w_gev w)) by (destruct HD as [[[_ X] _] _]; exact X).
    destruct (gev_entry_ZI w tag k m (conj (conj HD HS) (conj HB (conj HGl (conj HN HRc)))) Ei) as (HZ2 & Hle & Hnew & Htag2). cbn zeta in HZ2, Hle, Hnew, Htag2. set (w2 := set_glists _ _) in *.
    destruct (IH G_ADDGE w2 HZ2) as [_ Hs]. specialize (Hs (mkEv 0 0 k)).
    eapply rbind_ZOK; [exact Hs|]. intros [] w3 HZ3 Hle3. apply ZOK_ok; [exact HZ3|]. split; [eapply ev_le_trans; eauto|split; [exact (ev_le_g _ _ Hle3 _ Hnew)|split; [|exact (ev_le_tg _ _ Hle3 _ _ Hnew Htag2)]]]. apply (ev_le_kg _ _ Hle3 k). unfold w2. cbn [w_gev set_glists set_hreg set_gev]. rewrite (insert_get_new _ _ _ _ SG Ei). discriminate. }
  split; [exact Hadd|]. intros ev. rewrite send_global_S. destruct (IH tag w HZ) as [(Z1 & N1 & P1) _].
  destruct (add_global_event beh f tag w) as [k w1|e w1]; cbn [res_world] in *.
  - destruct P1 as [Hle [Hg _]].
    assert (HZ2 : ZI (if 10 <? tag then note w1 tag (ev_id ev) else w1)) by (destruct (10 <? tag); exact Z1).
    assert (Hr : registries (if 10 <? tag then note w1 tag (ev_id ev) else w1) = registries w1) by (destruct (10 <? tag); reflexivity).
    apply flush_ZOK_le; [exact HZ2| |eapply ev_le_trans; [apply ev_le_reg; exact Hr|exact Hle]].
    intros x [<-|[]]. apply (item_ok_reg w1); [exact Hr|exact Hg].
  - apply ZOK_fail; [now apply ZI_ev_drop|]. destruct e; cbn in *; tauto.
Qed.
Lemma send_global_ZOK tag ev w : ZI w -> ZOK (send_global beh RFUEL tag ev w) (fun _ w' => ev_le w' w).
Proof. intros H. exact (proj2 (gev_ZOK RFUEL tag w H) ev). Qed.
Lemma add_global_event_ZOK tag w : ZI w -> ZOK (add_global_event beh RFUEL tag w) (fun k w' => ev_le w' w /\ greg w' (fst k) /\ sm_get k (w_gev w') <> None /\ gtagged w' (fst k) tag).
Proof. intros H. exact (proj1 (gev_ZOK RFUEL tag w H)). Qed.

Lemma add_component_ZOK tag w : ZI w -> ZOK (add_component beh tag w) (fun _ w' => ev_le w' w).
Proof.
  intros HZ. unfold add_component. destruct (alookup tag (w_cby w)) as [k0|] eqn:El; [apply ZOK_ok; [exact HZ|apply ev_le_refl]|].
  destruct (insert_with (fun _ => mkC tag [] [] []) (w_comps w)) as [[k m]|] eqn:Ei; [|apply ZOK_fail; [exact HZ|cbn; tauto]].
  assert (HZ1 : ZI (set_comps w m (ainsert tag k (w_cby w)))) by (apply (ZI_intro _ w); [apply add_component_entry_DI; [exact (proj1 (proj1 HZ))|exact El|exact Ei]|reflexivity|reflexivity|exact HZ]).
  eapply rbind_ZOK; [apply send_global_ZOK; exact HZ1|]. intros [] w2 HZ2 Hle. apply ZOK_ok; [exact HZ2|exact Hle].
Qed.

Lemma tev_stage1_ZOK tag w : ZI w -> ZOK (tev_stage1 beh tag w) (fun _ w' => ev_le w' w).
Proof.
  intros HZ. unfold tev_stage1.
  destruct ((20 <=? tag) && (tag <? 40)); [eapply rbind_ZOK; [apply add_component_ZOK; exact HZ|intros c w1 HZ1 Hle; now apply ZOK_ok]|].
  destruct ((40 <=? tag) && (tag <? 60)); [eapply rbind_ZOK; [apply add_component_ZOK; exact HZ|intros c w1 HZ1 Hle; now apply ZOK_ok]|].
  destruct (tag =? T_DESPAWN); (apply ZOK_ok; [exact HZ|apply ev_le_refl]).
Qed.

Lemma tev_entry_ZI w0 tag kind k m : ZI w0 -> kind_comp_live w0 kind -> insert_with (fun _ => mkE tag kind) (w_tev w0) = Some (k, m) ->
  ZI (tev_entry_world w0 tag kind k m) /\ ev_le (tev_entry_world w0 tag kind k m) w0 /\ treg (tev_entry_world w0 tag kind k m) (fst k).
Proof.
  intros Z0 Hl Ei. destruct Z0 as [[HD0 HS0] (HB0 & HG0 & HN0 & HR0)].
  pose proof (tev_entry_DI w0 tag kind k m HD0 Hl Ei) as HD1. set (w1 := tev_entry_world w0 tag kind k m) in *.
  assert (ST : SmInv (w_tev w0)) by (destruct (DI_parts _ HD0) as ([_ (_ & X & _)] & _); exact X).
  assert (Et : w_tev w1 = m) by (unfold w1, tev_entry_world; destruct kind; reflexivity).
  assert (Etb : w_tby w1 = ainsert tag k (w_tby w0)) by (unfold w1, tev_entry_world; destruct kind; reflexivity).
  assert (Eg : w_gev w1 = w_gev w0 /\ w_gby w1 = w_gby w0 /\ w_glists w1 = w_glists w0 /\ w_hs w1 = w_hs w0) by (unfold w1, tev_entry_world; destruct kind; repeat split).
  destruct Eg as (Eg1 & Eg2 & Eg3 & Eg4).
  assert (Hle : ev_le w1 w0).
  { split; [split; split|intros i x X; now rewrite Eg1].
    - intros i X; unfold greg in *; now rewrite Eg1, Eg3.
    - intros i X. unfold treg in *. rewrite Et. eapply gbi_insert_mono; eauto.
    - intros k0 X. now rewrite Eg1.
    - intros k0 X. rewrite Et. rewrite (insert_get_other _ _ _ _ k0 ST Ei); [exact X|]. intros ->. apply X. eapply insert_get_fresh; eauto. }
  assert (Hnew : treg w1 (fst k)) by (unfold treg; rewrite Et; erewrite gbi_insert_new by eauto; discriminate).
  assert (HZ1 : ZI w1).
  { split; [split; [exact HD1|eapply SInv_le; [|exact HS0]; now apply hs_le_hs]|]. split; [|split; [|split]]; [| | |eapply RcvI_le; [|exact Hle|exact HR0]; now apply hs_le_hs].
    - destruct HB0 as [B1 B2]. split; [rewrite Eg1, Eg2; exact B1|]. rewrite Et, Etb. eapply by_insert; eauto.
    - unfold GlInv. rewrite Eg1, Eg3. exact HG0.
    - eapply NInv_le; [|exact Hle|exact HN0]. now apply hs_le_hs. }
  split; [exact HZ1|split; [exact Hle|exact Hnew]].
Qed.

Lemma add_targeted_event_ZOK tag w : ZI w -> ZOK (add_targeted_event beh tag w) (fun k w' => ev_le w' w /\ treg w' (fst k) /\ sm_get k (w_tev w') <> None).
Proof.
  intros HZ. rewrite add_targeted_event_unfold. pose proof (tev_stage1_ZOK tag w HZ) as (Z0 & N0 & P0).
  destruct (tev_stage1_FInv beh tag w (proj1 (DI_parts _ (proj1 (proj1 HZ))))) as [_ Hl].
  destruct (tev_stage1 beh tag w) as [kind w0|f w0]; cbn [rbind res_world] in *; [|split; [exact Z0|split; [exact N0|exact I]]].
  destruct Z0 as [[HD0 HS0] (HB0 & HG0 & HN0 & HR0)].
  destruct (alookup tag (w_tby w0)) as [k0|] eqn:El.
  { apply ZOK_ok; [split; [split|split; [|split; [|split]]]; assumption|]. split; [exact P0|split; [eapply treg_of_by; eauto|]]. destruct (proj2 HB0 _ _ El) as (i0 & A & _). rewrite A. discriminate. }
  destruct (insert_with (fun _ => mkE tag kind) (w_tev w0)) as [[k m]|] eqn:Ei; [|apply ZOK_fail; [split; [split|split; [|split; [|split]]]; assumption|cbn; tauto]].
  assert (ST : SmInv (w_tev w0)) by (destruct (DI_parts _ HD0) as ([_ (_ & X & _)] & _); exact X).
  destruct (tev_entry_ZI w0 tag kind k m (conj (conj HD0 HS0) (conj HB0 (conj HG0 (conj HN0 HR0)))) Hl Ei) as (HZ1 & Hle & Hnew). set (w1 := tev_entry_world w0 tag kind k m) in *.
  assert (Et : w_tev w1 = m) by (unfold w1, tev_entry_world; destruct kind; reflexivity).
  eapply rbind_ZOK; [apply send_global_ZOK; exact HZ1|]. intros [] w2 HZ2 Hle2. apply ZOK_ok; [exact HZ2|].
  split; [eapply ev_le_trans; [exact Hle2|eapply ev_le_trans; eauto]|split; [exact (ev_le_t _ _ Hle2 _ Hnew)|]]. apply (ev_le_kt _ _ Hle2 k). rewrite Et. rewrite (insert_get_new _ _ _ _ ST Ei). discriminate.
Qed.

Lemma send_to_ZOK tag target ev w : ZI w -> ZOK (send_to beh tag target ev w) (fun _ w' => ev_le w' w).
Proof.
  intros HZ. unfold send_to. destruct (add_targeted_event_ZOK tag w HZ) as (Z1 & N1 & P1).
  destruct (add_targeted_event beh tag w) as [k w1|e w1]; cbn [res_world] in *.
  - destruct P1 as [Hle [Ht _]]. apply flush_ZOK_le; [exact Z1| |exact Hle]. intros x [<-|[]]. exact Ht.
  - apply ZOK_fail; [now apply ZI_ev_drop|]. destruct e; cbn in *; tauto.
Qed.

Lemma op_spawn_ZOK w : ZI w -> ZOK (op_spawn beh w) (fun _ _ => True).
Proof.
  intros HZ. unfold op_spawn. eapply rbind_ZOK with (post1 := fun _ _ => True).
  - unfold reserve. repeat break_match; [apply ZOK_ok; [exact HZ|exact I]|apply ZOK_fail; [exact HZ|cbn; tauto]|apply ZOK_fail; [exact HZ|cbn; tauto]].
  - intros id w1 HZ1 _. eapply rbind_ZOK; [apply send_global_ZOK; exact HZ1|]. intros [] w2 HZ2 _. apply ZOK_ok; [exact HZ2|exact I].
Qed.
Lemma op_insert_ZOK e ktag w : ZI w -> ZOK (op_insert beh e ktag w) (fun _ _ => True).
Proof.
  intros HZ. unfold op_insert. destruct (new_cval w ktag) as [v w1] eqn:E.
  assert (HZ1 : ZI w1) by (assert (w1 = snd (new_cval w ktag)) by (now rewrite E); subst w1; unfold new_cval; destruct (ctag_zst ktag); exact HZ).
  eapply ZOK_weaken; [|apply send_to_ZOK; exact HZ1]. auto.
Qed.
Lemma op_send_ZOK gtag w : ZI w -> ZOK (op_send beh gtag w) (fun _ _ => True).
Proof. intros HZ. unfold op_send. cbn [fresh_serial]. eapply ZOK_weaken; [|apply send_global_ZOK; exact HZ]. auto. Qed.
Lemma op_send_to_ZOK e ttag w : ZI w -> ZOK (op_send_to beh e ttag w) (fun _ _ => True).
Proof. intros HZ. unfold op_send_to. cbn [fresh_serial]. eapply ZOK_weaken; [|apply send_to_ZOK; exact HZ]. auto. Qed.
End ZOps.

(* ---------- sorted sets ---------- *)
Lemma in_sinsert k l x : In x (sinsert k l) <-> x = k \/ In x l.
Proof.
  induction l as [|h t IH]; cbn [sinsert]; [cbn; intuition|].
  destruct (k <? h); [cbn; intuition|]. destruct (k =? h) eqn:E; [apply N.eqb_eq in E; subst; cbn; intuition|].
  cbn [In]. rewrite IH. intuition.
Qed.
Lemma smem_in k l : smem k l = true <-> In k l.
Proof.
  unfold smem. rewrite existsb_exists. split; [intros (x & A & B); apply N.eqb_eq in B; now subst|intros H; exists k; split; [exact H|apply N.eqb_refl]].
Qed.
Lemma smem_fold_sinsert {A} (f : A -> N) l : forall s i, smem i (fold_left (fun s x => sinsert (f x) s) l s) = true <-> smem i s = true \/ In i (map f l).
Proof.
  induction l as [|x l IH]; intros s i; cbn [fold_left map]; [cbn; intuition|].
  rewrite IH. rewrite !smem_in, in_sinsert. cbn [In]. intuition.
Qed.

(* ---------- the Sender part of a handler under construction ---------- *)
Definition CfInv3 (c : hconfig) (w : world) : Prop :=
  forall g t, In (RSender g t) (cf_params c) ->
    (forall tag i, In (tag, i) g -> smem i (cf_sg c) = true /\ greg w i /\ gtagged w i tag) /\
    (forall tag i, In (tag, i) t -> smem i (cf_st c) = true /\ treg w i).
Lemma CfInv3_le c w w' : ev_le w' w -> CfInv3 c w -> CfInv3 c w'.
Proof. intros Hle H g t Hin. destruct (H g t Hin) as [A B]. split; intros tag i X; [destruct (A tag i X) as (A1 & A2 & A3); split; [exact A1|split; [exact (ev_le_g _ _ Hle _ A2)|exact (ev_le_tg _ _ Hle _ _ A2 A3)]]|destruct (B tag i X) as [B1 B2]; split; [exact B1|exact (ev_le_t _ _ Hle _ B2)]]. Qed.
Lemma CfInv3_cfg0 w : CfInv3 cfg0 w. Proof. intros g t []. Qed.
Definition CfR (c : hconfig) (w : world) : Prop :=
  match cf_recv c with RcOk (RvGlobal ek) => sm_get ek (w_gev w) <> None | RcOk (RvTargeted ek) => sm_get ek (w_tev w) <> None | _ => True end.
Lemma CfR_le c w w' : ev_le w' w -> CfR c w -> CfR c w'.
Proof. intros [[_ [K1 K2]] _]. unfold CfR. destruct (cf_recv c) as [|[ek|ek]|]; auto. Qed.
Lemma CfR_cfg0 w : CfR cfg0 w. Proof. exact I. Qed.

Section ZOps2.
Variable beh : hinfo -> logent -> N -> script.

Lemma resolve_query_ZOK q : forall w, ZI w -> ZOK (resolve_query beh q w) (fun _ w' => ev_le w' w).
Proof.
  induction q as [c|c|qs IH|q IH|l r IHl IHr|l r IHl IHr|q IH|q IH|q IH|] using query_ind'; intros w HZ; cbn [resolve_query];
    try (eapply rbind_ZOK; [apply add_component_ZOK; exact HZ|intros ? w1 HZ1 Hle; now apply ZOK_ok]);
    try (eapply rbind_ZOK; [apply IH; exact HZ|intros ? w1 HZ1 Hle; now apply ZOK_ok]);
    try (eapply rbind_ZOK; [apply IHl; exact HZ|intros ? w1 HZ1 Hle1; eapply rbind_ZOK; [apply IHr; exact HZ1|intros ? w2 HZ2 Hle2; apply ZOK_ok; [exact HZ2|exact (ev_le_trans _ _ _ Hle2 Hle1)]]]);
    try (apply ZOK_ok; [exact HZ|apply ev_le_refl]).
  eapply rbind_ZOK with (post1 := fun _ w' => ev_le w' w); [|intros ? w1 HZ1 Hle; now apply ZOK_ok].
  revert w HZ. induction IH as [|x t Hx _ IHt]; intros w HZ; [apply ZOK_ok; [exact HZ|apply ev_le_refl]|].
  eapply rbind_ZOK; [apply Hx; exact HZ|]. intros x' w1 HZ1 Hle1. eapply rbind_ZOK; [apply IHt; exact HZ1|]. intros t' w2 HZ2 Hle2. apply ZOK_ok; [exact HZ2|exact (ev_le_trans _ _ _ Hle2 Hle1)].
Qed.

Definition reg_ok (w : world) (x : bool * N * N) : Prop := if fst (fst x) then treg w (snd x) else greg w (snd x) /\ gtagged w (snd x) (snd (fst x)).
Lemma register_set_ZOK evs : forall w, ZI w -> ZOK (register_set beh evs w) (fun r w' => ev_le w' w /\ forall x, In x r -> reg_ok w' x).
Proof.
  induction evs as [|[t tag] rest IH]; intros w HZ; cbn [register_set]; [apply ZOK_ok; [exact HZ|split; [apply ev_le_refl|intros x []]]|].
  eapply rbind_ZOK with (post1 := fun k w' => ev_le w' w /\ reg_ok w' (t, tag, fst k)).
  - destruct t; [eapply ZOK_weaken; [|apply add_targeted_event_ZOK; exact HZ]; intros k0 w0 _ (A & B & _); split; assumption|eapply ZOK_weaken; [|apply add_global_event_ZOK; exact HZ]; intros k0 w0 _ (A & B & _ & D); split; [exact A|split; assumption]].
  - intros k w1 HZ1 [Hle1 Hk]. eapply rbind_ZOK; [apply IH; exact HZ1|]. intros r w2 HZ2 [Hle2 Hr]. apply ZOK_ok; [exact HZ2|].
    split; [exact (ev_le_trans _ _ _ Hle2 Hle1)|]. intros x [<-|Hin]; [|now apply Hr]. unfold reg_ok in *. cbn [fst snd] in *. destruct t; [exact (ev_le_t _ _ Hle2 _ Hk)|destruct Hk as [Hk1 Hk2]; split; [exact (ev_le_g _ _ Hle2 _ Hk1)|exact (ev_le_tg _ _ Hle2 _ _ Hk1 Hk2)]].
Qed.

Lemma init_param_ZOK p c w : ZI w -> CfInv3 c w -> CfR c w -> ZOK (init_param beh p c w) (fun c' w' => ev_le w' w /\ CfInv3 c' w' /\ CfR c' w').
Proof.
  intros HZ HC HR. destruct p as [tag m|tag m q|k q|evs]; cbn [init_param].
  - eapply rbind_ZOK; [apply add_global_event_ZOK; exact HZ|]. intros k w1 HZ1 [Hle [_ [Hk _]]]. apply ZOK_ok; [exact HZ1|]. split; [exact Hle|split].
    + intros g t Hin. cbn [cf_params cf_sg cf_st] in *. apply in_app_or in Hin as [Hin|[X|[]]]; [|discriminate]. exact (CfInv3_le c w w1 Hle HC g t Hin).
    + unfold CfR, cfg_set_recv. cbn [cf_recv]. destruct (cf_recv c) as [|old|]; [exact Hk| |exact I]. destruct (recvid_eqb old (RvGlobal k)); [exact Hk|exact I].
  - eapply rbind_ZOK; [apply add_targeted_event_ZOK; exact HZ|]. intros k w1 HZ1 [Hle1 [_ Hk]].
    eapply rbind_ZOK; [apply resolve_query_ZOK; exact HZ1|]. intros q' w2 HZ2 Hle2. apply ZOK_ok; [exact HZ2|].
    assert (Hle : ev_le w2 w) by exact (ev_le_trans _ _ _ Hle2 Hle1). split; [exact Hle|split].
    + intros g t Hin. cbn [cf_params cf_sg cf_st] in *. apply in_app_or in Hin as [Hin|[X|[]]]; [|discriminate]. exact (CfInv3_le c w w2 Hle HC g t Hin).
    + assert (Hk2 : sm_get k (w_tev w2) <> None) by exact (ev_le_kt _ _ Hle2 k Hk).
      unfold CfR, cfg_set_recv. cbn [cf_recv]. destruct (cf_recv c) as [|old|]; [exact Hk2| |exact I]. destruct (recvid_eqb old (RvTargeted k)); [exact Hk2|exact I].
  - eapply rbind_ZOK; [apply resolve_query_ZOK; exact HZ|]. intros q' w1 HZ1 Hle. apply ZOK_ok; [exact HZ1|]. split; [exact Hle|split; [|exact (CfR_le c w w1 Hle HR)]].
    intros g t Hin. cbn [cf_params cf_sg cf_st] in *. apply in_app_or in Hin as [Hin|[X|[]]]; [|discriminate]. exact (CfInv3_le c w w1 Hle HC g t Hin).
  - eapply rbind_ZOK; [apply register_set_ZOK; exact HZ|]. intros r w1 HZ1 [Hle Hr]. apply ZOK_ok; [exact HZ1|]. split; [exact Hle|split; [|exact (CfR_le c w w1 Hle HR)]].
    intros g t Hin. cbn [cf_params cf_sg cf_st] in *. apply in_app_or in Hin as [Hin|[X|[]]].
    + destruct (CfInv3_le c w w1 Hle HC g t Hin) as [A B]. split; intros tag i X; [destruct (A tag i X) as [A1 A2]|destruct (B tag i X) as [A1 A2]]; (split; [|exact A2]); apply smem_fold_sinsert; now left.
    + inversion X; subst g t. clear X. split; intros tag i X.
      * apply in_flat_map in X as ([[tt tg] idx] & Hx & Hi). cbn [fst snd] in Hi. destruct tt; [destruct Hi|]. destruct Hi as [Hi|[]]. inversion Hi; subst tg idx. split.
        -- apply smem_fold_sinsert. right. apply in_map_iff. exists (tag, i). split; [reflexivity|]. apply in_flat_map. exists (false, tag, i). split; [exact Hx|now left].
        -- exact (Hr _ Hx).
      * apply in_flat_map in X as ([[tt tg] idx] & Hx & Hi). cbn [fst snd] in Hi. destruct tt; [|destruct Hi]. destruct Hi as [Hi|[]]. inversion Hi; subst tg idx. split.
        -- apply smem_fold_sinsert. right. apply in_map_iff. exists (tag, i). split; [reflexivity|]. apply in_flat_map. exists (true, tag, i). split; [exact Hx|now left].
        -- exact (Hr _ Hx).
Qed.

Lemma init_params_ZOK ps : forall c w, ZI w -> CfInv3 c w -> CfR c w -> ZOK (init_params beh ps c w) (fun c' w' => ev_le w' w /\ CfInv3 c' w' /\ CfR c' w').
Proof.
  induction ps as [|p t IH]; intros c w HZ HC HR; cbn [init_params]; [apply ZOK_ok; [exact HZ|split; [apply ev_le_refl|split; assumption]]|].
  eapply rbind_ZOK; [apply init_param_ZOK; [exact HZ|exact HC|exact HR]|]. intros c1 w1 HZ1 (Hle1 & HC1 & HR1).
  eapply ZOK_weaken; [|apply IH; [exact HZ1|exact HC1|exact HR1]]. intros c2 w2 _ (Hle2 & HC2 & HR2). split; [exact (ev_le_trans _ _ _ Hle2 Hle1)|split; assumption].
Qed.
End ZOps2.

(* ---------- add_handler ---------- *)
Definition new_hinfo (w1 : world) (sh : hshape) (c : hconfig) (rv : recvid) (acc : access) (k : key) : hinfo :=
  mkH k (w_hctr w1) (sh_tid sh) rv (match acc with AcReadWrite => true | _ => false end)
      (cf_filter c) (cf_sg c) (cf_st c) (fold_left ca_or (cf_cas c) ca_false) (cf_refs c) (sh_prio sh) (cf_params c) (sh_script sh).
Definition new_glists (w1 : world) (sh : hshape) (rv : recvid) (k : key) : list (hlist key) :=
  match rv with
  | RvGlobal ek =>
      let gl0 := nrepeat_to (w_glists w1) (N.to_nat (fst ek) + 1) hl_new in
      match nget gl0 (fst ek) with
      | Some l => nset gl0 (fst ek) (hl_insert l k (sh_prio sh))
      | None => gl0 end
  | RvTargeted _ => w_glists w1 end.
Definition new_hworld (w1 : world) (sh : hshape) (rv : recvid) (k : key) (hs : smap hinfo) : world :=
  archs_register_handler
    (set_hreg w1 hs (new_glists w1 sh rv k) (match sh_tid sh with Some t => ainsert t k (w_hby w1) | None => w_hby w1 end)
              (w_hctr w1 + 1) (w_horder w1 ++ [(w_hctr w1, k)])) k.

Lemma registries_archs_register_handler w hk : registries (archs_register_handler w hk) = registries w.
Proof.
  rewrite archs_register_handler_unfold. apply (fold_left_pres registries). intros w0 [ai x].
  change (arh_step hk w0 (ai, x)) with (match slab_get (w_archs w0) ai, sm_get hk (w_hs w0) with
      | Some a, Some h => let '(a', h') := register_handler ai a h in set_hs (set_archs w0 (slab_set (w_archs w0) ai a')) (upd_by_key (w_hs w0) hk (fun _ => h'))
      | _, _ => w0 end).
  destruct (slab_get (w_archs w0) ai); [|reflexivity]. destruct (sm_get hk (w_hs w0)); [|reflexivity]. destruct (register_handler _ _ _). reflexivity.
Qed.

Lemma add_handler_entry_DI w1 sh c rv acc k hs : DI w1 -> CfInv c ->
  insert_with (new_hinfo w1 sh c rv acc) (w_hs w1) = Some (k, hs) -> DI (new_hworld w1 sh rv k hs).
Proof.
  intros HD1 HC Ei. unfold new_hworld, new_glists. unfold new_hinfo in Ei.
  destruct (DI_parts _ HD1) as (HF1 & HH1 & HO1 & HX1). destruct HD1 as [HB1 _].
  split; [split|].
  - destruct (AI_parts _ (proj1 HB1)) as ([HR1 HK1] & _ & HG1).
    match goal with |- AI (archs_register_handler ?w2 k) => destruct (archs_register_handler_structure w2 k) as [Hs Hg]; split; [split; [split|]|] end.
    + match goal with |- RInv (archs_register_handler ?w2 k) => apply (RInv_structure w2); [exact Hs|exact Hg|exact HR1] end.
    + match goal with |- KInv (archs_register_handler ?w2 k) => apply (KInv_kreg w2); [apply kreg_archs_register_handler|exact (proj1 (structure_cshape _ _ Hs))|exact HK1] end.
    + eapply (add_handler_entry_HL w1 _ k hs rv (sh_prio sh) (cf_filter c)); [exact HH1|exact Ei|]. intros k0. repeat split.
    + unfold GInv in *. rewrite Hg. exact HG1.
  - eapply (add_handler_entry_O w1 _ k hs rv (sh_prio sh) (cf_filter c)); [exact HH1|exact HO1|exact Ei|]. intros k0. repeat split.
  - eapply (add_handler_entry_XI w1 _ k hs); [exact (proj1 HH1)|exact HX1|exact Ei|reflexivity|]. cbn [h_params h_archfilter].
    intros p q cache Hin Hq. destruct (CfInv_pinv c (mkA 0 [] [] 0 0 [] [] [] []) q p cache HC Hin Hq) as [A _]. split; [exact A|].
    intros a Hm. exact (proj2 (CfInv_pinv c a q p cache HC Hin Hq) Hm).
Qed.

Lemma add_handler_entry_ZI w1 sh c rv acc k hs : ZI w1 -> CfInv c -> CfInv2 c -> CfInv3 c w1 -> CfR c w1 -> cf_recv c = RcOk rv ->
  insert_with (new_hinfo w1 sh c rv acc) (w_hs w1) = Some (k, hs) -> ZI (new_hworld w1 sh rv k hs).
Proof.
  intros Z1 HC HC2 HC3 HCR Erv Ei.
  destruct Z1 as [[HD1 HS1] (HB1 & HG1 & HN1 & HR1)].
  destruct (DI_parts _ HD1) as (_ & ((S & _) & _) & _ & _).
  set (w2 := set_hreg w1 hs (new_glists w1 sh rv k) (match sh_tid sh with Some t => ainsert t k (w_hby w1) | None => w_hby w1 end) (w_hctr w1 + 1) (w_horder w1 ++ [(w_hctr w1, k)])).
  assert (Hgl : forall i, nget (w_glists w1) i <> None -> nget (new_glists w1 sh rv k) i <> None).
  { intros i Hi. unfold new_glists. destruct rv as [ek|ek]; [|exact Hi]. cbn zeta. destruct (nget (nrepeat_to _ _ _) (fst ek)); [apply nget_nset_mono|]; now apply nget_nrepeat_mono. }
  assert (Hle : ev_le w2 w1) by (split; [split; split; [intros i [A B]; split; [exact A|now apply Hgl]|intros i X; exact X|intros k0 X; exact X|intros k0 X; exact X]|intros i x X; exact X]).
  assert (HN2 : NInv w2).
  { intros hk h Hl. unfold hlive, w2 in Hl. cbn [w_hs set_hreg] in Hl. destruct (key_eq_dec hk k) as [->|Hne].
    - rewrite (insert_get_new _ _ _ _ S Ei) in Hl. inversion Hl; subst h. intros g t Hin. unfold pss, new_hinfo in Hin. cbn [h_params] in Hin.
      apply in_map_iff in Hin as (p & Hp & Hin). destruct p; try discriminate. cbn [psend] in Hp. inversion Hp; subst. destruct (HC3 g t Hin) as [A B].
      unfold new_hinfo. cbn [h_sent_g h_sent_t]. split; intros tag i X; [destruct (A tag i X) as (A1 & A2 & A3); split; [exact A1|split; [exact (ev_le_g _ _ Hle _ A2)|exact (ev_le_tg _ _ Hle _ _ A2 A3)]]|destruct (B tag i X) as [A1 A2]; split; [exact A1|exact (ev_le_t _ _ Hle _ A2)]].
    - rewrite (insert_get_other _ _ _ _ hk S Ei Hne) in Hl. eapply sender_ok_view; [reflexivity|exact Hle|exact (HN1 hk h Hl)]. }
  assert (HZ3 : ZI (new_hworld w1 sh rv k hs)).
  { unfold new_hworld. fold w2. pose proof (hs_le_hv3 _ _ (hv3_archs_register_handler w2 k)) as Hh3.
    split; [split; [exact (add_handler_entry_DI w1 sh c rv acc k hs HD1 HC Ei)|]|].
    - eapply SInv_le; [exact Hh3|]. intros hk h Hl. unfold hlive, w2 in Hl. cbn [w_hs set_hreg] in Hl.
      destruct (key_eq_dec hk k) as [->|Hne].
      + rewrite (insert_get_new _ _ _ _ S Ei) in Hl. inversion Hl; subst h. destruct HC2 as [HA HBc]. split; unfold new_hinfo; cbn [pks h_params h_filter h_recv].
        * exact HA.
        * intros ek -> q Hin. specialize (HBc (ex_intro _ q Hin)). rewrite Erv in HBc. exact HBc.
      + rewrite (insert_get_other _ _ _ _ hk S Ei Hne) in Hl. exact (HS1 hk h Hl).
    - eapply YI_frame; [apply registries_archs_register_handler|exact Hh3|]. split; [exact HB1|split; [|split; [exact HN2|]]].
      + intros i Hi. unfold w2. cbn [w_glists set_hreg]. apply Hgl. now apply HG1.
      + intros hk h Hl. unfold hlive, w2 in Hl. cbn [w_hs set_hreg] in Hl. destruct (key_eq_dec hk k) as [->|Hne].
        * rewrite (insert_get_new _ _ _ _ S Ei) in Hl. inversion Hl; subst h. unfold recv_ok, new_hinfo. cbn [h_recv]. unfold CfR in HCR. rewrite Erv in HCR. exact HCR.
        * rewrite (insert_get_other _ _ _ _ hk S Ei Hne) in Hl. exact (HR1 hk h Hl). }
  exact HZ3.
Qed.

Section ZOps3.
Variable beh : hinfo -> logent -> N -> script.

Theorem add_handler_ZOK sh w : ZI w -> ZOK (add_handler beh sh w) (fun _ _ => True).
Proof.
  intros HZ. unfold add_handler.
  destruct (match sh_tid sh with Some t => alookup t (w_hby w) | None => None end); [apply ZOK_ok; [exact HZ|exact I]|].
  pose proof (init_params_CfInv beh (sh_params sh) cfg0 w CfInv_cfg0) as HC. pose proof (init_params_CfInv2 beh (sh_params sh) cfg0 w CfInv2_cfg0) as HC2.
  destruct (init_params_ZOK beh (sh_params sh) cfg0 w HZ (CfInv3_cfg0 w) (CfR_cfg0 w)) as (Z1 & N1 & P1).
  destruct (init_params beh (sh_params sh) cfg0 w) as [c w1|f w1]; cbn [rbind res_world] in *; [|split; [exact Z1|split; [exact N1|exact I]]].
  destruct P1 as (_ & HC3 & HCR).
  destruct (cf_recv c) as [|rv|] eqn:Erv; try (apply ZOK_fail; [exact Z1|cbn; tauto]). destruct (cf_access c) as [acc|]; [|apply ZOK_fail; [exact Z1|cbn; tauto]].
  destruct (handler_conflicts (cf_cas c)); [|apply ZOK_fail; [exact Z1|cbn; tauto]]. cbn zeta.
  change (insert_with _ (w_hs w1)) with (insert_with (new_hinfo w1 sh c rv acc) (w_hs w1)).
  destruct (insert_with (new_hinfo w1 sh c rv acc) (w_hs w1)) as [[k hs]|] eqn:Ei; [|apply ZOK_fail; [exact Z1|cbn; tauto]].
  match goal with |- context [archs_register_handler ?w2 k] => change (archs_register_handler w2 k) with (new_hworld w1 sh rv k hs) end.
  pose proof (add_handler_entry_ZI w1 sh c rv acc k hs Z1 HC HC2 HC3 HCR Erv Ei) as HZ3.
  eapply rbind_ZOK; [apply send_global_ZOK; exact HZ3|]. intros [] w4 HZ4 _. apply ZOK_ok; [exact HZ4|exact I].
Qed.
End ZOps3.

(* ---------- removal ---------- *)
Lemma YI_le w' w : w_gev w' = w_gev w -> w_gby w' = w_gby w -> w_tev w' = w_tev w -> w_tby w' = w_tby w ->
  (forall i, nget (w_glists w) i <> None -> nget (w_glists w') i <> None) -> hs_le w' w -> YI w -> YI w'.
Proof.
  intros E1 E2 E3 E4 Hg Hh (HB & HG & HN & HR).
  assert (He : ev_le w' w) by (split; [split; split; [intros i [A B]; split; [now rewrite E1|now apply Hg]|intros i X; unfold treg in *; now rewrite E3|intros k0 X; now rewrite E1|intros k0 X; now rewrite E3]|intros i x X; now rewrite E1]).
  split; [|split; [|split]].
  - unfold ByInv. rewrite E1, E2, E3, E4. exact HB.
  - intros i Hi. rewrite E1 in Hi. apply Hg. now apply HG.
  - eapply NInv_le; eauto.
  - eapply RcvI_le; eauto.
Qed.

Lemma registries_rc_step cidx ctag w ai : registries (rc_step cidx ctag w ai) = registries w.
Proof.
  unfold rc_step. destruct (slab_get (w_archs w) ai) as [a|]; [|reflexivity]. cbn zeta.
  rewrite (fold_left_pres registries); [rewrite (fold_left_pres registries); [reflexivity|]|].
  - intros w' [e vals]. apply (fold_left_pres registries). intros w'' [c v]. unfold drop_cval. now destruct (ctag_has_drop _).
  - intros w' [e vals]. now destruct (sm_remove e (w_ents w')) as [[? ?]|].
Qed.
Lemma registries_archs_remove_component cidx ctag w l : registries (archs_remove_component w cidx ctag l) = registries w.
Proof.
  rewrite archs_remove_component_unfold. change (registries (strip cidx (fold_left (rc_step cidx ctag) l w))) with (registries (fold_left (rc_step cidx ctag) l w)).
  apply (fold_left_pres registries). intros w0 ai. apply registries_rc_step.
Qed.

Lemma in_handlers_in_order w hk h : HInv w -> hlive w hk h -> In h (handlers_in_order w).
Proof.
  intros (_ & H1 & _) Hl. destruct (H1 hk h Hl) as (_ & Hin & _). unfold handlers_in_order. apply in_flat_map. exists (h_order h, hk). split; [exact Hin|].
  cbn [snd]. unfold hlive in Hl. rewrite Hl. now left.
Qed.

Section ZOps4.
Variable beh : hinfo -> logent -> N -> script.

Theorem remove_handler_ZOK k w : ZI w -> ZOK (remove_handler beh k w) (fun _ w' => sm_get k (w_hs w') = None).
Proof.
  intros HZ. pose proof (remove_handler_DI beh k w (proj1 (proj1 HZ))) as HDf. pose proof (hs_le_remove_handler beh k w) as Hlef.
  unfold remove_handler in *. destruct (sm_get k (w_hs w)) as [h0|] eqn:Eg; [|apply ZOK_ok; [exact HZ|exact Eg]].
  destruct (send_global_ZOK beh G_RMH (mkEv 0 0 k) w HZ) as (Z1 & N1 & _).
  destruct (send_global beh RFUEL G_RMH (mkEv 0 0 k) w) as [[] w1|f w1]; cbn [rbind res_world] in *; [|split; [exact Z1|split; [exact N1|exact I]]].
  unfold handlers_remove in *. destruct (sm_remove k (w_hs w1)) as [[h1 hs]|] eqn:Er; [|apply ZOK_fail; [exact Z1|cbn; tauto]].
  cbn [res_world] in *. destruct Z1 as [[HD1 HS1] HY1]. destruct (DI_parts _ HD1) as (_ & ((S & _) & _) & _ & _).
  match goal with |- ZOK (ROk true ?wf) _ => set (w3 := wf) in * end.
  assert (Hle3 : hs_le w3 w1).
  { intros hk h' Hl. unfold hlive in *. change (w_hs w3) with hs in Hl. exists h'. split; [eapply sm_remove_le; eauto|reflexivity]. }
  apply ZOK_ok; [|change (w_hs w3) with hs; eapply remove_get_gone; eauto].
  split; [split; [exact HDf|eapply SInv_le; eauto]|].
  apply (YI_le w3 w1); try reflexivity; [|exact Hle3|exact HY1].
  intros i Hi. change (w_glists w3) with (match h_recv h1 with
                | RvGlobal ek => match nget (w_glists w1) (fst ek) with
                                 | Some l => nset (w_glists w1) (fst ek) (hl_remove key_eqb l k)
                                 | None => w_glists w1 end
                | RvTargeted _ => w_glists w1 end).
  destruct (h_recv h1) as [ek|ek]; [|exact Hi]. destruct (nget (w_glists w1) (fst ek)); [now apply nget_nset_mono|exact Hi].
Qed.

Lemma remove_handlers_ZOK ks : forall w, ZI w -> ZOK (remove_handlers beh ks w) (fun _ w' => forall k, In k ks -> sm_get k (w_hs w') = None).
Proof.
  induction ks as [|k t IH]; intros w HZ; cbn [remove_handlers]; [apply ZOK_ok; [exact HZ|intros k []]|].
  eapply rbind_ZOK; [apply remove_handler_ZOK; exact HZ|]. intros b w1 HZ1 Hk. cbn beta in Hk.
  pose proof (hs_le_remove_handlers beh t w1) as Hle. destruct (IH w1 HZ1) as (Z2 & N2 & P2).
  split; [exact Z2|split; [exact N2|]]. destruct (remove_handlers beh t w1) as [[] w2|f w2]; [|exact I]. cbn [res_world] in *.
  intros k0 [<-|Hin]; [|now apply P2]. destruct (sm_get k (w_hs w2)) as [h|] eqn:E; [|reflexivity].
  destruct (Hle k h E) as (h' & X & _). unfold hlive in X. congruence.
Qed.
End ZOps4.

Lemma by_remove (by_ : list (N * key)) (ev m : smap einfo) k info : SmInv ev -> sm_remove k ev = Some (info, m) ->
  (forall t k0, alookup t by_ = Some k0 -> exists i0, sm_get k0 ev = Some i0 /\ e_tag i0 = t) ->
  forall t k0, alookup t (aremove (e_tag info) by_) = Some k0 -> exists i0, sm_get k0 m = Some i0 /\ e_tag i0 = t.
Proof.
  intros S Er H t k0 Hl. destruct (N.eq_dec t (e_tag info)) as [->|Hne]; [rewrite RemoveComp.alookup_aremove_eq in Hl; discriminate|].
  rewrite alookup_aremove_neq in Hl by exact Hne. destruct (H t k0 Hl) as (i0 & A & B). exists i0. split; [|exact B].
  rewrite (remove_get_other k ev info m k0 S Er); [exact A|]. intros ->. rewrite (remove_get_self _ _ _ _ Er) in A. inversion A; subst. congruence.
Qed.
Lemma gbi_remove_mono {V} k (m : smap V) v m' i : sm_remove k m = Some (v, m') -> get_by_index m' i <> None -> i <> fst k /\ get_by_index m i <> None.
Proof.
  intros Er H. destruct (N.eq_dec i (fst k)) as [->|Hne]; [rewrite (gbi_remove_self _ _ _ _ Er) in H; tauto|]. split; [exact Hne|]. now rewrite <- (gbi_remove_other _ _ _ _ i Er Hne).
Qed.
Lemma gbi_remove_keep {V} k (m : smap V) v m' i : sm_remove k m = Some (v, m') -> i <> fst k -> get_by_index m i <> None -> get_by_index m' i <> None.
Proof. intros Er Hne H. now rewrite (gbi_remove_other _ _ _ _ i Er Hne). Qed.

Section ZOps5.
Variable beh : hinfo -> logent -> N -> script.

(* after the handlers that send or receive an event are removed, no live handler can push it *)
Lemma survivors w1 w2 (P : hinfo -> bool) : HInv w1 -> hs_le w2 w1 ->
  (forall k, In k (map h_key (filter P (handlers_in_order w1))) -> sm_get k (w_hs w2) = None) ->
  (forall h h', hstat h' = hstat h -> P h' = P h) ->
  forall hk h, hlive w2 hk h -> P h = false.
Proof.
  intros HH Hle Hgone HP hk h Hl. destruct (Hle hk h Hl) as (h1 & Hl1 & Hv). assert (Es : hstat h = hstat h1) by (unfold hview3 in Hv; congruence).
  destruct (P h) eqn:E; [|reflexivity]. exfalso. rewrite (HP h1 h Es) in E.
  assert (Hk : h_key h1 = hk) by (destruct HH as (_ & H1 & _); exact (proj1 (H1 hk h1 Hl1))).
  assert (X : sm_get hk (w_hs w2) = None).
  { apply Hgone. apply in_map_iff. exists h1. split; [exact Hk|]. apply filter_In. split; [eapply in_handlers_in_order; eauto|exact E]. }
  unfold hlive in Hl. congruence.
Qed.

Theorem remove_global_event_ZOK k w : ZI w -> ZOK (remove_global_event beh k w) (fun b w' => b = true ->
    sm_get k (w_gev w') = None /\ forall hk h, hlive w' hk h -> recvid_eqb (h_recv h) (RvGlobal k) || smem (fst k) (h_sent_g h) = false).
Proof.
  intros HZ. pose proof (remove_global_event_DI beh k w (proj1 (proj1 HZ))) as HDf.
  unfold remove_global_event in *. destruct (sm_get k (w_gev w)) as [i0|] eqn:Eg; [|apply ZOK_ok; [exact HZ|discriminate]].
  destruct (send_global_ZOK beh G_RMGE (mkEv 0 0 k) w HZ) as (Z1 & N1 & _).
  destruct (send_global beh RFUEL G_RMGE (mkEv 0 0 k) w) as [[] w1|f w1]; cbn [rbind res_world] in *; [|split; [exact Z1|split; [exact N1|exact I]]].
  set (P := fun h => recvid_eqb (h_recv h) (RvGlobal k) || smem (fst k) (h_sent_g h)) in *.
  pose proof (hs_le_remove_handlers beh (map h_key (filter P (handlers_in_order w1))) w1) as Hle.
  destruct (remove_handlers_ZOK beh (map h_key (filter P (handlers_in_order w1))) w1 Z1) as (Z2 & N2 & P2).
  destruct (remove_handlers beh (map h_key (filter P (handlers_in_order w1))) w1) as [[] w2|f w2]; cbn [rbind res_world] in *; [|split; [exact Z2|split; [exact N2|exact I]]].
  destruct (sm_remove k (w_gev w2)) as [[info m]|] eqn:Er; [|apply ZOK_fail; [exact Z2|cbn; tauto]]. cbn [res_world] in *.
  destruct Z2 as [[HD2 HS2] (HB2 & HG2 & HN2 & HR2)]. destruct Z1 as [[HD1 _] _].
  assert (SG : SmInv (w_gev w2)) by (destruct HD2 as [[[_ X] _] _]; exact X).
  assert (HH1 : HInv w1) by (destruct (DI_parts _ HD1) as (_ & (X & _) & _); exact X).
  assert (HPs : forall h1 h2, hstat h2 = hstat h1 -> P h2 = P h1) by (intros h1 h2 Es; unfold P; now rewrite (f_equal h_recv Es : h_recv h2 = h_recv h1), (f_equal h_sent_g Es : h_sent_g h2 = h_sent_g h1)).
  pose proof (survivors w1 w2 P HH1 Hle P2 HPs) as Hsurv.
  apply ZOK_ok; [|intros _; split; [cbn [w_gev set_gev]; eapply remove_get_gone; eauto|intros hk h Hl; exact (Hsurv hk h Hl)]].
  split; [split; [exact HDf|eapply SInv_le; [|exact HS2]; now apply hs_le_hs]|]. split; [|split; [|split]].
  4:{ intros hk h Hl. change (hlive w2 hk h) in Hl. pose proof (HR2 hk h Hl) as Hr. pose proof (Hsurv hk h Hl) as Hp. unfold recv_ok in *.
      destruct (h_recv h) as [ek|ek] eqn:Erv; [|exact Hr]. cbn [w_gev set_gev]. rewrite (remove_get_other k (w_gev w2) info m ek SG Er); [exact Hr|].
      intros ->. unfold P in Hp. rewrite Erv in Hp. cbn [recvid_eqb] in Hp. rewrite (proj2 (key_eqb_spec k k) eq_refl) in Hp. discriminate. }
  - destruct HB2 as [B1 B2]. split; [|exact B2]. cbn [w_gev w_gby set_gev]. eapply by_remove; eauto.
  - intros i Hi. cbn [w_gev w_glists set_gev] in *. destruct (gbi_remove_mono _ _ _ _ _ Er Hi) as [_ X]. now apply HG2.
  - intros hk h Hl. change (hlive w2 hk h) in Hl. intros g t Hin. destruct (HN2 hk h Hl g t Hin) as [A B]. split; [|exact B].
    intros tag i X. destruct (A tag i X) as [A1 [[A2 A3] A4]].
    assert (Hne : i <> fst k).
    { intros ->. assert (Hp : P h = false) by exact (Hsurv hk h Hl). unfold P in Hp. rewrite A1, orb_true_r in Hp. discriminate. }
    split; [exact A1|]. split; [split; [|exact A3]|]; cbn [w_gev set_gev].
    + eapply gbi_remove_keep; [exact Er|exact Hne|exact A2].
    + intros k1 info1 Hg1. cbn [w_gev set_gev] in Hg1. rewrite (gbi_remove_other _ _ _ _ i Er Hne) in Hg1. exact (A4 _ _ Hg1).
Qed.

Theorem remove_targeted_event_ZOK k w : ZI w -> ZOK (remove_targeted_event beh k w) (fun b w' => b = true ->
    sm_get k (w_tev w') = None /\ forall hk h, hlive w' hk h -> recvid_eqb (h_recv h) (RvTargeted k) || smem (fst k) (h_sent_t h) = false).
Proof.
  intros HZ. pose proof (remove_targeted_event_DI beh k w (proj1 (proj1 HZ))) as HDf.
  unfold remove_targeted_event in *. destruct (sm_get k (w_tev w)) as [i0|] eqn:Eg; [|apply ZOK_ok; [exact HZ|discriminate]].
  destruct (send_global_ZOK beh G_RMTE (mkEv 0 0 k) w HZ) as (Z1 & N1 & _).
  destruct (send_global beh RFUEL G_RMTE (mkEv 0 0 k) w) as [[] w1|f w1]; cbn [rbind res_world] in *; [|split; [exact Z1|split; [exact N1|exact I]]].
  set (P := fun h => recvid_eqb (h_recv h) (RvTargeted k) || smem (fst k) (h_sent_t h)) in *.
  pose proof (hs_le_remove_handlers beh (map h_key (filter P (handlers_in_order w1))) w1) as Hle.
  destruct (remove_handlers_ZOK beh (map h_key (filter P (handlers_in_order w1))) w1 Z1) as (Z2 & N2 & P2).
  destruct (remove_handlers beh (map h_key (filter P (handlers_in_order w1))) w1) as [[] w2|f w2]; cbn [rbind res_world] in *; [|split; [exact Z2|split; [exact N2|exact I]]].
  destruct (sm_remove k (w_tev w2)) as [[info m]|] eqn:Er; [|apply ZOK_fail; [exact Z2|cbn; tauto]]. cbn [res_world] in *.
  destruct Z2 as [[HD2 HS2] (HB2 & HG2 & HN2 & HR2)]. destruct Z1 as [[HD1 _] _].
  assert (ST : SmInv (w_tev w2)) by (destruct (DI_parts _ HD2) as ([_ (_ & X & _)] & _); exact X).
  assert (HH1 : HInv w1) by (destruct (DI_parts _ HD1) as (_ & (X & _) & _); exact X).
  assert (HPs : forall h1 h2, hstat h2 = hstat h1 -> P h2 = P h1) by (intros h1 h2 Es; unfold P; now rewrite (f_equal h_recv Es : h_recv h2 = h_recv h1), (f_equal h_sent_t Es : h_sent_t h2 = h_sent_t h1)).
  pose proof (survivors w1 w2 P HH1 Hle P2 HPs) as Hsurv.
  match goal with |- ZOK (ROk true ?wf) _ => set (w4 := wf) in * end.
  assert (E1 : w_gev w4 = w_gev w2 /\ w_gby w4 = w_gby w2 /\ w_glists w4 = w_glists w2 /\ w_hs w4 = w_hs w2 /\ w_tev w4 = m /\ w_tby w4 = aremove (e_tag info) (w_tby w2))
    by (unfold w4; destruct (e_kind info); repeat split).
  destruct E1 as (E1 & E2 & E3 & E4 & E5 & E6).
  apply ZOK_ok; [|intros _; split; [rewrite E5; eapply remove_get_gone; eauto|intros hk h Hl; unfold hlive in Hl; rewrite E4 in Hl; exact (Hsurv hk h Hl)]].
  split; [split; [exact HDf|eapply SInv_le; [|exact HS2]; now apply hs_le_hs]|]. split; [|split; [|split]].
  4:{ intros hk h Hl. unfold hlive in Hl. rewrite E4 in Hl. change (hlive w2 hk h) in Hl. pose proof (HR2 hk h Hl) as Hr. pose proof (Hsurv hk h Hl) as Hp. unfold recv_ok in *.
      destruct (h_recv h) as [ek|ek] eqn:Erv; [now rewrite E1|]. rewrite E5. rewrite (remove_get_other k (w_tev w2) info m ek ST Er); [exact Hr|].
      intros ->. unfold P in Hp. rewrite Erv in Hp. cbn [recvid_eqb] in Hp. rewrite (proj2 (key_eqb_spec k k) eq_refl) in Hp. discriminate. }
  - destruct HB2 as [B1 B2]. split; [rewrite E1, E2; exact B1|]. rewrite E5, E6. eapply by_remove; eauto.
  - unfold GlInv. rewrite E1, E3. exact HG2.
  - intros hk h Hl. unfold hlive in Hl. rewrite E4 in Hl. change (hlive w2 hk h) in Hl. intros g t Hin. destruct (HN2 hk h Hl g t Hin) as [A B]. split.
    + intros tag i X. destruct (A tag i X) as [A1 [[A2 A3] A4]]. split; [exact A1|]. split; [split; [now rewrite E1|now rewrite E3]|]. unfold gtagged. now rewrite E1.
    + intros tag i X. destruct (B tag i X) as [A1 A2]. split; [exact A1|]. unfold treg in *. rewrite E5.
      eapply gbi_remove_keep; [exact Er| |exact A2]. intros ->.
      assert (Hp : P h = false) by exact (Hsurv hk h Hl).
      unfold P in Hp. rewrite A1, orb_true_r in Hp. discriminate.
Qed.

Lemma remove_tevents_ZOK ks : forall w, ZI w -> ZOK (remove_tevents beh ks w) (fun _ _ => True).
Proof.
  induction ks as [|k t IH]; intros w HZ; cbn [remove_tevents]; [apply ZOK_ok; [exact HZ|exact I]|].
  eapply rbind_ZOK; [apply remove_targeted_event_ZOK; exact HZ|]. intros b w1 HZ1 _. now apply IH.
Qed.
End ZOps5.

Section ZOps6.
Variable beh : hinfo -> logent -> N -> script.

Theorem remove_component_ZOK k w : ZI w -> ZOK (remove_component beh k w) (fun _ _ => True).
Proof.
  intros HZ. pose proof (remove_component_DI beh k w (proj1 (proj1 HZ))) as HDf.
  unfold remove_component in *. destruct (sm_get k (w_comps w)) as [c0|]; [|apply ZOK_ok; [exact HZ|exact I]].
  destruct (send_global_ZOK beh G_RMC (mkEv 0 0 k) w HZ) as (Z1 & N1 & _).
  destruct (send_global beh RFUEL G_RMC (mkEv 0 0 k) w) as [[] w1|f w1]; cbn [rbind res_world] in *; [|split; [exact Z1|split; [exact N1|exact I]]].
  destruct (add_targeted_event_ZOK beh T_DESPAWN w1 Z1) as (Z2 & N2 & P2).
  destruct (add_targeted_event beh T_DESPAWN w1) as [dk w2|f w2]; cbn [rbind res_world] in *; [|split; [exact Z2|split; [exact N2|exact I]]].
  destruct P2 as [_ [Hdk _]].
  match goal with |- context [flush beh ?q0 w2] => set (q := q0) in * end.
  assert (Hq : forall x, In x q -> item_ok w2 x).
  { intros x Hin. unfold q in Hin. apply in_flat_map in Hin as ([ai a] & _ & Hin). destruct (arch_has a (fst k)); [|destruct Hin].
    apply in_map_iff in Hin as ([e vals] & <- & _). exact Hdk. }
  destruct (flush_ZOK beh q w2 Z2 Hq) as (Z3 & N3 & _).
  destruct (flush beh q w2) as [[] w3|f w3]; cbn [rbind res_world] in *; [|split; [exact Z3|split; [exact N3|exact I]]].
  match goal with |- context [remove_handlers beh ?l w3] => set (hsl := l) in * end.
  destruct (remove_handlers_ZOK beh hsl w3 Z3) as (Z4 & N4 & _).
  destruct (remove_handlers beh hsl w3) as [[] w4|f w4]; cbn [rbind res_world] in *; [|split; [exact Z4|split; [exact N4|exact I]]].
  destruct (sm_get k (w_comps w4)) as [ci|]; [|apply ZOK_fail; [exact Z4|cbn; tauto]].
  destruct (remove_tevents_ZOK beh (c_ins ci ++ c_rem ci) w4 Z4) as (Z5 & N5 & _).
  destruct (remove_tevents beh (c_ins ci ++ c_rem ci) w4) as [[] w5|f w5]; cbn [rbind res_world] in *; [|split; [exact Z5|split; [exact N5|exact I]]].
  destruct (sm_remove k (w_comps w5)) as [[ci' m]|]; [|apply ZOK_fail; [exact Z5|cbn; tauto]]. cbn [res_world] in *.
  apply ZOK_ok; [|exact I]. destruct Z5 as [[HD5 HS5] HY5].
  set (w6 := set_comps w5 m (aremove (c_tag ci') (w_cby w5))) in *.
  assert (Hle : hs_le (refresh_cursor (archs_remove_component w6 (fst k) (c_tag ci') (c_member_of ci'))) w5).
  { eapply hs_le_trans; [apply hs_le_hs; reflexivity|]. eapply hs_le_trans; [apply hs_le_archs_remove_component|]. now apply hs_le_hs. }
  split; [split; [exact HDf|eapply SInv_le; eauto]|]. eapply YI_frame; [|exact Hle|exact HY5].
  change (registries (refresh_cursor (archs_remove_component w6 (fst k) (c_tag ci') (c_member_of ci')))) with (registries (archs_remove_component w6 (fst k) (c_tag ci') (c_member_of ci'))).
  rewrite registries_archs_remove_component. reflexivity.
Qed.
End ZOps6.

(* ---------- every reachable world; no call fails unchecked ---------- *)
Definition run_top_res (beh : hinfo -> logent -> N -> script) (w : world) (o : top_all) : world * option fail :=
  let f {A} (r : res A) := match r with ROk _ w' => (w', None) | RFail e w' => (w', Some e) end in
  match o with
  | TA TSpawn => f (op_spawn beh w)
  | TA (TInsert e k) => f (op_insert beh e k w)
  | TA (TRemove e k) => f (op_remove beh e k w)
  | TA (TDespawn e) => f (op_despawn beh e w)
  | TA (TSend g) => f (op_send beh g w)
  | TA (TSendTo e t) => f (op_send_to beh e t w)
  | TA (TAddHandler sh) => f (add_handler beh sh w)
  | TA (TRemoveHandler k) => f (remove_handler beh k w)
  | TA (TAddComponent t) => f (add_component beh t w)
  | TA (TAddGlobal t) => f (add_global_event beh RFUEL t w)
  | TA (TAddTargeted t) => f (add_targeted_event beh t w)
  | TA (TRemoveGlobal k) => f (remove_global_event beh k w)
  | TA (TRemoveTargeted k) => f (remove_targeted_event beh k w)
  | TRemoveComponent k => f (remove_component beh k w)
  end.

Lemma run_top_res_world beh w o : fst (run_top_res beh w o) = run_top_all beh w o.
Proof. destruct o as [o|k]; [destruct o|]; cbn [run_top_res run_top_all run_top]; match goal with |- context [match ?r with _ => _ end] => destruct r end; reflexivity. Qed.

Lemma ZOK_res {A} (r : res A) post : ZOK r post -> ZI (fst (match r with ROk _ w' => (w', None) | RFail e w' => (w', Some e) end)) /\ ~ ubf (snd (match r with ROk _ w' => (w', None) | RFail e w' => (w', Some e) end)).
Proof. intros (Z & Nn & _). destruct r as [a w'|e w']; cbn [fst snd res_world] in *; (split; [exact Z|]); [cbn; tauto|destruct e; cbn in *; tauto]. Qed.

Theorem run_top_res_ZI beh w o : ZI w -> ZI (fst (run_top_res beh w o)) /\ ~ ubf (snd (run_top_res beh w o)).
Proof.
  intros HZ. destruct o as [o|k]; [destruct o|]; cbn [run_top_res].
  - exact (ZOK_res _ _ (op_spawn_ZOK beh w HZ)).
  - exact (ZOK_res _ _ (op_insert_ZOK beh _ _ w HZ)).
  - exact (ZOK_res _ _ (send_to_ZOK beh _ _ _ w HZ)).
  - exact (ZOK_res _ _ (send_to_ZOK beh _ _ _ w HZ)).
  - exact (ZOK_res _ _ (op_send_ZOK beh _ w HZ)).
  - exact (ZOK_res _ _ (op_send_to_ZOK beh _ _ w HZ)).
  - exact (ZOK_res _ _ (add_handler_ZOK beh _ w HZ)).
  - exact (ZOK_res _ _ (remove_handler_ZOK beh _ w HZ)).
  - exact (ZOK_res _ _ (add_component_ZOK beh _ w HZ)).
  - exact (ZOK_res _ _ (add_global_event_ZOK beh _ w HZ)).
  - exact (ZOK_res _ _ (add_targeted_event_ZOK beh _ w HZ)).
  - exact (ZOK_res _ _ (remove_global_event_ZOK beh _ w HZ)).
  - exact (ZOK_res _ _ (remove_targeted_event_ZOK beh _ w HZ)).
  - exact (ZOK_res _ _ (remove_component_ZOK beh _ w HZ)).
Qed.

Lemma ZI_world0 fuel p : ZI (world0 fuel p).
Proof.
  split; [split; [apply DI_world0|apply SInv_world0]|]. split; [|split; [|split]].
  4:{ intros hk h H. unfold hlive, world0 in H. cbn [w_hs] in H. discriminate. }
  - split; intros tag k H; unfold world0 in H; cbn in H; discriminate.
  - intros i H. exfalso. apply H. unfold world0, get_by_index. cbn. now destruct i.
  - intros hk h H. unfold hlive, world0 in H. cbn [w_hs] in H. discriminate.
Qed.

Theorem reachable_ZI beh fuel p ops : ZI (fold_left (run_top_all beh) ops (world0 fuel p)).
Proof.
  apply fold_left_invariant; [apply ZI_world0|]. intros w o HZ. rewrite <- run_top_res_world. exact (proj1 (run_top_res_ZI beh w o HZ)).
Qed.

(* C01: whatever calls were made before, with whatever handlers, the next call does not reach an
   unchecked failure: it returns normally or with one of the documented panics *)
Theorem no_call_fails_unchecked beh fuel p ops o :
  ~ ubf (snd (run_top_res beh (fold_left (run_top_all beh) ops (world0 fuel p)) o)).
Proof. exact (proj2 (run_top_res_ZI beh _ o (reachable_ZI beh fuel p ops))). Qed.

(* World::get: the location map and the row width are trusted by unchecked indexing *)
Lemma col_index_lt comps : forall c i, col_index comps c = Some i -> i < nlen comps.
Proof.
  induction comps as [|h t IH]; intros c i H; cbn [col_index] in H; [discriminate|]. rewrite nlen_cons.
  destruct (c =? h); [inversion H; lia|]. destruct (col_index t c) as [j|] eqn:E; [|discriminate]. cbn in H. inversion H; subst. specialize (IH c j E). lia.
Qed.
Theorem op_get_ok e ktag w : StoreInv w -> ~ is_ub (op_get e ktag w).
Proof.
  intros (_ & Hl & Hw). unfold op_get. destruct (sm_get e (w_ents w)) as [[ai row]|] eqn:He; [|cbn; tauto].
  destruct (alookup ktag (w_cby w)) as [ck|]; [|cbn; tauto]. destruct (Hl _ _ _ He) as (a & vals & Ha & Hrow).
  unfold arch_at in Ha. cbn [fst snd]. rewrite Ha. destruct (col_index (a_comps a) (fst ck)) as [ci|] eqn:Ec; [|cbn; tauto].
  rewrite Hrow. destruct (Hw ai a row e vals Ha Hrow) as [_ Hlen]. apply col_index_lt in Ec.
  destruct (nget_lt_some vals ci) as [v Hv]; [unfold nlen in *; rewrite Hlen; exact Ec|]. rewrite Hv. cbn. tauto.
Qed.
Theorem reachable_get_ok beh fuel p ops e ktag : ~ is_ub (op_get e ktag (fold_left (run_top_all beh) ops (world0 fuel p))).
Proof. apply op_get_ok. destruct (reachable_ZI beh fuel p ops) as [[HD _] _]. destruct (DI_parts _ HD) as ([[[X _] _] _] & _). exact X. Qed.
