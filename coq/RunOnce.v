(* RunOnce.v : within one delivery every eligible handler is invoked at most once, in list order, and the
   invocations stop at the first handler that takes the event (or panics): the handlers invoked are a PREFIX of
   the listener list, the whole list when nobody took the event and nobody panicked (C07).
   The invocation log of the model (k_log: one entry per handler body entered, the same log the correspondence
   compares with the implementation) is the witness. *)
From Coq Require Import List NArith Bool Lia.
Import ListNotations.
Require Import EV.Base EV.ListN EV.Access EV.Query EV.SlotMap EV.Reserve EV.HList EV.Loop EV.World EV.WorldFrame.
Open Scope N_scope.

Definition klog (w : world) : list logent := k_log (w_h w).

Section RunOnce.
Variable beh : hinfo -> logent -> N -> script.

Lemma klog_use_fuel w : klog (snd (use_fuel w)) = klog w. Proof. unfold use_fuel. destruct (k_fuel (w_h w) =? 0); reflexivity. Qed.
Lemma klog_fresh_serial w : klog (snd (fresh_serial w)) = klog w. Proof. reflexivity. Qed.
Lemma klog_new_cval w k : klog (snd (new_cval w k)) = klog w. Proof. unfold new_cval. destruct (ctag_zst k); reflexivity. Qed.
Lemma klog_push_known w k : klog (push_known w k) = klog w. Proof. reflexivity. Qed.
Lemma klog_reserve w : klog (res_world (reserve w)) = klog w. Proof. unfold reserve. repeat break_match; reflexivity. Qed.
Lemma klog_ev_drop w t tag ev : klog (ev_drop w t tag ev) = klog w.
Proof. unfold ev_drop, drop_cval, log_drop. repeat break_match; reflexivity. Qed.

Lemma klog_run_actions acts : forall ps t fresh sent w, klog (snd (fst (run_actions acts ps t fresh sent w))) = klog w.
Proof.
  induction acts as [|a acts IH]; intros ps t fresh sent w; cbn [run_actions]; [reflexivity|].
  pose proof (klog_use_fuel w) as Hf. destruct (use_fuel w) as [ok w0]. cbn [snd] in Hf.
  destruct ok; cbn [negb]; [|apply IH].
  destruct a; repeat (break_match; cbn [fst snd]); rewrite ?IH, ?klog_ev_drop, ?klog_push_known;
    repeat match goal with
    | H : fresh_serial ?x = (_, ?y) |- _ => let E := fresh in pose proof (klog_fresh_serial x) as E; rewrite H in E; cbn [snd] in E; clear H
    | H : new_cval ?x ?k = (_, ?y) |- _ => let E := fresh in pose proof (klog_new_cval x k) as E; rewrite H in E; cbn [snd] in E; clear H
    | H : reserve ?x = _ |- _ => let E := fresh in pose proof (klog_reserve x) as E; rewrite H in E; cbn [res_world] in E; clear H
    end; congruence.
Qed.
Lemma klog_apply_writes w ps loc d : klog (apply_writes w ps loc d) = klog w.
Proof. apply (r_apply_writes klog). reflexivity. Qed.

(* one handler: either its parameters could not be evaluated (documented Single panic: the body is not entered,
   nothing is logged, the delivery stops) or exactly one entry with its key is appended *)
Lemma run_handler_log w h it tag loc :
  let r := run_handler beh w h it tag loc in
  (klog (snd r) = klog w /\ hr_fail (fst r) <> None /\ hr_taken (fst r) = false) \/
  (exists le, klog (snd r) = klog w ++ [le] /\ lg_handler le = h_key h).
Proof.
  cbn zeta. unfold run_handler. destruct (param_views w (h_params h) loc) as [f|[ritems views]].
  - left. cbn [fst snd hr_fail hr_taken]. split; [reflexivity|split; [discriminate|reflexivity]].
  - right. match goal with |- context [run_actions ?a ?b ?c ?d ?e ?x0] =>
      pose proof (klog_run_actions a b c d e x0) as Hra; destruct (run_actions a b c d e x0) as [[sent w3] fl] end.
    cbn [fst snd] in Hra. rewrite klog_apply_writes in Hra. unfold klog in Hra at 2. cbn [w_h set_h k_log set_hst_fields] in Hra.
    eexists. split; [destruct fl; [|destruct (_ =? _)]; cbn [snd]; exact Hra|reflexivity].
Qed.

Theorem run_handlers_prefix hl : forall w it tag loc sent,
  (forall hk, In hk hl -> exists h, sm_get hk (w_hs w) = Some h /\ h_key h = hk) ->
  let r := run_handlers beh hl w it tag loc sent in
  let w' := fst (fst (fst (fst r))) in
  exists n new, klog w' = klog w ++ new /\ map lg_handler new = firstn n hl /\ (n <= length hl)%nat /\
                (snd r = None -> snd (fst r) = false -> n = length hl).
Proof.
  induction hl as [|hk rest IH]; intros w it tag loc sent Hlive; cbn zeta; cbn [run_handlers].
  - exists O, []. cbn [fst snd]. rewrite app_nil_r. auto.
  - destruct (Hlive hk (or_introl eq_refl)) as (h & Eh & Hk). rewrite Eh.
    pose proof (run_handler_log w h it tag loc) as Hlog. cbn zeta in Hlog.
    pose proof (r_run_handler w_hs ltac:(fr) ltac:(fr) ltac:(fr) ltac:(fr) beh w h it tag loc) as Hhs.
    destruct (run_handler beh w h it tag loc) as [r w1]. cbn [fst snd] in Hlog, Hhs.
    destruct Hlog as [(El & Hf & Ht)|(le & El & Hle)].
    + (* parameters could not be evaluated: stop, nothing logged *)
      destruct (hr_fail r) as [f|]; [|congruence]. rewrite Ht. cbn [fst snd]. exists O, []. rewrite app_nil_r. split; [exact El|]. split; [reflexivity|]. split; [lia|discriminate].
    + destruct (hr_fail r) as [f|] eqn:Ef.
      * cbn [fst snd]. exists 1%nat, [le]. split; [destruct (hr_taken r); [rewrite klog_ev_drop|]; exact El|]. split; [cbn; now rewrite Hle, Hk|]. split; [cbn; lia|discriminate].
      * destruct (hr_taken r) eqn:Et.
        -- cbn [fst snd]. exists 1%nat, [le]. split; [rewrite klog_ev_drop; exact El|]. split; [cbn; now rewrite Hle, Hk|]. split; [cbn; lia|discriminate].
        -- assert (Hlive1 : forall hk0, In hk0 rest -> exists h0, sm_get hk0 (w_hs w1) = Some h0 /\ h_key h0 = hk0) by (intros hk0 Hin; rewrite Hhs; apply Hlive; now right).
           destruct (IH w1 (mkQ (qi_targeted it) (qi_idx it) (qi_target it) (hr_ev r)) tag loc (sent ++ hr_sent r) Hlive1) as (n & new & A & B & C & D).
           cbn zeta in A, D. exists (S n), (le :: new). split; [rewrite A, El, <- app_assoc; reflexivity|]. split; [cbn [map firstn]; now rewrite Hle, Hk, B|].
           split; [cbn [length]; lia|]. intros H1 H2. cbn [length]. f_equal. now apply D.
Qed.
End RunOnce.
