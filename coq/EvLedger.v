(* EvLedger.v : conservation of values across a whole flush (C11, C12, C13).
   Every value with a destructor that the world holds - stored component values and the payloads of
   queued events - is, after any flush (completed or unwound by a panic), either still stored or
   destroyed exactly once; and everything destroyed was held or was sent during the flush. *)
From Coq Require Import List NArith Bool Lia Sorted Permutation.
Import ListNotations.
Require Import EV.Base EV.ListN EV.Access EV.Query EV.SlotMap EV.Reserve EV.HList EV.Loop EV.World EV.SlotMapGet
  EV.AccessProofs EV.ArchProofs EV.QueryProofs EV.WorldFrame EV.Store EV.Graph EV.Effects EV.Reach EV.RemoveComp EV.Member EV.Listen EV.Order EV.Fetch EV.Ledger EV.NoUB EV.Sender EV.Users.
Open Scope N_scope.

(* ---------- handler writes do not change which values are stored ---------- *)
Lemma tracked_bump tg (g : N * cval -> cval) : (forall c v, fst (g (c, v)) = fst v) ->
  forall comps vals, tracked_cv tg (combine comps (map g (combine comps vals) ++ skipn (length comps) vals)) = tracked_cv tg (combine comps vals).
Proof.
  intros Hg. induction comps as [|c cs IH]; intros vals; [reflexivity|]. destruct vals as [|v vs]; [reflexivity|].
  cbn [combine map app length skipn]. unfold tracked_cv in *. cbn [flat_map]. rewrite Hg. f_equal. apply IH.
Qed.
Lemma rstored_bump tg a zst muts d vals : rstored tg a (bump_vals zst (a_comps a) muts d vals) = rstored tg a vals.
Proof. unfold rstored, bump_vals. apply tracked_bump. intros c v. now destruct (_ && _). Qed.

Lemma stored_write_arch w q d ai r : Permutation (stored (write_arch w q d ai r)) (stored w).
Proof.
  unfold write_arch. destruct (slab_get (w_archs w) ai) as [a|] eqn:Ha; [|reflexivity]. destruct (arch_state (has_of a) q) as [st|]; [|reflexivity].
  match goal with |- Permutation (stored (set_archs w (slab_set _ _ (set_rows a ?rows')))) _ => set (R := rows') end.
  rewrite <- (app_nil_r (stored (set_archs _ _))), <- (app_nil_r (stored w)).
  apply (stored_set w ai a (set_rows a R) (set_archs w (slab_set (w_archs w) ai (set_rows a R))) Ha eq_refl eq_refl). rewrite !app_nil_r, astored_rows. unfold astored.
  assert (E : flat_map (fun r0 : key * list cval => rstored (comp_tag w) a (snd r0)) R = flat_map (fun r0 : key * list cval => rstored (comp_tag w) a (snd r0)) (a_rows a)); [|now rewrite E].
  unfold R. destruct r as [row|].
  - destruct (nget (a_rows a) row) as [[e vals]|] eqn:Hr; [|reflexivity]. destruct (nget_split _ _ _ Hr) as (l1 & l2 & El & Hn). rewrite El, <- Hn, nset_split.
    rewrite !flat_map_app. cbn [flat_map snd]. now rewrite rstored_bump.
  - rewrite flat_map_concat_map, map_map, <- flat_map_concat_map. apply flat_map_ext. intros [e vals]. cbn [snd]. apply rstored_bump.
Qed.

(* ---------- handler actions: only a refused send destroys something, and it panics ---------- *)
Definition lv (w : world) := (w_archs w, w_comps w, registries w).
Definition same (w' w : world) : Prop := lv w' = lv w /\ w_drops w' = w_drops w.
Lemma same_refl w : same w w. Proof. split; reflexivity. Qed.
Lemma same_trans a b c : same a b -> same b c -> same a c. Proof. intros [A B] [C D]. split; congruence. Qed.
Lemma same_use_fuel w : same (snd (use_fuel w)) w. Proof. unfold use_fuel. break_match; split; reflexivity. Qed.
Lemma same_fresh_serial w : same (snd (fresh_serial w)) w. Proof. split; reflexivity. Qed.
Lemma same_new_cval w k : same (snd (new_cval w k)) w. Proof. unfold new_cval. break_match; split; reflexivity. Qed.
Lemma same_reserve w : same (res_world (reserve w)) w. Proof. unfold reserve. repeat break_match; split; reflexivity. Qed.
Lemma same_push_known w k : same (push_known w k) w. Proof. split; reflexivity. Qed.
Lemma lv_ev_drop w t tag ev : lv (ev_drop w t tag ev) = lv w. Proof. unfold ev_drop, drop_cval. repeat break_match; reflexivity. Qed.
Lemma stored_lv w' w : lv w' = lv w -> stored w' = stored w.
Proof. unfold lv. intros H. injection H as A B _. apply stored_tag_ext; [exact A|]. intros c. now apply comp_tag_same. Qed.

Definition ledger_ok (w w' : world) (fl : option fail) : Prop :=
  lv w' = lv w /\ exists R, w_drops w' = w_drops w ++ R /\ (fl = None -> R = []).
Lemma ledger_ok_same w0 w w' fl : same w w0 -> ledger_ok w w' fl -> ledger_ok w0 w' fl.
Proof. intros [A B] [C (R & D & E)]. split; [congruence|]. exists R. split; [congruence|exact E]. Qed.

Lemma run_actions_ledger acts : forall ps t fresh sent w,
  ledger_ok w (snd (fst (run_actions acts ps t fresh sent w))) (snd (run_actions acts ps t fresh sent w)).
Proof.
  induction acts as [|a acts IH]; intros ps t fresh sent w; cbn [run_actions]; [split; [reflexivity|exists []; split; [now rewrite app_nil_r|reflexivity]]|].
  pose proof (same_use_fuel w) as Hf. destruct (use_fuel w) as [ok w0]. cbn [snd] in Hf.
  destruct ok; cbn [negb]; [|apply IH].
  apply (ledger_ok_same w w0); [exact Hf|]. clear Hf.
  assert (Hdrop : forall w1 tg tag ev, same w1 w0 -> ledger_ok w0 (ev_drop w1 tg tag ev) (Some (FPanic 3))).
  { intros w1 tg tag ev [A B]. split; [now rewrite lv_ev_drop|]. destruct (ev_drop_spec w1 tg tag ev) as (D & _). exists (ev_entry tg tag ev). split; [congruence|discriminate]. }
  assert (Hfail : forall w1 f, same w1 w0 -> f <> None -> ledger_ok w0 w1 f).
  { intros w1 f [A B] Hn. split; [exact A|]. exists []. split; [now rewrite app_nil_r|]. intros ->. contradiction. }
  destruct a; repeat (break_match; cbn [fst snd]);
    repeat match goal with
    | H : fresh_serial ?x = (_, ?y) |- _ => let E := fresh in pose proof (same_fresh_serial x) as E; rewrite H in E; cbn [snd] in E; clear H
    | H : new_cval ?x ?k = (_, ?y) |- _ => let E := fresh in pose proof (same_new_cval x k) as E; rewrite H in E; cbn [snd] in E; clear H
    | H : reserve ?x = _ |- _ => let E := fresh in pose proof (same_reserve x) as E; rewrite H in E; cbn [res_world] in E; clear H
    end;
    try (apply IH);
    try (eapply ledger_ok_same; [|apply IH]; first [assumption | eapply same_trans; [apply same_push_known|assumption]]);
    try (apply Hdrop; first [assumption | apply same_refl]);
    try (apply Hfail; [first [assumption | apply same_refl]|discriminate]).
Qed.

Section WithBeh.
Variable beh : hinfo -> logent -> N -> script.

Lemma stored_apply_writes w ps loc d : Permutation (stored (apply_writes w ps loc d)) (stored w).
Proof.
  unfold apply_writes. destruct (d =? 0); [reflexivity|]. revert w. induction ps as [|p ps IH]; intros w; cbn [fold_left]; [reflexivity|].
  etransitivity; [apply IH|]. destruct p as [m|m q c|k q c|g t]; try reflexivity; [apply stored_write_arch|].
  destruct k; try reflexivity. revert w. induction c as [|ce c IHc]; intros w; cbn [fold_left]; [reflexivity|]. etransitivity; [apply IHc|apply stored_write_arch].
Qed.

(* what one handler invocation / the handler phase of a delivery does to the ledger *)
Definition hledger (w w' : world) (fl : option fail) (tail : list (N * N)) : Prop :=
  registries w' = registries w /\ w_comps w' = w_comps w /\ Permutation (stored w') (stored w) /\
  exists R, w_drops w' = w_drops w ++ R ++ tail /\ (fl = None -> R = []).

Lemma apply_writes_frame w ps loc d : registries (apply_writes w ps loc d) = registries w /\ w_comps (apply_writes w ps loc d) = w_comps w /\ w_drops (apply_writes w ps loc d) = w_drops w.
Proof.
  set (pi := fun w : world => (registries w, w_comps w, w_drops w)).
  assert (Hw : forall w q d ai r, pi (write_arch w q d ai r) = pi w) by (intros; unfold write_arch; repeat break_match; reflexivity).
  assert (H : pi (apply_writes w ps loc d) = pi w).
  { unfold apply_writes. destruct (d =? 0); [reflexivity|]. apply (fold_left_pres pi). intros w0 p. destruct p as [m|m q c|k q c|g t]; try reflexivity; [apply Hw|].
    destruct k; try reflexivity. apply (fold_left_pres pi). intros; apply Hw. }
  unfold pi in H. assert (A : registries (apply_writes w ps loc d) = registries w) by exact (f_equal (fun x => fst (fst x)) H).
  assert (B : w_comps (apply_writes w ps loc d) = w_comps w) by exact (f_equal (fun x => snd (fst x)) H).
  assert (C : w_drops (apply_writes w ps loc d) = w_drops w) by exact (f_equal snd H). auto.
Qed.

Lemma run_handler_ledger w h it tag loc : let r := fst (run_handler beh w h it tag loc) in
  hledger w (snd (run_handler beh w h it tag loc)) (hr_fail r) [] /\ ev_ser (hr_ev r) = ev_ser (qi_ev it) /\ (hr_taken r = true -> hr_fail r = None \/ hr_fail r = Some (FPanic 6)).
Proof.
  cbn zeta. unfold run_handler. destruct (param_views w (h_params h) loc) as [f|[ritems views]].
  { cbn [fst snd hr_fail hr_ev hr_taken]. split; [|split; [reflexivity|discriminate]]. split; [reflexivity|split; [reflexivity|split; [reflexivity|]]]. exists []. split; [now rewrite !app_nil_r|discriminate]. }
  match goal with |- context [run_actions ?a ?b ?c ?d ?e ?x] =>
    pose proof (run_actions_ledger a b c d e x) as Hra; destruct (run_actions a b c d e x) as [[sent w3] fl] end.
  cbn [fst snd] in Hra. destruct Hra as [Hlv (R & Hd & HR)].
  match type of Hlv with lv w3 = lv (apply_writes ?w1 _ _ ?d) => destruct (apply_writes_frame w1 (h_params h) loc d) as (A1 & A2 & A3); pose proof (stored_apply_writes w1 (h_params h) loc d) as A4 end.
  assert (Hserial : forall (b : bool) (ev : evv) (x : N), ev_ser (if b then mkEv (ev_ser ev) x (ev_id ev) else ev) = ev_ser ev) by (intros [] ev x; reflexivity).
  assert (HL : forall fl', (fl' = None -> fl = None) -> hledger w w3 fl' []).
  { intros fl' Hf. pose proof (f_equal snd Hlv) as L3. pose proof (f_equal (fun x => snd (fst x)) Hlv) as L2. cbn [lv fst snd] in L2, L3.
    split; [now rewrite L3, A1|]. split; [now rewrite L2, A2|]. split.
    - rewrite (stored_lv w3 _ Hlv). exact A4.
    - exists R. split; [rewrite app_nil_r, Hd, A3; reflexivity|]. intros X. apply HR. now apply Hf. }
  destruct fl as [f|]; cbn [fst snd hr_fail hr_ev hr_taken].
  - split; [apply HL; discriminate|split; [apply Hserial|discriminate]].
  - destruct (_ =? _); cbn [fst snd hr_fail hr_ev hr_taken]; (split; [apply HL; auto; discriminate|split; [apply Hserial|auto]]).
Qed.

Lemma ev_entry_ser t tag ev ev' : ev_ser ev' = ev_ser ev -> ev_entry t tag ev' = ev_entry t tag ev.
Proof. intros E. unfold ev_entry. now rewrite E. Qed.

Lemma hledger_trans w0 w1 w2 fl t : hledger w0 w1 None [] -> hledger w1 w2 fl t -> hledger w0 w2 fl t.
Proof.
  intros (A1 & A2 & A3 & (R1 & A4 & A5)) (B1 & B2 & B3 & (R2 & B4 & B5)). rewrite (A5 eq_refl) in A4. rewrite !app_nil_r in A4.
  split; [congruence|]. split; [congruence|]. split; [etransitivity; eauto|]. exists R2. split; [congruence|exact B5].
Qed.
Lemma hledger_ev_drop w0 w1 fl tg tag ev : hledger w0 w1 fl [] -> hledger w0 (ev_drop w1 tg tag ev) fl (ev_entry tg tag ev).
Proof.
  intros (A1 & A2 & A3 & (R & A4 & A5)). destruct (ev_drop_spec w1 tg tag ev) as (D & _). pose proof (lv_ev_drop w1 tg tag ev) as L.
  split; [rewrite <- A1; exact (f_equal snd L)|]. split; [rewrite <- A2; exact (f_equal (fun x => snd (fst x)) L)|]. split; [now rewrite (stored_lv _ _ L)|].
  exists R. split; [rewrite D, A4, !app_nil_r, <- app_assoc; reflexivity|exact A5].
Qed.

(* the handler phase: the event keeps its identity; if a handler took it, it has been destroyed (once) by then *)
Lemma run_handlers_ledger hl : forall w it tag loc sent,
  let '(w1, ev, sent', taken, fl) := run_handlers beh hl w it tag loc sent in
  ev_ser ev = ev_ser (qi_ev it) /\ hledger w w1 fl (if taken then ev_entry (qi_targeted it) tag ev else []) /\ (taken = true -> fl = None \/ fl = Some (FPanic 6)).
Proof.
  induction hl as [|hk hl IH]; intros w it tag loc sent; cbn [run_handlers].
  { split; [reflexivity|split; [|discriminate]]. split; [reflexivity|split; [reflexivity|split; [reflexivity|]]]. exists []. split; [now rewrite !app_nil_r|reflexivity]. }
  destruct (sm_get hk (w_hs w)) as [h|].
  2:{ split; [reflexivity|split; [|discriminate]]. split; [reflexivity|split; [reflexivity|split; [reflexivity|]]]. exists []. split; [now rewrite !app_nil_r|discriminate]. }
  pose proof (run_handler_ledger w h it tag loc) as Hh. destruct (run_handler beh w h it tag loc) as [r w1]. cbn zeta in Hh. cbn [fst snd] in Hh. destruct Hh as (HL & Hs & Ht).
  destruct (hr_fail r) as [f|] eqn:Ef.
  - split; [exact Hs|]. split; [|exact Ht]. destruct (hr_taken r); [now apply hledger_ev_drop|exact HL].
  - destruct (hr_taken r) eqn:Etk.
    + split; [exact Hs|]. split; [now apply hledger_ev_drop|auto].
    + specialize (IH w1 (mkQ (qi_targeted it) (qi_idx it) (qi_target it) (hr_ev r)) tag loc (sent ++ hr_sent r)).
      destruct (run_handlers beh hl w1 _ tag loc (sent ++ hr_sent r)) as [[[[w2 ev] sent2] taken] fl]. cbn [qi_ev qi_targeted] in IH. destruct IH as (I1 & I2 & I3).
      split; [congruence|]. split; [eapply hledger_trans; eauto|exact I3].
Qed.

(* the registered kind of an event agrees with its type tag, as far as the ledger is concerned *)
Definition kind_tag_ok (w : world) (targeted : bool) (tag : N) (kind : ekind) : Prop :=
  match kind with
  | KNormal => True
  | KInsert c => targeted = true /\ tag = 20 + comp_tag w c /\ comp_tag w c < 20
  | _ => forall ev, ev_entry targeted tag ev = []
  end.
Definition item_info (w : world) (it : qitem) : option einfo :=
  match get_by_index (if qi_targeted it then w_tev w else w_gev w) (qi_idx it) with Some (_, i) => Some i | None => None end.
Definition item_tag_ok (w : world) (it : qitem) : Prop :=
  match item_info w it with Some info => kind_tag_ok w (qi_targeted it) (e_tag info) (e_kind info) | None => False end.

Lemma item_tag_info w it info : item_info w it = Some info -> item_tag w it = e_tag info.
Proof. unfold item_info, item_tag. destruct (qi_targeted it); destruct (get_by_index _ _) as [[k i]|]; intros H; inversion H; reflexivity. Qed.

Definition dledger (w : world) (it : qitem) (w' : world) (fl : option fail) : Prop :=
  exists nd X, w_drops w' = w_drops w ++ nd /\
    Permutation (stored w' ++ nd) (stored w ++ ev_entry (qi_targeted it) (item_tag w it) (qi_ev it) ++ X) /\ (fl = None -> X = []).

Lemma insert_entry w c tag ev : tag = 20 + comp_tag w c -> comp_tag w c < 20 ->
  tracked_cv (comp_tag w) [(c, (ev_ser ev, ev_val ev))] = ev_entry true tag ev.
Proof.
  intros -> Hlt. unfold tracked_cv, ev_entry. cbn [flat_map fst app ev_ser].
  replace ((20 <=? 20 + comp_tag w c) && (20 + comp_tag w c <? 40)) with true by (symmetry; apply andb_true_iff; split; [apply N.leb_le|apply N.ltb_lt]; lia).
  replace (20 + comp_tag w c - 20) with (comp_tag w c) by lia. now rewrite app_nil_r.
Qed.

Lemma perm_swap {A} (a b x y : list A) : Permutation a b -> Permutation (a ++ x ++ y) (b ++ y ++ x).
Proof. intros H. apply Permutation_app; [exact H|apply Permutation_app_comm]. Qed.

Theorem deliver_one_ledger it w : WInv w -> GevKinds w -> item_tag_ok w it ->
  let '(sent, w', fl) := deliver_one beh it w in fl <> Some (FPanic 5) -> (forall s, fl <> Some (FUB s)) -> dledger w it w' fl.
Proof.
  intros HW HGK Hok. unfold item_tag_ok in Hok. destruct (item_info w it) as [info|] eqn:Ei; [|contradiction].
  pose proof (item_tag_info w it info Ei) as Etag. unfold item_info in Ei. unfold deliver_one.
  set (E := ev_entry (qi_targeted it) (item_tag w it) (qi_ev it)).
  assert (Hfin : forall hl loc, (targeted_kind (e_kind info) = true -> sm_get (qi_target it) (w_ents w) = Some loc) ->
     let '(sent, w', fl) := (let '(w1, ev, sent, taken, fl) := run_handlers beh hl w it (e_tag info) loc [] in
              match fl with
              | Some f => (sent, (if taken then w1 else ev_drop w1 (qi_targeted it) (e_tag info) ev), Some f)
              | None => if taken then (sent, w1, None) else
                  match e_kind info with
                  | KNormal => (sent, ev_drop w1 (qi_targeted it) (e_tag info) ev, None)
                  | _ => let '(w3, f) := fail_of (builtin_effect (e_kind info) ev loc w1) in (sent, w3, f)
                  end
              end) in fl <> Some (FPanic 5) -> (forall s, fl <> Some (FUB s)) -> dledger w it w' fl).
  { intros hl loc Hloc. pose proof (run_handlers_ledger hl w it (e_tag info) loc []) as Hh. pose proof (handlers_preserve_structure beh hl w it (e_tag info) loc []) as Hs.
    destruct (run_handlers beh hl w it (e_tag info) loc []) as [[[[w1 ev] sent] taken] fl]. cbn [fst] in Hs. destruct Hh as (Hser & (R1 & R2 & R3 & (R & R4 & R5)) & Htk).
    assert (EE : ev_entry (qi_targeted it) (e_tag info) ev = E) by (unfold E; rewrite Etag; now apply ev_entry_ser).
    destruct fl as [f|].
    - intros _ _. destruct taken.
      + exists (R ++ E), R. rewrite EE in R4. split; [exact R4|]. split; [|discriminate].
        now apply perm_swap.
      + rewrite app_nil_r in R4. pose proof (hledger_ev_drop w w1 (Some f) (qi_targeted it) (e_tag info) ev) as Hd.
        destruct Hd as (D1 & D2 & D3 & (Rd & D4 & D5)). { split; [exact R1|split; [exact R2|split; [exact R3|]]]. exists R. split; [now rewrite app_nil_r|exact R5]. }
        destruct (ev_drop_spec w1 (qi_targeted it) (e_tag info) ev) as (D & _). exists (R ++ E), R. rewrite EE in D. split; [rewrite D, R4, <- app_assoc; reflexivity|]. split; [|discriminate].
        apply perm_swap. exact D3.
    - rewrite (R5 eq_refl) in R4. cbn [app] in R4. destruct taken.
      + intros _ _. rewrite EE in R4. exists E, []. split; [exact R4|]. split; [|reflexivity]. rewrite app_nil_r. now apply Permutation_app_tail.
      + rewrite app_nil_r in R4.
        assert (HW1 : WInv w1) by (eapply WInv_structure; eauto).
        assert (Hnorm : dledger w it (ev_drop w1 (qi_targeted it) (e_tag info) ev) None).
        { destruct (ev_drop_spec w1 (qi_targeted it) (e_tag info) ev) as (D & _). pose proof (lv_ev_drop w1 (qi_targeted it) (e_tag info) ev) as L. rewrite EE in D.
          exists E, []. split; [now rewrite D, R4|]. split; [|reflexivity]. rewrite app_nil_r, (stored_lv _ _ L). now apply Permutation_app_tail. }
        assert (Hct : forall c, comp_tag w1 c = comp_tag w c) by (intros c; now apply comp_tag_same).
        assert (Hloc1 : targeted_kind (e_kind info) = true -> sm_get (qi_target it) (w_ents w1) = Some loc) by (rewrite (structure_ents _ _ Hs); exact Hloc).
        destruct (e_kind info) as [|c|c| |] eqn:Ek; [intros _ _; exact Hnorm| | | |].
        * destruct Hok as (Ht & Etg & Hlt). destruct (builtin_effect (KInsert c) ev loc w1) as [[] w3|f w3] eqn:Eff; cbn [fail_of].
          -- intros _ _. destruct (insert_effect_ledger w1 (qi_target it) loc c ev w3 HW1 (Hloc1 eq_refl) Eff) as (nd & A & B).
             exists nd, []. split; [now rewrite A, R4|]. split; [|reflexivity]. rewrite app_nil_r. etransitivity; [exact B|].
             etransitivity; [apply Permutation_app_tail; exact R3|]. apply Permutation_app_head.
             rewrite (tracked_tag_ext _ _ _ Hct). fold E. rewrite <- EE, Ht. rewrite (insert_entry w c (e_tag info) ev Etg Hlt). reflexivity.
          -- pose proof (builtin_effect_ok (KInsert c) ev loc w1 (qi_target it) HW1 Hloc1) as Hb. rewrite Eff in Hb. destruct Hb as [-> _]. intros X. contradiction.
        * assert (E0 : E = []) by (unfold E; rewrite Etag; apply Hok). destruct (builtin_effect (KRemove c) ev loc w1) as [[] w3|f w3] eqn:Eff; cbn [fail_of].
          -- intros _ _. destruct (remove_effect_ledger w1 (qi_target it) loc c ev w3 HW1 (Hloc1 eq_refl) Eff) as (nd & A & B).
             exists nd, []. split; [now rewrite A, R4|]. split; [|reflexivity]. fold E. rewrite E0, !app_nil_r. etransitivity; [exact B|exact R3].
          -- pose proof (builtin_effect_ok (KRemove c) ev loc w1 (qi_target it) HW1 Hloc1) as Hb. rewrite Eff in Hb. destruct Hb as [-> _]. intros X. contradiction.
        * assert (E0 : E = []) by (unfold E; rewrite Etag; apply Hok). pose proof (spawn_effect_ledger w1 ev loc) as (A & B). cbn zeta in A, B.
          pose proof (builtin_effect_ok KSpawn ev loc w1 (qi_target it) HW1 Hloc1) as Hb.
          destruct (builtin_effect KSpawn ev loc w1) as [[] w3|f w3] eqn:Eff; cbn [fail_of res_world] in *.
          -- intros _ _. exists [], []. split; [now rewrite app_nil_r, A, R4|]. split; [|reflexivity]. fold E. rewrite E0, !app_nil_r. etransitivity; [exact B|exact R3].
          -- destruct Hb as [-> _]. intros X. contradiction.
        * assert (E0 : E = []) by (unfold E; rewrite Etag; apply Hok). destruct (builtin_effect KDespawn ev loc w1) as [[] w3|f w3] eqn:Eff; cbn [fail_of].
          -- intros _ _. destruct (despawn_effect_ledger w1 (qi_target it) loc ev w3 HW1 (Hloc1 eq_refl) Eff) as (nd & A & B).
             exists nd, []. split; [now rewrite A, R4|]. split; [|reflexivity]. fold E. rewrite E0, !app_nil_r. etransitivity; [exact B|exact R3].
          -- pose proof (builtin_effect_ok KDespawn ev loc w1 (qi_target it) HW1 Hloc1) as Hb. rewrite Eff in Hb. destruct Hb as [-> _]. intros X. contradiction. }
  destruct (qi_targeted it) eqn:Et.
  - destruct (get_by_index (w_tev w) (qi_idx it)) as [[k info0]|]; [|discriminate]. inversion Ei; subst info0.
    destruct (sm_get (qi_target it) (w_ents w)) as [loc|] eqn:Hl.
    + destruct (slab_get (w_archs w) (fst loc)); [|intros _ X; exfalso; exact (X _ eq_refl)]. apply Hfin. auto.
    + intros _ _. destruct (ev_drop_spec w true (e_tag info) (qi_ev it)) as (D & _). pose proof (lv_ev_drop w true (e_tag info) (qi_ev it)) as L.
      exists E, []. unfold E. rewrite ?Et, Etag. split; [exact D|]. split; [|reflexivity]. rewrite app_nil_r, (stored_lv _ _ L). reflexivity.
  - destruct (get_by_index (w_gev w) (qi_idx it)) as [[k info0]|] eqn:Hg; [|discriminate]. inversion Ei; subst info0.
    destruct (nget (w_glists w) (qi_idx it)); [|intros _ X; exfalso; exact (X _ eq_refl)]. apply Hfin. intros X. rewrite (HGK _ _ _ Hg) in X. discriminate.
Qed.

(* ---------- the whole flush ---------- *)
Definition entries (w : world) (q : list qitem) : list (N * N) :=
  flat_map (fun it => ev_entry (qi_targeted it) (item_tag w it) (qi_ev it)) q.
Lemma entries_reg w' w q : registries w' = registries w -> entries w' q = entries w q.
Proof.
  intros H. unfold entries. apply flat_map_ext. intros it. f_equal. unfold item_tag. unfold registries in H. injection H as E1 _ E2 _ _. now rewrite E1, E2.
Qed.
Lemma entries_app w a b : entries w (a ++ b) = entries w a ++ entries w b. Proof. apply flat_map_app. Qed.
Lemma entries_rev w l : Permutation (entries w (rev l)) (entries w l).
Proof. unfold entries. apply flat_map_perm. symmetry. apply Permutation_rev. Qed.

Definition TagInv (w : world) : Prop :=
  forall it info, item_info w it = Some info -> kind_tag_ok w (qi_targeted it) (e_tag info) (e_kind info).
Lemma TagInv_frame w' w : registries w' = registries w -> (forall c, comp_tag w' c = comp_tag w c) -> TagInv w -> TagInv w'.
Proof.
  intros Hr Hc HT it info Hi. assert (Hi' : item_info w it = Some info).
  { unfold item_info in *. unfold registries in Hr. injection Hr as E1 _ E2 _ _. now rewrite <- E1, <- E2. }
  specialize (HT it info Hi'). unfold kind_tag_ok in *. destruct (e_kind info); auto. now rewrite !Hc.
Qed.
Lemma item_ok_tag w it : TagInv w -> item_ok w it -> item_tag_ok w it.
Proof.
  intros HT Hok. unfold item_tag_ok. destruct (item_info w it) as [info|] eqn:E; [exact (HT it info E)|].
  unfold item_info, item_ok, greg, treg in *. destruct (qi_targeted it); destruct (get_by_index _ _) as [[k i]|]; try discriminate; tauto.
Qed.

Definition nn_dec (a b : N * N) : {a = b} + {a <> b}.
Proof. decide equality; apply N.eq_dec. Defined.
Ltac pcount :=
  apply (Permutation_count_occ nn_dec); let x := fresh "x" in intros x;
  repeat match goal with H : Permutation _ _ |- _ => let H' := fresh in pose proof (proj1 (Permutation_count_occ nn_dec _ _) H x) as H'; clear H end;
  repeat rewrite count_occ_app in *; cbn [count_occ] in *; lia.

Lemma combine_noabort (s' s1 s nd1 nd2 eit erest esent esent' eS2 x2 : list (N * N)) :
  Permutation (s1 ++ nd1) (s ++ eit) -> Permutation (s' ++ nd2) (s1 ++ (erest ++ esent') ++ eS2 ++ x2) -> Permutation esent' esent ->
  Permutation (s' ++ nd1 ++ nd2) (s ++ (erest ++ eit) ++ (esent ++ eS2) ++ x2).
Proof. intros H1 H2 H3. pcount. Qed.
Lemma combine_abort (s' s1 s nd1 eit erest esent x1 : list (N * N)) :
  Permutation (s1 ++ nd1) (s ++ eit ++ x1) -> Permutation s' s1 ->
  Permutation (s' ++ nd1 ++ erest ++ esent) (s ++ (erest ++ eit) ++ esent ++ x1).
Proof. intros H1 H2. pcount. Qed.

Lemma lv_unwind_queue q : forall w, lv (unwind_queue q w) = lv w.
Proof. unfold unwind_queue. induction q as [|it q IH]; intros w; cbn [fold_left]; [reflexivity|]. rewrite IH. apply lv_ev_drop. Qed.

Theorem flush_loop_ledger : forall n q w f0 acc tr w' fl oc,
  Loop.flush wst qitem (run_w beh) unwind_w n q (w, f0) acc = Some (tr, (w', fl), oc) ->
  ZI w -> TagInv w -> (forall x, In x q -> item_ok w x) -> (oc = Aborted -> fl <> Some (FPanic 5)) ->
  registries w' = registries w /\
  exists S nd X, w_drops w' = w_drops w ++ nd /\
    Permutation (stored w' ++ nd) (stored w ++ entries w q ++ entries w S ++ X) /\ (oc = Finished -> X = []).
Proof.
  induction n as [|n IH]; intros q w f0 acc tr w' fl oc H HZ HT HQ Hcap; [discriminate|].
  cbn [Loop.flush] in H. destruct (rev q) as [|it r] eqn:Er.
  - unfold step in H. rewrite Er in H. inversion H; subst. assert (q = []) by (destruct q as [|x q]; [reflexivity|]; cbn in Er; destruct (rev q); discriminate). subst q.
    split; [reflexivity|]. exists [], [], []. split; [now rewrite app_nil_r|]. split; [cbn; rewrite !app_nil_r; reflexivity|reflexivity].
  - assert (Hq : q = rev r ++ [it]) by (rewrite <- (rev_involutive q), Er; reflexivity).
    rewrite Hq, step_snoc in H. unfold run_w in H. cbn [fst] in H.
    assert (Qit : item_ok w it) by (apply HQ; rewrite Hq; apply in_or_app; right; now left).
    pose proof HZ as [[HD HS] (HB & HGl & HN & HRc)]. destruct (DI_parts _ HD) as ([[HW HGK] _] & _).
    pose proof (deliver_one_ZI beh it w HZ) as Z1. pose proof (deliver_one_no_ub beh it w HD HS) as Hn. pose proof (fun x => deliver_one_sent beh it w x HN) as Hsent.
    pose proof (deliver_one_keeps_registries beh it w) as Hr. pose proof (creg_deliver_one beh it w) as Hc.
    pose proof (deliver_one_ledger it w HW HGK (item_ok_tag w it HT Qit)) as HL.
    destruct (deliver_one beh it w) as [[sent w1] fl1]. cbn [fst snd] in *.
    assert (Hnub : forall s, fl1 <> Some (FUB s)).
    { intros s ->. apply Hn; [|exact I]. unfold item_ok, greg, treg in Qit. destruct (qi_targeted it); exact Qit. }
    assert (HT1 : TagInv w1) by (apply (TagInv_frame w1 w Hr); [apply comp_tag_creg; exact Hc|exact HT]).
    assert (HQ1 : forall x, In x (rev r) \/ In x sent -> item_ok w1 x).
    { intros x [Hin|Hin]; [apply (item_ok_reg w); [exact Hr|]; apply HQ; rewrite Hq; apply in_or_app; now left|apply (item_ok_reg w); [exact Hr|now apply Hsent]]. }
    rewrite Hq, entries_app. cbn [entries flat_map]. rewrite app_nil_r. fold (entries w (rev r)).
    destruct fl1 as [f1|].
    + (* the delivery panicked: the dropper destroys what is queued *)
      inversion H; subst tr oc. clear H. unfold unwind_w in H2. cbn [snd fst] in H2. destruct f1 as [k|s]; [|exfalso; exact (Hnub s eq_refl)].
      assert (Ew : w' = res_world (spawn_all (unwind_queue (rev r ++ sent) w1)) /\ fl = Some (FPanic k)) by (destruct (spawn_all _); inversion H2; auto).
      destruct Ew as [-> ->]. destruct (HL (Hcap eq_refl) Hnub) as (nd1 & X1 & D1 & P1 & _).
      pose proof (unwind_queue_spec (rev r ++ sent) w1) as Du. pose proof (lv_unwind_queue (rev r ++ sent) w1) as Lu.
      destruct (spawn_all_ledger (unwind_queue (rev r ++ sent) w1)) as (Ds & _ & Ps). cbn zeta in Ds, Ps.
      split; [rewrite spawn_all_keeps_registries; rewrite (f_equal snd Lu : registries (unwind_queue _ w1) = registries w1); exact Hr|].
      exists sent, (nd1 ++ entries w (rev r) ++ entries w sent), X1. split; [|split; [|discriminate]].
      * rewrite Ds, Du, D1, <- app_assoc. f_equal. f_equal. change (flat_map _ (rev r ++ sent)) with (entries w1 (rev r ++ sent)). rewrite entries_app, !(entries_reg w1 w _ Hr). reflexivity.
      * apply (combine_abort _ (stored w1)); [exact P1|]. rewrite Ps. now rewrite (stored_lv _ _ Lu).
    + destruct (IH _ _ _ _ _ _ _ _ H Z1 HT1) as (Hr2 & S2 & nd2 & X2 & D2 & P2 & F2); [intros x Hin; apply HQ1; apply in_app_or in Hin as [Hin|Hin]; [now left|right; now apply in_rev]|exact Hcap|].
      destruct (HL ltac:(discriminate) Hnub) as (nd1 & X1 & D1 & P1 & F1). rewrite (F1 eq_refl), app_nil_r in P1.
      split; [congruence|]. exists (sent ++ S2), (nd1 ++ nd2), X2. split; [rewrite D2, D1, <- app_assoc; reflexivity|]. split; [|exact F2].
      rewrite entries_app. rewrite (entries_reg w1 w _ Hr), (entries_reg w1 w _ Hr), entries_app in P2.
      eapply (combine_noabort _ (stored w1)); [exact P1|exact P2|apply entries_rev].
Qed.

Definition res_fail {A} (r : res A) : option fail := match r with ROk _ _ => None | RFail f _ => Some f end.

(* one top-level propagation: every value held before - stored, or carried by a queued event - and every value
   sent during the propagation is afterwards still stored or has been destroyed, exactly once (multiset
   equation); unless the propagation panicked, nothing else was destroyed *)
Theorem flush_ledger q w : ZI w -> TagInv w -> (forall x, In x q -> item_ok w x) ->
  let r := flush beh q w in res_fail r <> Some (FPanic 5) -> res_fail r <> Some (FPanic 8) ->
  registries (res_world r) = registries w /\
  exists S nd X, w_drops (res_world r) = w_drops w ++ nd /\
    Permutation (stored (res_world r) ++ nd) (stored w ++ entries w q ++ entries w S ++ X) /\ (res_fail r = None -> X = []).
Proof.
  intros HZ HT HQ. cbn zeta. unfold flush, flush_loop.
  destruct (Loop.flush wst qitem (run_w beh) unwind_w FUEL q (w, None) []) as [[[tr [w1 fl]] oc]|] eqn:E; [|intros _ X; exfalso; apply X; reflexivity].
  pose proof (aborted_has_failure beh FUEL q (w, None) [] tr (w1, fl)) as Hab.
  destruct oc.
  - cbn [res_world res_fail]. intros _ _. destruct (flush_loop_ledger _ _ _ _ _ _ _ _ _ E HZ HT HQ ltac:(discriminate)) as (Hr & S & nd & X & D & P & F).
    split; [exact Hr|]. exists S, nd, X. split; [exact D|]. split; [exact P|]. intros _. now apply F.
  - specialize (Hab E). cbn [snd] in Hab. destruct fl as [f|]; [|contradiction]. cbn [res_world res_fail]. intros Hc _.
    destruct (flush_loop_ledger _ _ _ _ _ _ _ _ _ E HZ HT HQ (fun _ => Hc)) as (Hr & S & nd & X & D & P & F).
    split; [exact Hr|]. exists S, nd, X. split; [exact D|]. split; [exact P|discriminate].
Qed.
End WithBeh.

(* ---------- TagInv holds in every reachable world ---------- *)
Definition TI (w : world) : Prop :=
  (forall i k info, get_by_index (w_gev w) i = Some (k, info) -> e_kind info = gkind (e_tag info)) /\
  (forall i k info, get_by_index (w_tev w) i = Some (k, info) -> kind_tag_ok w true (e_tag info) (e_kind info)).

Lemma TI_TagInv w : TI w -> TagInv w.
Proof.
  intros [T1 T2] it info Hi. unfold item_info in Hi. destruct (qi_targeted it).
  - destruct (get_by_index (w_tev w) (qi_idx it)) as [[k i0]|] eqn:E; inversion Hi; subst. exact (T2 _ _ _ E).
  - destruct (get_by_index (w_gev w) (qi_idx it)) as [[k i0]|] eqn:E; inversion Hi; subst. rewrite (T1 _ _ _ E). unfold gkind.
    destruct (e_tag info =? G_SPAWN) eqn:Eg; [|exact I]. apply N.eqb_eq in Eg. rewrite Eg. intros ev. reflexivity.
Qed.
Lemma kind_tag_ok_ext w' w t tag kind : (forall c, comp_tag w' c = comp_tag w c) -> kind_tag_ok w t tag kind -> kind_tag_ok w' t tag kind.
Proof. intros H. unfold kind_tag_ok. destruct kind; auto. now rewrite !H. Qed.
Lemma TI_frame w' w : w_gev w' = w_gev w -> w_tev w' = w_tev w -> (forall c, comp_tag w' c = comp_tag w c) -> TI w -> TI w'.
Proof. intros E1 E2 Hc [T1 T2]. split; [rewrite E1; exact T1|]. rewrite E2. intros i k info Hg. eapply kind_tag_ok_ext; eauto. Qed.

Lemma comp_tag_gbi w c : comp_tag w c = match get_by_index (w_comps w) c with Some (_, ci) => c_tag ci | None => 99 end.
Proof. unfold comp_tag, get_by_index. destruct (sget (slots (w_comps w)) c) as [s|]; [|reflexivity]. now destruct (val s). Qed.
Lemma comp_tag_upd w c f cby' c' : (forall ci, c_tag (f ci) = c_tag ci) -> comp_tag (set_comps w (upd_by_index (w_comps w) c f) cby') c' = comp_tag w c'.
Proof.
  intros Hf. rewrite !comp_tag_gbi. cbn [w_comps set_comps]. rewrite gbi_upd. destruct (c' =? c); [|reflexivity].
  destruct (get_by_index (w_comps w) c') as [[k v]|]; [apply Hf|reflexivity].
Qed.

Section TIOps.
Variable beh : hinfo -> logent -> N -> script.

Lemma TI_ev_drop w t tag ev : TI w -> TI (ev_drop w t tag ev).
Proof. apply TI_frame; unfold ev_drop, drop_cval; repeat break_match; reflexivity. Qed.

Lemma flush_TI q w : TI w -> TI (res_world (flush beh q w)).
Proof.
  pose proof (registries_flush beh q w) as Hr. pose proof (creg_flush beh q w) as Hc. unfold registries in Hr.
  apply TI_frame; [exact (f_equal (fun x => fst (fst (fst (fst x)))) Hr)|exact (f_equal (fun x => snd (fst (fst x))) Hr)|apply comp_tag_creg; exact Hc].
Qed.

Lemma gev_TI fuel : forall tag w, TI w ->
  TI (res_world (add_global_event beh fuel tag w)) /\ forall ev, TI (res_world (send_global beh fuel tag ev w)).
Proof.
  induction fuel as [|f IH]; intros tag w HT; [split; [exact HT|intros; exact HT]|].
  assert (Hadd : TI (res_world (add_global_event beh (S f) tag w))).
  { rewrite add_global_event_S. destruct (alookup tag (w_gby w)); [exact HT|].
    destruct (insert_with (fun _ => mkE tag (gkind tag)) (w_gev w)) as [[k m]|] eqn:Ei; [|exact HT]. cbn zeta.
    set (w2 := set_glists _ _).
    assert (HT2 : TI w2).
    { destruct HT as [T1 T2]. split; [|exact T2]. intros i k' info Hg. unfold w2 in Hg. cbn [w_gev set_glists set_hreg set_gev] in Hg.
      destruct (gbi_insert _ _ _ _ _ _ _ Ei Hg) as [->|Hold]; [reflexivity|eauto]. }
    destruct (IH G_ADDGE w2 HT2) as [_ Hs]. specialize (Hs (mkEv 0 0 k)).
    destruct (send_global beh f G_ADDGE (mkEv 0 0 k) w2); exact Hs. }
  split; [exact Hadd|]. intros ev. rewrite send_global_S. destruct (IH tag w HT) as [Ha _].
  destruct (add_global_event beh f tag w) as [k w1|e w1]; cbn [res_world] in *.
  - apply flush_TI. destruct (10 <? tag); exact Ha.
  - now apply TI_ev_drop.
Qed.
Lemma send_global_TI tag ev w : TI w -> TI (res_world (send_global beh RFUEL tag ev w)).
Proof. intros H. exact (proj2 (gev_TI RFUEL tag w H) ev). Qed.
Lemma add_global_event_TI tag w : TI w -> TI (res_world (add_global_event beh RFUEL tag w)).
Proof. intros H. exact (proj1 (gev_TI RFUEL tag w H)). Qed.

Definition FT (w : world) : Prop := FInv w /\ TI w.
Lemma rbind_FT {A B} (r : res A) (f : A -> world -> res B) :
  FT (res_world r) -> (forall a w, FT w -> FT (res_world (f a w))) -> FT (res_world (rbind r f)).
Proof. apply rbind_K. Qed.
Lemma send_global_FT tag ev w : FT w -> FT (res_world (send_global beh RFUEL tag ev w)).
Proof. intros [A B]. split; [now apply send_global_FInv|now apply send_global_TI]. Qed.
Lemma add_global_event_FT tag w : FT w -> FT (res_world (add_global_event beh RFUEL tag w)).
Proof. intros [A B]. split; [now apply add_global_event_FInv|now apply add_global_event_TI]. Qed.
Lemma flush_FT q w : FT w -> FT (res_world (flush beh q w)).
Proof. intros [A B]. split; [now apply flush_FInv|now apply flush_TI]. Qed.

(* add_component: the returned index carries the tag; existing events are about other (live) indices *)
Lemma add_component_FT tag w : FT w ->
  FT (res_world (add_component beh tag w)) /\
  match add_component beh tag w with ROk k w' => comp_tag w' (fst k) = tag | RFail _ _ => True end.
Proof.
  intros [HF HT]. destruct (add_component_FInv beh tag w HF) as [HF' Hpost]. unfold add_component in *.
  destruct (alookup tag (w_cby w)) as [k0|] eqn:El.
  { split; [split; assumption|]. destruct Hpost as (ci & Hg & Ht). rewrite comp_tag_gbi, (gbi_of_get _ _ _ Hg). exact Ht. }
  destruct (insert_with (fun _ => mkC tag [] [] []) (w_comps w)) as [[k m]|] eqn:Ei; [|split; [split; assumption|exact I]].
  set (w1 := set_comps w m (ainsert tag k (w_cby w))) in *.
  pose proof HF as [_ (S1 & _ & _ & _ & K3 & _)].
  assert (HT1 : TI w1).
  { destruct HT as [T1 T2]. split; [exact T1|]. intros i k' info Hg. specialize (T2 i k' info Hg). unfold kind_tag_ok in *.
    destruct (e_kind info) as [|c|c| |] eqn:Ek; auto. destruct T2 as (A & B & C).
    assert (Hc : comp_tag w1 c = comp_tag w c).
    { rewrite !comp_tag_gbi. unfold w1. cbn [w_comps set_comps]. destruct (K3 i k' info c Hg (or_introl Ek)) as (kc & ci & Hgc & _).
      rewrite (gbi_insert_old _ _ _ _ _ _ _ S1 Ei Hgc), Hgc. reflexivity. }
    now rewrite Hc. }
  destruct (add_component_entry_FInv tag w k m HF El Ei) as [HF1 _].
  pose proof (send_global_FT G_ADDC (mkEv 0 0 k) w1 (conj HF1 HT1)) as H2. pose proof (creg_send_global beh G_ADDC (mkEv 0 0 k) w1) as Hc.
  destruct (send_global beh RFUEL G_ADDC (mkEv 0 0 k) w1) as [[] w2|f w2]; cbn [rbind res_world] in *; [|split; [exact H2|exact I]].
  split; [exact H2|]. rewrite (comp_tag_creg _ _ Hc). rewrite comp_tag_gbi. unfold w1. cbn [w_comps set_comps]. now rewrite (gbi_insert_new _ _ _ _ S1 Ei).
Qed.

Lemma tev_stage1_FT tag w : FT w ->
  FT (res_world (tev_stage1 beh tag w)) /\
  match tev_stage1 beh tag w with ROk kind w' => kind_tag_ok w' true tag kind | RFail _ _ => True end.
Proof.
  intros HFT. unfold tev_stage1. destruct ((20 <=? tag) && (tag <? 40)) eqn:E1.
  - destruct (add_component_FT (tag - 20) w HFT) as [A B]. destruct (add_component beh (tag - 20) w) as [c w'|f w']; cbn [rbind res_world] in *; [|split; [exact A|exact I]].
    split; [exact A|]. apply andb_true_iff in E1 as [L1 L2]. apply N.leb_le in L1. apply N.ltb_lt in L2. cbn [kind_tag_ok]. rewrite B. repeat split; lia.
  - destruct ((40 <=? tag) && (tag <? 60)) eqn:E2.
    + destruct (add_component_FT (tag - 40) w HFT) as [A B]. destruct (add_component beh (tag - 40) w) as [c w'|f w']; cbn [rbind res_world] in *; [|split; [exact A|exact I]].
      split; [exact A|]. apply andb_true_iff in E2 as [L1 L2]. apply N.leb_le in L1. cbn [kind_tag_ok]. intros ev. unfold ev_entry, ttag_has_drop.
      replace ((20 <=? tag) && (tag <? 40)) with false by (symmetry; apply andb_false_iff; right; apply N.ltb_ge; lia).
      replace (tag =? 0) with false by (symmetry; apply N.eqb_neq; lia). replace (tag =? 1) with false by (symmetry; apply N.eqb_neq; lia). reflexivity.
    + destruct (tag =? T_DESPAWN) eqn:E3; cbn [res_world]; (split; [exact HFT|]); cbn [kind_tag_ok]; [|exact I].
      apply N.eqb_eq in E3. subst tag. intros ev. reflexivity.
Qed.

Lemma tev_entry_TI w0 tag kind k m : SmInv (w_tev w0) -> TI w0 -> kind_tag_ok w0 true tag kind ->
  insert_with (fun _ => mkE tag kind) (w_tev w0) = Some (k, m) -> TI (tev_entry_world w0 tag kind k m).
Proof.
  intros S [T1 T2] Hk Ei. set (w1 := tev_entry_world w0 tag kind k m).
  assert (Eg : w_gev w1 = w_gev w0) by (unfold w1, tev_entry_world; destruct kind; reflexivity).
  assert (Et : w_tev w1 = m) by (unfold w1, tev_entry_world; destruct kind; reflexivity).
  assert (Hc : forall c, comp_tag w1 c = comp_tag w0 c).
  { intros c. unfold w1, tev_entry_world. destruct kind; try reflexivity; cbn zeta;
      match goal with |- comp_tag (set_comps ?wa (upd_by_index _ ?c0 ?f) _) _ = _ => exact (comp_tag_upd wa c0 f _ c (fun ci => eq_refl)) end. }
  split; [rewrite Eg; exact T1|]. rewrite Et. intros i k' info Hg. eapply kind_tag_ok_ext; [exact Hc|].
  destruct (gbi_insert _ _ _ _ _ _ _ Ei Hg) as [->|Hold]; [exact Hk|eauto].
Qed.

Lemma add_targeted_event_FT tag w : FT w -> FT (res_world (add_targeted_event beh tag w)).
Proof.
  intros HFT. rewrite add_targeted_event_unfold. destruct (tev_stage1_FT tag w HFT) as [H0 Hk]. destruct (tev_stage1_FInv beh tag w (proj1 HFT)) as [_ Hl].
  destruct (tev_stage1 beh tag w) as [kind w0|f w0]; cbn [rbind res_world] in *; [|exact H0].
  destruct (alookup tag (w_tby w0)); [exact H0|].
  destruct (insert_with (fun _ => mkE tag kind) (w_tev w0)) as [[k m]|] eqn:Ei; [|exact H0].
  destruct H0 as [HF0 HT0]. assert (S2 : SmInv (w_tev w0)) by (destruct HF0 as [_ (_ & X & _)]; exact X).
  apply rbind_FT; [|intros; assumption]. apply send_global_FT. split; [exact (tev_entry_FInv w0 tag kind k m HF0 Hl Ei)|exact (tev_entry_TI w0 tag kind k m S2 HT0 Hk Ei)].
Qed.
End TIOps.

Section TIOps2.
Variable beh : hinfo -> logent -> N -> script.

Lemma TI_conv w' w : w_gev w' = w_gev w -> w_tev w' = w_tev w -> w_comps w' = w_comps w -> TI w -> TI w'.
Proof. intros A B C. apply TI_frame; [exact A|exact B|intros c; now apply comp_tag_same]. Qed.

Lemma send_to_FT tag target ev w : FT w -> FT (res_world (send_to beh tag target ev w)).
Proof.
  intros HFT. pose proof (send_to_FInv beh tag target ev w (proj1 HFT)) as X. unfold send_to in *. pose proof (add_targeted_event_FT beh tag w HFT) as H.
  destruct (add_targeted_event beh tag w) as [k w1|e w1]; cbn [res_world] in *; [now apply flush_FT|].
  split; [exact X|apply TI_ev_drop; exact (proj2 H)].
Qed.

Lemma op_FT_spawn w : FT w -> FT (res_world (op_spawn beh w)).
Proof.
  intros HFT. unfold op_spawn. apply rbind_FT.
  - unfold reserve. repeat break_match; cbn [res_world]; exact HFT.
  - intros id w1 H1. apply rbind_FT; [now apply send_global_FT|]. intros [] w2 H2. exact H2.
Qed.
Lemma op_FT_insert e ktag w : FT w -> FT (res_world (op_insert beh e ktag w)).
Proof.
  intros HFT. unfold op_insert. destruct (new_cval w ktag) as [v w1] eqn:E. apply send_to_FT.
  assert (w1 = snd (new_cval w ktag)) by now rewrite E. subst w1. unfold new_cval. destruct (ctag_zst ktag); exact HFT.
Qed.
Lemma op_FT_send gtag w : FT w -> FT (res_world (op_send beh gtag w)).
Proof. intros HFT. unfold op_send. cbn [fresh_serial]. apply send_global_FT. exact HFT. Qed.
Lemma op_FT_send_to e ttag w : FT w -> FT (res_world (op_send_to beh e ttag w)).
Proof. intros HFT. unfold op_send_to. cbn [fresh_serial]. apply send_to_FT. exact HFT. Qed.

Lemma resolve_query_FT q : forall w, FT w -> FT (res_world (resolve_query beh q w)).
Proof.
  induction q as [c|c|qs IH|q IH|l r IHl IHr|l r IHl IHr|q IH|q IH|q IH|] using query_ind'; intros w HD; cbn [resolve_query];
    try (apply rbind_FT; [exact (proj1 (add_component_FT beh _ w HD))|intros; assumption]);
    try (apply rbind_FT; [now apply IH|intros; assumption]);
    try (apply rbind_FT; [now apply IHl|intros ? w1 HD1; apply rbind_FT; [now apply IHr|intros; assumption]]);
    try exact HD.
  apply rbind_FT; [|intros; assumption].
  revert w HD. induction IH as [|x t Hx _ IHt]; intros w HD; [exact HD|].
  apply rbind_FT; [now apply Hx|]. intros x' w1 HD1. apply rbind_FT; [now apply IHt|intros; assumption].
Qed.
Lemma register_set_FT evs : forall w, FT w -> FT (res_world (register_set beh evs w)).
Proof.
  induction evs as [|[t tag] rest IH]; intros w HD; cbn [register_set]; [exact HD|].
  apply rbind_FT.
  - destruct t; [now apply add_targeted_event_FT|now apply add_global_event_FT].
  - intros k w1 HD1. apply rbind_FT; [now apply IH|intros; assumption].
Qed.
Lemma init_param_FT p c w : FT w -> FT (res_world (init_param beh p c w)).
Proof.
  intros HD. destruct p; cbn [init_param].
  - apply rbind_FT; [now apply add_global_event_FT|intros; assumption].
  - apply rbind_FT; [now apply add_targeted_event_FT|]. intros k w1 HD1. apply rbind_FT; [now apply resolve_query_FT|intros; assumption].
  - apply rbind_FT; [now apply resolve_query_FT|intros; assumption].
  - apply rbind_FT; [now apply register_set_FT|intros; assumption].
Qed.
Lemma init_params_FT ps : forall c w, FT w -> FT (res_world (init_params beh ps c w)).
Proof.
  induction ps as [|p t IH]; intros c w HD; cbn [init_params]; [exact HD|].
  apply rbind_FT; [now apply init_param_FT|]. intros c1 w1 HD1. now apply IH.
Qed.

Theorem add_handler_FT sh w : FT w -> FT (res_world (add_handler beh sh w)).
Proof.
  intros HFT. pose proof (add_handler_FInv beh sh w (proj1 HFT)) as HFf. split; [exact HFf|]. clear HFf. unfold add_handler.
  destruct (match sh_tid sh with Some t => alookup t (w_hby w) | None => None end); [exact (proj2 HFT)|].
  pose proof (init_params_FT (sh_params sh) cfg0 w HFT) as H1.
  destruct (init_params beh (sh_params sh) cfg0 w) as [c w1|f w1]; cbn [rbind res_world] in *; [|exact (proj2 H1)].
  destruct (cf_recv c) as [|rv|]; try exact (proj2 H1). destruct (cf_access c) as [acc|]; [|exact (proj2 H1)].
  destruct (handler_conflicts (cf_cas c)); [|exact (proj2 H1)].
  destruct (insert_with _ (w_hs w1)) as [[k hs]|] eqn:Ei; [|exact (proj2 H1)].
  match goal with |- context [archs_register_handler ?w2 k] => assert (HT3 : TI (archs_register_handler w2 k)) end.
  { pose proof (kreg_archs_register_handler (set_hreg w1 hs (match rv with
                            | RvGlobal ek =>
                                let gl0 := nrepeat_to (w_glists w1) (N.to_nat (fst ek) + 1) hl_new in
                                match nget gl0 (fst ek) with
                                | Some l => nset gl0 (fst ek) (hl_insert l k (sh_prio sh))
                                | None => gl0 end
                            | RvTargeted _ => w_glists w1 end) (match sh_tid sh with Some t => ainsert t k (w_hby w1) | None => w_hby w1 end) (w_hctr w1 + 1) (w_horder w1 ++ [(w_hctr w1, k)])) k) as Hk.
    match goal with |- TI (archs_register_handler ?w2 k) => destruct (archs_register_handler_structure w2 k) as [_ Hg]; apply (TI_conv _ w1) end;
      [exact Hg|exact (f_equal snd Hk)|exact (f_equal (fun x => fst (fst x)) Hk)|exact (proj2 H1)]. }
  match goal with |- TI (res_world (rbind ?r _)) => assert (X : TI (res_world r)) by (now apply send_global_TI); destruct r; exact X end.
Qed.

Theorem remove_handler_FT k w : FT w -> FT (res_world (remove_handler beh k w)).
Proof.
  intros HFT. split; [exact (remove_handler_FInv beh k w (proj1 HFT))|]. unfold remove_handler. destruct (sm_get k (w_hs w)); [|exact (proj2 HFT)].
  pose proof (send_global_TI beh G_RMH (mkEv 0 0 k) w (proj2 HFT)) as H1.
  destruct (send_global beh RFUEL G_RMH (mkEv 0 0 k) w) as [[] w1|f w1]; cbn [rbind res_world] in *; [|exact H1].
  unfold handlers_remove. destruct (sm_remove k (w_hs w1)) as [[h1 hs]|]; [|exact H1]. cbn [res_world]. revert H1. apply TI_conv; reflexivity.
Qed.
Lemma remove_handlers_FT ks : forall w, FT w -> FT (res_world (remove_handlers beh ks w)).
Proof. induction ks as [|k t IH]; intros w H; cbn [remove_handlers]; [exact H|]. apply rbind_FT; [now apply remove_handler_FT|]. intros b w1 H1. now apply IH. Qed.

Theorem remove_global_event_FT k w : FT w -> FT (res_world (remove_global_event beh k w)).
Proof.
  intros HFT. split; [exact (remove_global_event_FInv beh k w (proj1 HFT))|]. unfold remove_global_event. destruct (sm_get k (w_gev w)); [|exact (proj2 HFT)].
  pose proof (send_global_FT beh G_RMGE (mkEv 0 0 k) w HFT) as H1.
  destruct (send_global beh RFUEL G_RMGE (mkEv 0 0 k) w) as [[] w1|f w1]; cbn [rbind res_world] in *; [|exact (proj2 H1)].
  match goal with |- context [remove_handlers beh ?l w1] => pose proof (remove_handlers_FT l w1 H1) as H2; destruct (remove_handlers beh l w1) as [[] w2|f w2] end; cbn [rbind res_world] in *; [|exact (proj2 H2)].
  destruct (sm_remove k (w_gev w2)) as [[info m]|] eqn:Er; [|exact (proj2 H2)]. cbn [res_world]. destruct H2 as [_ [T1 T2]]. split; [|exact T2].
  intros i k' info' Hg. cbn [w_gev set_gev] in Hg. eapply T1. eapply gbi_remove; eauto.
Qed.

Theorem remove_targeted_event_FT k w : FT w -> FT (res_world (remove_targeted_event beh k w)).
Proof.
  intros HFT. split; [exact (remove_targeted_event_FInv beh k w (proj1 HFT))|]. unfold remove_targeted_event. destruct (sm_get k (w_tev w)); [|exact (proj2 HFT)].
  pose proof (send_global_FT beh G_RMTE (mkEv 0 0 k) w HFT) as H1.
  destruct (send_global beh RFUEL G_RMTE (mkEv 0 0 k) w) as [[] w1|f w1]; cbn [rbind res_world] in *; [|exact (proj2 H1)].
  match goal with |- context [remove_handlers beh ?l w1] => pose proof (remove_handlers_FT l w1 H1) as H2; destruct (remove_handlers beh l w1) as [[] w2|f w2] end; cbn [rbind res_world] in *; [|exact (proj2 H2)].
  destruct (sm_remove k (w_tev w2)) as [[info m]|] eqn:Er; [|exact (proj2 H2)]. cbn [res_world]. destruct H2 as [_ [T1 T2]].
  set (w3 := set_tev w2 m (aremove (e_tag info) (w_tby w2))).
  assert (HT3 : TI w3).
  { split; [exact T1|]. intros i k' info' Hg. cbn [w_tev set_tev w3] in Hg. apply (kind_tag_ok_ext w3 w2); [reflexivity|]. eapply T2. eapply gbi_remove; eauto. }
  destruct (e_kind info); try exact HT3;
    (eapply TI_frame; [| | |exact HT3]; [reflexivity|reflexivity|]; intros c0; match goal with |- comp_tag (set_comps ?wa (upd_by_index _ ?c1 ?f) _) _ = _ => exact (comp_tag_upd wa c1 f _ c0 (fun ci => eq_refl)) end).
Qed.
Lemma remove_tevents_FT ks : forall w, FT w -> FT (res_world (remove_tevents beh ks w)).
Proof. induction ks as [|k t IH]; intros w H; cbn [remove_tevents]; [exact H|]. apply rbind_FT; [now apply remove_targeted_event_FT|]. intros b w1 H1. now apply IH. Qed.

Lemma comp_tag_fold_upd (skip : N -> bool) (f : cinfo -> cinfo) cs : (forall ci, c_tag (f ci) = c_tag ci) ->
  forall m i, match get_by_index (fold_upd skip f cs m) i with Some (_, ci) => c_tag ci | None => 99 end = match get_by_index m i with Some (_, ci) => c_tag ci | None => 99 end.
Proof.
  intros Hf. induction cs as [|c cs IH]; intros m i; cbn [fold_upd fold_left]; [reflexivity|]. change (fold_left _ cs ?x) with (fold_upd skip f cs x). rewrite IH.
  destruct (skip c); [reflexivity|]. rewrite gbi_upd. destruct (i =? c); [|reflexivity]. destruct (get_by_index m i) as [[k v]|]; [apply Hf|reflexivity].
Qed.
Lemma comp_tag_rc_step cidx ctag w ai c : comp_tag (rc_step cidx ctag w ai) c = comp_tag w c.
Proof.
  destruct (slab_get (w_archs w) ai) as [a|] eqn:Ha; [|unfold rc_step; now rewrite Ha].
  destruct (rc_step_kfields cidx ctag w ai a Ha) as (Ec & _). rewrite !comp_tag_gbi, Ec. apply comp_tag_fold_upd. reflexivity.
Qed.
Lemma comp_tag_archs_remove_component cidx ctag w l c : comp_tag (archs_remove_component w cidx ctag l) c = comp_tag w c.
Proof.
  rewrite archs_remove_component_unfold. change (comp_tag (strip cidx (fold_left (rc_step cidx ctag) l w)) c) with (comp_tag (fold_left (rc_step cidx ctag) l w) c).
  revert w. induction l as [|ai l IH]; intros w; cbn [fold_left]; [reflexivity|]. rewrite IH. apply comp_tag_rc_step.
Qed.
Lemma tev_archs_remove_component cidx ctag w l : w_tev (archs_remove_component w cidx ctag l) = w_tev w /\ w_gev (archs_remove_component w cidx ctag l) = w_gev w.
Proof. pose proof (registries_archs_remove_component cidx ctag w l) as H. unfold registries in H. split; [exact (f_equal (fun x => snd (fst (fst x))) H)|exact (f_equal (fun x => fst (fst (fst (fst x)))) H)]. Qed.

Theorem remove_component_FT k w : FT w -> FT (res_world (remove_component beh k w)).
Proof.
  intros HFT. pose proof (remove_component_FInv beh k w (proj1 HFT)) as HFf. split; [exact HFf|]. unfold remove_component in *.
  destruct (sm_get k (w_comps w)); [|exact (proj2 HFT)].
  pose proof (send_global_FT beh G_RMC (mkEv 0 0 k) w HFT) as H1.
  destruct (send_global beh RFUEL G_RMC (mkEv 0 0 k) w) as [[] w1|f w1]; cbn [rbind res_world] in *; [|exact (proj2 H1)].
  pose proof (add_targeted_event_FT beh T_DESPAWN w1 H1) as H2.
  destruct (add_targeted_event beh T_DESPAWN w1) as [dk w2|f w2]; cbn [rbind res_world] in *; [|exact (proj2 H2)].
  match goal with |- context [flush beh ?q0 w2] => pose proof (flush_FT beh q0 w2 H2) as H3; destruct (flush beh q0 w2) as [[] w3|f w3] end; cbn [rbind res_world] in *; [|exact (proj2 H3)].
  match goal with |- context [remove_handlers beh ?l w3] => pose proof (remove_handlers_FT l w3 H3) as H4; destruct (remove_handlers beh l w3) as [[] w4|f w4] end; cbn [rbind res_world] in *; [|exact (proj2 H4)].
  destruct (sm_get k (w_comps w4)) as [ci|]; [|exact (proj2 H4)].
  pose proof (remove_tevents_FT (c_ins ci ++ c_rem ci) w4 H4) as H5.
  destruct (remove_tevents beh (c_ins ci ++ c_rem ci) w4) as [[] w5|f w5]; cbn [rbind res_world] in *; [|exact (proj2 H5)].
  destruct (sm_remove k (w_comps w5)) as [[ci' m]|] eqn:Er; [|exact (proj2 H5)]. cbn [res_world] in *.
  set (w6 := set_comps w5 m (aremove (c_tag ci') (w_cby w5))) in *. set (w7 := archs_remove_component w6 (fst k) (c_tag ci') (c_member_of ci')) in *.
  destruct H5 as [_ [T1 T2]]. destruct (tev_archs_remove_component (fst k) (c_tag ci') w6 (c_member_of ci')) as [Et Eg].
  change (TI (refresh_cursor w7)) with (TI w7). pose proof HFf as [_ (_ & _ & _ & _ & K3 & _)]. change (w_tev (refresh_cursor w7)) with (w_tev w7) in K3. change (w_comps (refresh_cursor w7)) with (w_comps w7) in K3.
  assert (Hdead : get_by_index (w_comps w7) (fst k) = None) by (apply gbi_none_archs_remove_component; cbn [w_comps set_comps w6]; eapply gbi_remove_self; eauto).
  split; [fold w7 in Eg; rewrite Eg; exact T1|]. fold w7 in Et. rewrite Et. change (w_tev w6) with (w_tev w5). intros i k' info Hg.
  specialize (T2 i k' info Hg). unfold kind_tag_ok in *. destruct (e_kind info) as [|cx|cx| |] eqn:Ek; auto. destruct T2 as (A & B & C).
  assert (Hne : cx <> fst k).
  { intros ->. assert (Hg7 : get_by_index (w_tev w7) i = Some (k', info)) by (rewrite Et; exact Hg). destruct (K3 i k' info (fst k) Hg7 (or_introl Ek)) as (kc & cj & X & _). congruence. }
  assert (Hc : comp_tag w7 cx = comp_tag w5 cx).
  { unfold w7. rewrite comp_tag_archs_remove_component. rewrite !comp_tag_gbi. cbn [w_comps set_comps w6]. now rewrite (gbi_remove_other _ _ _ _ cx Er Hne). }
  now rewrite Hc.
Qed.

Lemma FT_world0 fuel p : FT (world0 fuel p).
Proof.
  split; [apply FInv_world0|].
  assert (G : forall i, get_by_index (w_gev (world0 fuel p)) i = None) by (intros i; unfold world0, get_by_index; cbn [w_gev slots sm_empty sget]; now destruct i).
  assert (T : forall i, get_by_index (w_tev (world0 fuel p)) i = None) by (intros i; unfold world0, get_by_index; cbn [w_tev slots sm_empty sget]; now destruct i).
  split; intros i k info H; [rewrite G in H|rewrite T in H]; discriminate.
Qed.
Lemma run_top_all_FT w o : FT w -> FT (run_top_all beh w o).
Proof.
  intros H. destruct o as [o|k]; cbn [run_top_all]; [|now apply remove_component_FT]. destruct o; cbn [run_top].
  - now apply op_FT_spawn. - now apply op_FT_insert. - unfold op_remove. apply send_to_FT. exact H. - unfold op_despawn. apply send_to_FT. exact H.
  - now apply op_FT_send. - now apply op_FT_send_to. - now apply add_handler_FT. - now apply remove_handler_FT.
  - exact (proj1 (add_component_FT beh _ w H)). - now apply add_global_event_FT. - now apply add_targeted_event_FT.
  - now apply remove_global_event_FT. - now apply remove_targeted_event_FT.
Qed.
Theorem reachable_TagInv fuel p ops : TagInv (fold_left (run_top_all beh) ops (world0 fuel p)).
Proof. apply TI_TagInv. apply (fold_left_invariant FT); [apply FT_world0|]. intros w o. apply run_top_all_FT. Qed.

(* C11 / C12 / C13 for a top-level propagation on any reachable world: conservation of values *)
Theorem reachable_flush_ledger fuel p ops q : let w := fold_left (run_top_all beh) ops (world0 fuel p) in
  (forall x, In x q -> item_ok w x) ->
  let r := flush beh q w in res_fail r <> Some (FPanic 5) -> res_fail r <> Some (FPanic 8) ->
  exists S nd X, w_drops (res_world r) = w_drops w ++ nd /\
    Permutation (stored (res_world r) ++ nd) (stored w ++ entries w q ++ entries w S ++ X) /\ (res_fail r = None -> X = []).
Proof.
  cbn zeta. intros HQ Hc Hf. exact (proj2 (flush_ledger beh q _ (reachable_ZI beh fuel p ops) (reachable_TagInv fuel p ops) HQ Hc Hf)).
Qed.
End TIOps2.
