(* Quiet.v : no entity reservation is left pending when control is back with the caller (C03, C17).

   Quiet w : the reservation count is 0 and the cursor is where NextKeyIter starts on the current
   entity map - the state in which World::spawn / Sender::spawn promise exactly the ids that the next
   materialisation creates (ReserveW.v).

   Inside a propagation reservations ARE pending: a handler's Sender::spawn reserves an id and queues a
   Spawn event; the reservation is materialised when the next Spawn or Despawn event is applied, or by
   the unwinding path.  The invariant of the stack machine is therefore joint in state and queue:
        Quiet w  \/  some queued item is a Spawn event.
   It needs (1) the index a Sender produces for Spawn is registered as a Spawn event (Sender.v: NInv now
   carries the type tag; EvLedger.v: TI relates tag and kind), (2) a Spawn event is never taken by a
   handler - in the code Spawn is an immutable event and EventMut::take does not type-check (C18); the
   model's behaviours are arbitrary functions, so this is the hypothesis [NoTakeSpawn] on [beh] -,
   (3) capacity: once the entity slot map holds 2^32-1 slots spawn_all panics half-way and nothing is
   claimed; the statements are guarded by [elen w < U32MAX] on the FINAL world (slot counts only grow). *)
From Coq Require Import List NArith Bool Lia Sorted.
Import ListNotations.
Require Import EV.Base EV.ListN EV.Access EV.Query EV.SlotMap EV.Reserve EV.HList EV.Loop EV.World EV.SlotMapGet
  EV.AccessProofs EV.ArchProofs EV.QueryProofs EV.WorldFrame EV.Store EV.Graph EV.Effects EV.Reach EV.RemoveComp EV.Member EV.Listen
  EV.ReserveW EV.Order EV.Fetch EV.NoUB EV.Sender EV.Users EV.Ledger EV.EvLedger.
Open Scope N_scope.

Definition elen (w : world) : N := N.of_nat (length (slots (w_ents w))).
Definition Quiet (w : world) : Prop := w_rcnt w = 0 /\ w_rcur w = next_key_iter (w_ents w).

Lemma Quiet_ReserveInv w : Quiet w -> reserved_ids w [].
Proof. intros [A B]. unfold reserved_ids. rewrite A, B. reflexivity. Qed.
Lemma ReserveInv_zero w : ReserveInv w -> w_rcnt w = 0 -> Quiet w.
Proof. intros [ks H] Hz. split; [exact Hz|]. rewrite Hz in H. cbn [N.to_nat predict] in H. congruence. Qed.

(* ---------- the observation that archetype moves leave alone ---------- *)
Definition eo (w : world) := (shape (w_ents w), w_rcnt w, w_rcur w).

Lemma eo_parts w' w : eo w' = eo w -> shape (w_ents w') = shape (w_ents w) /\ w_rcnt w' = w_rcnt w /\ w_rcur w' = w_rcur w.
Proof. unfold eo. intros H. repeat split; congruence. Qed.
Lemma eo_elen w' w : eo w' = eo w -> elen w' = elen w.
Proof. intros H. destruct (eo_parts _ _ H) as (Hs & _ & _). unfold elen. now rewrite (proj1 (shape_len _ _ Hs)). Qed.
Lemma eo_Quiet w' w : eo w' = eo w -> Quiet w -> Quiet w'.
Proof. intros H [A B]. destruct (eo_parts _ _ H) as (Hs & Hc & Hr). split; [congruence|]. rewrite Hr, B. symmetry. now apply shape_nki0. Qed.
Lemma eo_ReserveInv w' w : eo w' = eo w -> ReserveInv w -> ReserveInv w'.
Proof. intros H [ks Hk]. destruct (eo_parts _ _ H) as (Hs & Hc & Hr). exists ks. exact (ReserveInv_shape w w' Hs Hc Hr ks Hk). Qed.

Lemma eo_set_loc w e l : eo (res_world (set_loc w e l)) = eo w.
Proof.
  unfold set_loc. destruct (sm_get e (w_ents w)); [|reflexivity]. cbn [res_world]. unfold eo. cbn [w_ents w_rcnt w_rcur set_ents].
  f_equal. f_equal. unfold shape. now apply sview_upd_index.
Qed.

Lemma eo_drop_fold l w : eo (fold_left (fun (w' : world) '(c, v) => drop_cval w' (comp_tag w' c) v) l w) = eo w.
Proof. apply (r_drop_fold eo). fr. Qed.
Lemma eo_drop_cval w t v : eo (drop_cval w t v) = eo w. Proof. apply (r_drop_cval eo). fr. Qed.
Lemma eo_notify_remove w ai : eo (notify_remove w ai) = eo w. Proof. apply (r_notify_remove eo). fr. Qed.
Lemma eo_notify_refresh w ai : eo (notify_refresh w ai) = eo w. Proof. fr. Qed.
Lemma eo_set_archs w x : eo (set_archs w x) = eo w. Proof. reflexivity. Qed.
#[local] Hint Rewrite eo_set_loc eo_drop_fold eo_drop_cval eo_notify_remove eo_notify_refresh eo_set_archs : eofr.

Ltac epres :=
  repeat first
  [ progress cbn [res_world fst snd]
  | progress autorewrite with eofr
  | match goal with H : eo ?w = eo _ |- context [eo ?w] => rewrite H end
  | reflexivity | assumption
  | match goal with |- eo (res_world (rbind _ _)) = _ => apply rbind_pres; [|intros ? ? ?] end
  | break_match ].

Lemma eo_move_entity w src dst nw : eo (res_world (move_entity w src dst nw)) = eo w.
Proof. unfold move_entity. destruct src as [sai srow]. epres. Qed.
Lemma eo_traverse_insert w s c : eo (res_world (traverse_insert w s c)) = eo w.
Proof. apply (r_traverse_insert eo); fr. Qed.
Lemma eo_traverse_remove w s c : eo (res_world (traverse_remove w s c)) = eo w.
Proof. apply (r_traverse_remove eo); fr. Qed.
Lemma eo_ev_drop w t tag ev : eo (ev_drop w t tag ev) = eo w. Proof. apply (r_ev_drop eo). fr. Qed.
Lemma eo_unwind_queue q w : eo (unwind_queue q w) = eo w. Proof. apply (r_unwind_queue eo). fr. Qed.

(* ---------- materialisation ---------- *)
Lemma insert_with_len {V} (f : key -> V) (m : smap V) k m' : insert_with f m = Some (k, m') ->
  (length (slots m) <= length (slots m'))%nat.
Proof.
  unfold insert_with. destruct (sget (slots m) (next_free m)) as [s|].
  - intros H. inversion H; subst. cbn [slots]. rewrite supd_upd, upd_length. lia.
  - destruct (_ =? U32MAX); [discriminate|]. intros H. inversion H; subst. cbn [slots]. rewrite app_length. lia.
Qed.
Lemma insert_with_none {V} (f : key -> V) (m : smap V) : insert_with f m = None -> N.of_nat (length (slots m)) = U32MAX.
Proof. unfold insert_with. destruct (sget _ _); [discriminate|]. destruct (_ =? U32MAX) eqn:E; [intros _; now apply N.eqb_eq|discriminate]. Qed.

Lemma spawn_all_n_elen n : forall w, elen w <= elen (res_world (spawn_all_n n w)) /\
  match spawn_all_n n w with RFail _ w' => elen w' = U32MAX | ROk _ w' => w_rcnt w' = w_rcnt w end.
Proof.
  induction n as [|n IH]; intros w; cbn [spawn_all_n]; [cbn [res_world]; split; [lia|reflexivity]|].
  destruct (insert_with (fun _ => (0, 0)) (w_ents w)) as [[k m0]|] eqn:E1; [|cbn [res_world]; split; [lia|exact (insert_with_none _ _ E1)]].
  pose proof (r_arch_spawn w_ents ltac:(fr) ltac:(fr) w k) as He. pose proof (r_arch_spawn w_rcnt ltac:(fr) ltac:(fr) w k) as Hc.
  destruct (arch_spawn w k) as [loc w1]. cbn [snd] in He, Hc.
  destruct (insert_with (fun _ => loc) (w_ents w1)) as [[k' ents']|] eqn:E2.
  - specialize (IH (set_ents w1 ents')). destruct IH as [A B]. apply insert_with_len in E2. rewrite He in E2. split.
    + unfold elen in *. cbn [w_ents set_ents] in A. lia.
    + destruct (spawn_all_n n (set_ents w1 ents')); [cbn [w_rcnt set_ents] in B; congruence|exact B].
  - cbn [res_world]. apply insert_with_none in E2. unfold elen. rewrite He. split; [lia|]. now rewrite He in E2.
Qed.

(* spawn_all needs no precondition: it resets the cursor itself *)
Lemma spawn_all_Quiet w : elen w <= elen (res_world (spawn_all w)) /\ (elen (res_world (spawn_all w)) < U32MAX -> Quiet (res_world (spawn_all w))).
Proof.
  unfold spawn_all. destruct (spawn_all_n_elen (N.to_nat (w_rcnt w)) w) as [A B].
  destruct (spawn_all_n (N.to_nat (w_rcnt w)) w) as [[] w1|f w1]; cbn [rbind res_world] in *.
  - split; [exact A|]. intros _. split; reflexivity.
  - split; [exact A|]. intros H. lia.
Qed.

(* ---------- what handler bodies do to the reservation state ---------- *)
Definition ro (w : world) := (w_ents w, w_rcnt w, w_rcur w).
Lemma ro_eo w' w : ro w' = ro w -> eo w' = eo w. Proof. unfold ro, eo. intros H. injection H as -> -> ->. reflexivity. Qed.
Lemma ro_ents w' w : ro w' = ro w -> w_ents w' = w_ents w. Proof. unfold ro. congruence. Qed.

Definition spawn_pushed (ps : list rparam) (it : qitem) : Prop :=
  qi_targeted it = false /\ sender_lookup ps false G_SPAWN = Some (Some (qi_idx it)).

(* outcome of a piece of handler code relative to the state before: the entity map is untouched and either
   the reservation state is untouched too, or a Spawn event was pushed *)
Definition hstep (ps : list rparam) (w w' : world) (sent' : list qitem) : Prop :=
  w_ents w' = w_ents w /\ (ro w' = ro w \/ exists x, In x sent' /\ spawn_pushed ps x).

Lemma reserve_ents w : w_ents (res_world (reserve w)) = w_ents w.
Proof. apply (r_reserve w_ents); fr. Qed.

Lemma run_actions_res acts : forall ps t fresh sent w,
  let r := run_actions acts ps t fresh sent w in
  w_ents (snd (fst r)) = w_ents w /\ (forall x, In x sent -> In x (fst (fst r))) /\
  (snd r = None -> ro (snd (fst r)) = ro w \/ exists x, In x (fst (fst r)) /\ spawn_pushed ps x).
Proof.
  induction acts as [|a rest IH]; intros ps t fresh sent w; cbn zeta; cbn [run_actions]; [cbn [fst snd]; auto|].
  assert (step : forall w' sent' fresh', w_ents w' = w_ents w -> (forall x, In x sent -> In x sent') ->
            (ro w' = ro w \/ exists x, In x sent' /\ spawn_pushed ps x) ->
            let r := run_actions rest ps t fresh' sent' w' in
            w_ents (snd (fst r)) = w_ents w /\ (forall x, In x sent -> In x (fst (fst r))) /\
            (snd r = None -> ro (snd (fst r)) = ro w \/ exists x, In x (fst (fst r)) /\ spawn_pushed ps x)).
  { intros w' sent' fresh' He Hs Hd. cbn zeta. destruct (IH ps t fresh' sent' w') as (A & B & C). split; [congruence|]. split; [auto|].
    intros Hn. destruct (C Hn) as [C1|C1]; [|now right]. destruct Hd as [Hd|(x & Hx & Hp)]; [left; congruence|right; exists x; auto]. }
  assert (fail_leaf : forall w' (f : fail), w_ents w' = w_ents w ->
            w_ents w' = w_ents w /\ (forall x, In x sent -> In x sent) /\
            (Some f = None -> ro w' = ro w \/ exists x, In x sent /\ spawn_pushed ps x)).
  { intros w' f He. split; [exact He|]. split; [auto|discriminate]. }
  pose proof (r_use_fuel ro ltac:(fr) w) as Hf. destruct (use_fuel w) as [ok w0]. cbn [snd] in Hf.
  destruct ok; cbn [negb]; [|apply step; auto].
  assert (He0 : w_ents w0 = w_ents w) by now apply ro_ents.
  destruct a; repeat (break_match; cbn [fst snd]);
    repeat match goal with
    | H : fresh_serial ?x = (_, ?y) |- _ => let E := fresh "E" in pose proof (r_fresh_serial ro ltac:(fr) x) as E; rewrite H in E; cbn [snd] in E; clear H
    | H : new_cval ?x ?k = (_, ?y) |- _ => let E := fresh "E" in pose proof (r_new_cval ro ltac:(fr) x k) as E; rewrite H in E; cbn [snd] in E; clear H
    | H : reserve ?x = _ |- _ => let E := fresh "E" in pose proof (reserve_ents x) as E; rewrite H in E; cbn [res_world] in E; clear H
    end;
    try (apply fail_leaf; rewrite ?(r_ev_drop w_ents ltac:(fr)); first [congruence | apply ro_ents; congruence]);
    try (apply step; [try (rewrite (r_push_known w_ents ltac:(fr))); (apply ro_ents; congruence) || congruence | intros x0 Hx0; try apply in_or_app; auto | first [left; congruence | right; eexists; split; [apply in_or_app; right; left; reflexivity|split; [reflexivity|cbn [qi_idx]; eassumption]]]]).
Qed.

Definition spawn_item (w : world) (it : qitem) : Prop :=
  qi_targeted it = false /\ exists k info, get_by_index (w_gev w) (qi_idx it) = Some (k, info) /\ e_kind info = KSpawn.

(* the kind of every registered global event is the one its type tag determines (first half of EvLedger.TI) *)
Definition TG (w : world) : Prop := forall i k info, get_by_index (w_gev w) i = Some (k, info) -> e_kind info = gkind (e_tag info).
Lemma TI_TG w : TI w -> TG w. Proof. intros [T _]. exact T. Qed.
Lemma TG_gev w' w : w_gev w' = w_gev w -> TG w -> TG w'. Proof. unfold TG. intros ->. auto. Qed.
Lemma TG_reg w' w : registries w' = registries w -> TG w -> TG w'.
Proof. unfold registries. intros H. apply TG_gev. congruence. Qed.

Lemma pushed_spawn_item w h x : sender_ok w h -> TG w -> spawn_pushed (h_params h) x -> spawn_item w x.
Proof.
  intros Hs T1 [Ht Hl]. apply sender_lookup_some in Hl as (g & t & Hin & Hal). apply alookup_in in Hal.
  assert (Hp : In (Some (g, t)) (pss h)) by (unfold pss; apply in_map_iff; exists (RSender g t); split; [reflexivity|exact Hin]).
  destruct (Hs g t Hp) as [A _]. destruct (A _ _ Hal) as (_ & [Hg _] & Htag).
  destruct (get_by_index (w_gev w) (qi_idx x)) as [[k info]|] eqn:E; [|congruence].
  split; [exact Ht|]. exists k, info. split; [exact E|]. rewrite (T1 _ _ _ E), (Htag _ _ E). reflexivity.
Qed.
Lemma spawn_item_reg w w' x : registries w' = registries w -> spawn_item w x -> spawn_item w' x.
Proof. unfold registries. intros H [A B]. injection H as E _ _ _ _. split; [exact A|]. now rewrite E. Qed.

(* a Spawn event is never taken: Spawn is an immutable event (EventMut::take needs a mutable one) *)
Definition NoTakeSpawn (beh : hinfo -> logent -> N -> script) : Prop :=
  forall h le n, lg_targeted le = false -> lg_tag le = G_SPAWN -> s_take (beh h le n) = false.

Section QStep.
Variable beh : hinfo -> logent -> N -> script.
Hypothesis Hnt : NoTakeSpawn beh.

Lemma run_handler_res w h it tag loc :
  let r := run_handler beh w h it tag loc in
  w_ents (snd r) = w_ents w /\
  (hr_fail (fst r) = None -> ro (snd r) = ro w \/ exists x, In x (hr_sent (fst r)) /\ spawn_pushed (h_params h) x) /\
  (qi_targeted it = false -> tag = G_SPAWN -> hr_taken (fst r) = false).
Proof.
  cbn zeta. unfold run_handler. destruct (param_views w (h_params h) loc) as [f|[ritems views]]; [cbn [fst snd hr_fail hr_taken]; split; [reflexivity|split; [discriminate|reflexivity]]|].
  match goal with |- context [run_actions ?a ?b ?c ?d ?e ?x0] =>
    pose proof (run_actions_res a b c d e x0) as Hra; cbn zeta in Hra; destruct (run_actions a b c d e x0) as [[sent w3] fl] end.
  cbn [fst snd] in Hra. destruct Hra as (A & _ & C).
  match type of A with w_ents w3 = w_ents (apply_writes ?w1 _ _ _) =>
    assert (Hro : ro (apply_writes w1 (h_params h) loc (s_wdelta (beh h (mkLog (h_key h) (qi_targeted it) tag (qi_ev it) (qi_target it) (w_resets w) ritems views) (k_inv (w_h w))))) = ro w)
      by (rewrite (r_apply_writes ro ltac:(fr)); reflexivity) end.
  assert (He : w_ents w3 = w_ents w) by (rewrite A; now apply ro_ents).
  destruct fl as [f|].
  - cbn [fst snd hr_fail hr_taken]. split; [exact He|split; [discriminate|reflexivity]].
  - destruct (k_panic_at (w_h w) =? k_inv (w_h w) + 1); cbn [fst snd hr_fail hr_taken hr_sent].
    + split; [exact He|split; [discriminate|]]. intros Ht Hg. rewrite (Hnt h (mkLog (h_key h) (qi_targeted it) tag (qi_ev it) (qi_target it) (w_resets w) ritems views) (k_inv (w_h w)) Ht Hg). apply andb_false_r.
    + split; [exact He|split].
      * intros _. destruct (C eq_refl) as [C1|C1]; [left; congruence|now right].
      * intros Ht Hg. rewrite (Hnt h (mkLog (h_key h) (qi_targeted it) tag (qi_ev it) (qi_target it) (w_resets w) ritems views) (k_inv (w_h w)) Ht Hg). apply andb_false_r.
Qed.

Lemma run_handlers_res w0 hl : NInv w0 -> TG w0 -> forall w it tag loc sent, registries w = registries w0 -> w_hs w = w_hs w0 ->
  let r := run_handlers beh hl w it tag loc sent in
  let w' := fst (fst (fst (fst r))) in let sent' := snd (fst (fst r)) in
  w_ents w' = w_ents w /\ (forall x, In x sent -> In x sent') /\
  (snd r = None -> ro w' = ro w \/ exists x, In x sent' /\ spawn_item w0 x) /\
  (qi_targeted it = false -> tag = G_SPAWN -> snd (fst r) = false).
Proof.
  intros HN HT. induction hl as [|hk rest IH]; intros w it tag loc sent Hr Hh; cbn zeta; cbn [run_handlers]; [cbn [fst snd]; auto|].
  destruct (sm_get hk (w_hs w)) as [h|] eqn:Eh; [|cbn [fst snd]; split; [reflexivity|split; [auto|split; [discriminate|reflexivity]]]].
  pose proof (run_handler_res w h it tag loc) as Hres. cbn zeta in Hres.
  assert (Hr1 : registries (snd (run_handler beh w h it tag loc)) = registries w) by (apply (r_run_handler registries); fr).
  pose proof (sl_run_handler beh w h it tag loc) as Hs1.
  destruct (run_handler beh w h it tag loc) as [r w1]. cbn [fst snd] in *. destruct Hres as (A & B & C).
  assert (Hsok : sender_ok w0 h) by (apply (HN hk h); unfold hlive; now rewrite <- Hh).
  assert (Hstep : hr_fail r = None -> ro w1 = ro w \/ exists x, In x (sent ++ hr_sent r) /\ spawn_item w0 x).
  { intros Hn. destruct (B Hn) as [B1|(x & Hx & Hp)]; [now left|right]. exists x. split; [apply in_or_app; now right|]. eapply pushed_spawn_item; eauto. }
  assert (Hro_drop : forall t0 tg ev0, ro (ev_drop w1 t0 tg ev0) = ro w1) by (intros; apply (r_ev_drop ro); fr).
  destruct (hr_fail r) as [f|] eqn:Ef.
  - cbn [fst snd]. split; [destruct (hr_taken r); [rewrite (r_ev_drop w_ents ltac:(fr))|]; exact A|]. split; [intros x Hx; apply in_or_app; now left|]. split; [discriminate|].
    intros Ht Hg. exact (C Ht Hg).
  - destruct (hr_taken r) eqn:Etk.
    + cbn [fst snd]. split; [rewrite (r_ev_drop w_ents ltac:(fr)); exact A|]. split; [intros x Hx; apply in_or_app; now left|]. split.
      * intros _. destruct (Hstep eq_refl) as [S1|S1]; [left; now rewrite Hro_drop|now right].
      * intros Ht Hg. discriminate (C Ht Hg).
    + assert (Hh1 : w_hs w1 = w_hs w0) by (destruct (structureL_arch w w1 Hs1) as (X & _); congruence).
      specialize (IH w1 (mkQ (qi_targeted it) (qi_idx it) (qi_target it) (hr_ev r)) tag loc (sent ++ hr_sent r) ltac:(congruence) Hh1).
      cbn zeta in IH. cbn [qi_targeted] in IH. destruct IH as (A' & B' & C' & D').
      split; [congruence|]. split; [intros x Hx; apply B'; apply in_or_app; now left|]. split; [|exact D'].
      intros Hn. destruct (C' Hn) as [C1|C1]; [|now right]. destruct (Hstep eq_refl) as [S1|(x & Hx & Hp)]; [left; congruence|right; exists x; split; [now apply B'|exact Hp]].
Qed.

(* ---------- one delivery ---------- *)
Definition J (w : world) (q : list qitem) : Prop := Quiet w \/ exists it, In it q /\ spawn_item w it.

Lemma sm_remove_len {V} k (m : smap V) v m' : sm_remove k m = Some (v, m') -> length (slots m') = length (slots m).
Proof.
  unfold sm_remove. destruct (sget (slots m) (fst k)) as [s|]; [|discriminate]. destruct (gen s =? snd k); [|discriminate].
  destruct (val s); [|discriminate]. destruct (wrap_succ (gen s) =? 0); intros H; inversion H; subst; cbn [slots]; now rewrite supd_upd, upd_length.
Qed.

Lemma remove_entity_el w loc : elen (res_world (remove_entity w loc)) = elen w /\ w_rcnt (res_world (remove_entity w loc)) = w_rcnt w.
Proof.
  split; [|apply (r_remove_entity w_rcnt); fr].
  unfold remove_entity. destruct loc as [ai row]. destruct (slab_get (w_archs w) ai) as [a|]; [|reflexivity].
  destruct (nget (a_rows a) row) as [[e vals]|]; [|reflexivity]. cbn zeta.
  set (w2 := set_archs _ _).
  assert (E2 : elen w2 = elen w) by (apply eo_elen; unfold w2; now rewrite eo_set_archs, eo_drop_fold).
  destruct (sm_remove e (w_ents w2)) as [[v ents']|] eqn:Er; [|exact E2]. cbn zeta.
  assert (E3 : elen (set_ents w2 ents') = elen w) by (rewrite <- E2; unfold elen; cbn [w_ents set_ents]; now rewrite (sm_remove_len _ _ _ _ Er)).
  set (w3 := set_ents w2 ents') in *.
  destruct (nget (a_rows (set_rows a (swap_remove (a_rows a) row))) row) as [[de dv]|].
  - destruct (sm_get de (w_ents w3)) as [l|]; [|exact E3].
    pose proof (eo_set_loc w3 de (fst l, row)) as Hl. destruct (set_loc w3 de (fst l, row)) as [[] w4|f w4]; cbn [rbind res_world] in *.
    + rewrite <- E3, <- (eo_elen _ _ Hl). apply eo_elen. destruct (nlen _ =? 0); [apply eo_notify_remove|reflexivity].
    + rewrite <- E3. now apply eo_elen.
  - cbn [rbind res_world]. rewrite <- E3. apply eo_elen. destruct (nlen _ =? 0); [apply eo_notify_remove|reflexivity].
Qed.

Lemma gkind_spawn tag : gkind tag = KSpawn -> tag = G_SPAWN.
Proof. unfold gkind. destruct (tag =? G_SPAWN) eqn:E; [intros _; now apply N.eqb_eq|discriminate]. Qed.

Lemma builtin_effect_Q kind ev loc w1 : 
  let r := builtin_effect kind ev loc w1 in
  elen w1 <= elen (res_world r) /\
  (elen (res_world r) < U32MAX -> match r with RFail _ _ => True | ROk _ w3 =>
      match kind with KSpawn | KDespawn => Quiet w3 | _ => eo w3 = eo w1 end end).
Proof.
  cbn zeta. destruct kind as [|c|c| |]; cbn [builtin_effect].
  - cbn [res_world]. split; [lia|reflexivity].
  - pose proof (eo_traverse_insert w1 (fst loc) c) as H1. destruct (traverse_insert w1 (fst loc) c) as [d w2|f w2]; cbn [rbind res_world] in *.
    + pose proof (eo_move_entity w2 loc d (Some (c, (ev_ser ev, ev_val ev)))) as H2. rewrite (eo_elen _ _ (eq_trans H2 H1)). split; [lia|]. intros _.
      destruct (move_entity w2 loc d _); [cbn [res_world] in H2; congruence|exact I].
    + rewrite (eo_elen _ _ H1). split; [lia|auto].
  - pose proof (eo_traverse_remove w1 (fst loc) c) as H1. destruct (traverse_remove w1 (fst loc) c) as [d w2|f w2]; cbn [rbind res_world] in *.
    + pose proof (eo_move_entity w2 loc d None) as H2. rewrite (eo_elen _ _ (eq_trans H2 H1)). split; [lia|]. intros _.
      destruct (move_entity w2 loc d None); [cbn [res_world] in H2; congruence|exact I].
    + rewrite (eo_elen _ _ H1). split; [lia|auto].
  - destruct (spawn_all_Quiet w1) as [A B]. split; [exact A|]. intros H. specialize (B H). destruct (spawn_all w1); [exact B|exact I].
  - destruct (spawn_all_Quiet w1) as [A B]. destruct (spawn_all w1) as [[] w2|f w2]; cbn [rbind res_world] in *; [|split; [exact A|auto]].
    destruct (remove_entity_el w2 loc) as [E1 E2]. destruct (remove_entity w2 loc) as [[] w3|f w3]; cbn [rbind res_world] in *.
    + unfold refresh_cursor. assert (Ee : elen (set_res w3 (next_key_iter (w_ents w3)) (w_rcnt w3)) = elen w3) by reflexivity. rewrite Ee, E1.
      split; [exact A|]. intros H. destruct (B H) as [Q1 _]. split; cbn [w_rcnt w_rcur w_ents set_res]; [congruence|reflexivity].
    + rewrite E1. split; [exact A|auto].
Qed.

Lemma deliver_one_Q it w : ZI w -> TG w ->
  let r := deliver_one beh it w in let w' := snd (fst r) in
  elen w <= elen w' /\ (elen w' < U32MAX -> snd r = None -> forall rest, J w (rest ++ [it]) -> J w' (rest ++ fst (fst r))).
Proof.
  intros HZ T1. cbn zeta. destruct HZ as [_ (_ & _ & HN & _)]. unfold deliver_one.
  (* J through a step that keeps the reservation state, for an item that is not an applied Spawn *)
  assert (Hkeep : forall w' sent rest, eo w' = eo w -> registries w' = registries w -> ~ spawn_item w it -> J w (rest ++ [it]) -> J w' (rest ++ sent)).
  { intros w' sent rest He Hr Hns [Q|(x & Hx & Hs)]; [left; eapply eo_Quiet; eauto|]. right. exists x. split; [|eapply spawn_item_reg; eauto].
    apply in_app_or in Hx as [Hx|[<-|[]]]; [apply in_or_app; now left|contradiction]. }
  assert (Hfin : forall tag kind hl loc, (spawn_item w it -> tag = G_SPAWN /\ kind = KSpawn /\ qi_targeted it = false) ->
     let r := (let '(w1, ev, sent, taken, fl) := run_handlers beh hl w it tag loc [] in
              match fl with
              | Some f => (sent, (if taken then w1 else ev_drop w1 (qi_targeted it) tag ev), Some f)
              | None => if taken then (sent, w1, None) else
                  match kind with
                  | KNormal => (sent, ev_drop w1 (qi_targeted it) tag ev, None)
                  | _ => let '(w3, f) := fail_of (builtin_effect kind ev loc w1) in (sent, w3, f)
                  end
              end) in
     elen w <= elen (snd (fst r)) /\ (elen (snd (fst r)) < U32MAX -> snd r = None -> forall rest, J w (rest ++ [it]) -> J (snd (fst r)) (rest ++ fst (fst r)))).
  { intros tag kind hl loc Hsp. pose proof (run_handlers_res w hl HN T1 w it tag loc [] eq_refl eq_refl) as Hres. cbn zeta in Hres.
    assert (Hreg : registries (fst (fst (fst (fst (run_handlers beh hl w it tag loc []))))) = registries w) by (apply (r_run_handlers registries); fr).
    destruct (run_handlers beh hl w it tag loc []) as [[[[w1 ev] sent] taken] fl]. cbn [fst snd] in Hres, Hreg. destruct Hres as (A & _ & C & D).
    assert (El1 : elen w1 = elen w) by (unfold elen; now rewrite A).
    assert (Hsent : forall w' rest, registries w' = registries w -> (exists x, In x sent /\ spawn_item w x) -> J w' (rest ++ sent)).
    { intros w' rest Hr (x & Hx & Hs). right. exists x. split; [apply in_or_app; now right|eapply spawn_item_reg; eauto]. }
    destruct fl as [f|]; cbn zeta.
    { cbn [fst snd]. split; [|discriminate]. destruct taken; [lia|]. rewrite (eo_elen _ _ (eo_ev_drop _ _ _ _)). lia. }
    specialize (C eq_refl).
    destruct taken.
    { cbn [fst snd]. split; [lia|]. intros _ _ rest HJ. destruct C as [C|C]; [|now apply Hsent].
      apply Hkeep; [now apply ro_eo|exact Hreg| |exact HJ]. intros Hs. destruct (Hsp Hs) as (E1 & _ & E3). discriminate (D E3 E1). }
    destruct kind as [|c|c| |] eqn:Ek.
    - cbn [fst snd]. rewrite (eo_elen _ _ (eo_ev_drop _ _ _ _)). split; [lia|]. intros _ _ rest HJ.
      assert (Hr2 : registries (ev_drop w1 (qi_targeted it) tag ev) = registries w) by (rewrite registries_ev_drop; exact Hreg).
      destruct C as [C|C]; [|now apply Hsent].
      apply Hkeep; [rewrite eo_ev_drop; now apply ro_eo|exact Hr2| |exact HJ]. intros Hs. destruct (Hsp Hs) as (_ & E2 & _). discriminate.
    - pose proof (builtin_effect_Q (KInsert c) ev loc w1) as HB. cbn zeta in HB.
      assert (Hr2 : registries (res_world (builtin_effect (KInsert c) ev loc w1)) = registries w) by (rewrite (r_builtin_effect registries) by fr; exact Hreg).
      destruct (builtin_effect (KInsert c) ev loc w1) as [[] w3|f w3]; cbn [fail_of fst snd res_world] in *; (split; [lia|]); [|discriminate].
      intros Hl _ rest HJ. destruct HB as [_ HB]. specialize (HB Hl). destruct C as [C|C]; [|now apply Hsent].
      apply Hkeep; [rewrite HB; now apply ro_eo|exact Hr2| |exact HJ]. intros Hs. destruct (Hsp Hs) as (_ & E2 & _). discriminate.
    - pose proof (builtin_effect_Q (KRemove c) ev loc w1) as HB. cbn zeta in HB.
      assert (Hr2 : registries (res_world (builtin_effect (KRemove c) ev loc w1)) = registries w) by (rewrite (r_builtin_effect registries) by fr; exact Hreg).
      destruct (builtin_effect (KRemove c) ev loc w1) as [[] w3|f w3]; cbn [fail_of fst snd res_world] in *; (split; [lia|]); [|discriminate].
      intros Hl _ rest HJ. destruct HB as [_ HB]. specialize (HB Hl). destruct C as [C|C]; [|now apply Hsent].
      apply Hkeep; [rewrite HB; now apply ro_eo|exact Hr2| |exact HJ]. intros Hs. destruct (Hsp Hs) as (_ & E2 & _). discriminate.
    - pose proof (builtin_effect_Q KSpawn ev loc w1) as HB. cbn zeta in HB.
      destruct (builtin_effect KSpawn ev loc w1) as [[] w3|f w3]; cbn [fail_of fst snd res_world] in *; (split; [lia|]); [|discriminate].
      intros Hl _ rest _. left. exact (proj2 HB Hl).
    - pose proof (builtin_effect_Q KDespawn ev loc w1) as HB. cbn zeta in HB.
      destruct (builtin_effect KDespawn ev loc w1) as [[] w3|f w3]; cbn [fail_of fst snd res_world] in *; (split; [lia|]); [|discriminate].
      intros Hl _ rest _. left. exact (proj2 HB Hl). }
  destruct (qi_targeted it) eqn:Etg.
  - destruct (get_by_index (w_tev w) (qi_idx it)) as [[k info]|]; [|cbn [fst snd]; split; [lia|discriminate]].
    destruct (sm_get (qi_target it) (w_ents w)) as [loc|].
    + destruct (slab_get (w_archs w) (fst loc)); [|cbn [fst snd]; split; [lia|discriminate]]. apply Hfin. intros [X _]. congruence.
    + cbn [fst snd]. rewrite (eo_elen _ _ (eo_ev_drop _ _ _ _)). split; [lia|]. intros _ _ rest HJ. rewrite app_nil_r.
      replace rest with (rest ++ []) by apply app_nil_r. apply Hkeep; [apply eo_ev_drop|apply registries_ev_drop| |exact HJ]. intros [X _]. congruence.
  - destruct (get_by_index (w_gev w) (qi_idx it)) as [[k info]|] eqn:Eg; [|cbn [fst snd]; split; [lia|discriminate]].
    destruct (nget (w_glists w) (qi_idx it)); [|cbn [fst snd]; split; [lia|discriminate]]. apply Hfin.
    intros (_ & k0 & i0 & Hg0 & Hk0). rewrite Eg in Hg0. inversion Hg0; subst k0 i0. split; [|split; [exact Hk0|reflexivity]].
    apply gkind_spawn. rewrite <- (T1 _ _ _ Eg). exact Hk0.
Qed.

Lemma deliver_one_TG it w : TG w -> TG (snd (fst (deliver_one beh it w))).
Proof. apply TG_reg. apply deliver_one_keeps_registries. Qed.

Lemma J_rev w rest sent : J w (rest ++ sent) -> J w (rest ++ rev sent).
Proof.
  intros [Q|(x & Hx & Hs)]; [now left|right]. exists x. split; [|exact Hs].
  apply in_app_or in Hx as [Hx|Hx]; apply in_or_app; [now left|right; now apply in_rev in Hx].
Qed.

(* ---------- the whole stack machine ---------- *)
Theorem flush_loop_Q : forall n q (st : wst) acc tr st' oc,
  Loop.flush wst qitem (run_w beh) unwind_w n q st acc = Some (tr, st', oc) ->
  ZI (fst st) -> ~ ubf (snd st) -> TG (fst st) -> (forall x, In x q -> item_ok (fst st) x) ->
  elen (fst st) <= elen (fst st') /\ (elen (fst st') < U32MAX -> (oc = Aborted -> Quiet (fst st')) /\ (J (fst st) q -> Quiet (fst st'))).
Proof.
  induction n as [|n IH]; intros q st acc tr st' oc H HZ Hnu HT HQ; [discriminate|].
  cbn [Loop.flush] in H. destruct (rev q) as [|e r] eqn:Er.
  - unfold step in H. rewrite Er in H. inversion H; subst. split; [lia|]. intros _. split; [discriminate|]. intros [Qu|(x & Hx & _)]; [exact Qu|].
    assert (q = []) by (destruct q as [|y q]; [reflexivity|]; cbn in Er; destruct (rev q); discriminate). subst q. destruct Hx.
  - assert (Hq : q = rev r ++ [e]) by (rewrite <- (rev_involutive q), Er; reflexivity).
    rewrite Hq, step_snoc in H. assert (Qe : item_ok (fst st) e) by (apply HQ; rewrite Hq; apply in_or_app; right; now left).
    unfold run_w in H.
    pose proof (deliver_one_ZI beh e (fst st) HZ) as Z1. pose proof (deliver_one_TG e (fst st) HT) as T1.
    pose proof (deliver_one_Q e (fst st) HZ HT) as HD. cbn zeta in HD.
    assert (Hn1 : ~ ubf (snd (deliver_one beh e (fst st)))).
    { destruct HZ as [[HDI HS] _]. apply (deliver_one_no_ub beh e (fst st) HDI HS). unfold item_ok, greg, treg in Qe. destruct (qi_targeted e); exact Qe. }
    pose proof (fun x => deliver_one_sent beh e (fst st) x (proj1 (proj2 (proj2 (proj2 HZ))))) as Hsent.
    pose proof (deliver_one_keeps_registries beh e (fst st)) as Hr.
    destruct (deliver_one beh e (fst st)) as [[sent w2] fl2]. cbn [fst snd] in *. destruct HD as [El HJ].
    destruct fl2 as [f|].
    + (* unwinding *)
      inversion H; subst st'. clear H. unfold unwind_w. cbn [fst snd]. destruct f as [k|s]; [|exfalso; apply Hn1; exact I]. cbn [fst].
      destruct (spawn_all_Quiet (unwind_queue (rev r ++ sent) w2)) as [A B].
      assert (Ew : res_world (spawn_all (unwind_queue (rev r ++ sent) w2)) = match spawn_all (unwind_queue (rev r ++ sent) w2) with ROk _ w3 => w3 | RFail _ w3 => w3 end) by (destruct (spawn_all _); reflexivity).
      rewrite <- Ew. rewrite (eo_elen _ _ (eo_unwind_queue _ _)) in A. split; [lia|]. intros Hl. split; intros _; exact (B Hl).
    + specialize (IH _ _ _ _ _ _ H Z1 ltac:(cbn; tauto) T1). cbn [fst snd] in IH.
      assert (HQ1 : forall x, In x (rev r ++ rev sent) -> item_ok w2 x).
      { intros x Hin. apply in_app_or in Hin as [Hin|Hin]; apply (item_ok_reg (fst st)); try exact Hr.
        - apply HQ. rewrite Hq. apply in_or_app. now left.
        - apply Hsent. now apply in_rev. }
      destruct (IH HQ1) as [El2 HJ2]. split; [lia|]. intros Hl. destruct (HJ2 Hl) as [HA2 HJ3]. split; [exact HA2|]. intros HJ0. apply HJ3. apply J_rev.
      apply HJ; [lia|reflexivity|]. now rewrite <- Hq.
Qed.

(* a whole flush: slot counts only grow; if the world was quiet, or a Spawn event is among the queued
   ones, it is quiet afterwards (FPanic 8 = the model's own delivery budget ran out: nothing is claimed) *)
Theorem flush_Q q w : ZI w -> TG w -> (forall x, In x q -> item_ok w x) ->
  elen w <= elen (res_world (flush beh q w)) /\
  (elen (res_world (flush beh q w)) < U32MAX -> res_fail (flush beh q w) <> Some (FPanic 8) ->
     (res_fail (flush beh q w) <> None -> Quiet (res_world (flush beh q w))) /\ (J w q -> Quiet (res_world (flush beh q w)))).
Proof.
  intros HZ HT HQ. pose proof (aborted_has_failure beh FUEL q (w, None) []) as Hab. unfold flush, flush_loop.
  destruct (Loop.flush wst qitem (run_w beh) unwind_w FUEL q (w, None) []) as [[[tr [w1 fl]] oc]|] eqn:E.
  2:{ cbn [res_world res_fail]. split; [lia|]. intros _ X. now contradiction X. }
  destruct (flush_loop_Q _ _ _ _ _ _ _ E HZ ltac:(cbn; tauto) HT HQ) as [A B]. cbn [fst] in A, B.
  destruct oc.
  - cbn [res_world res_fail]. assert (Ee : eo (set_resets w1 (w_resets w1 + 1)) = eo w1) by reflexivity. rewrite (eo_elen _ _ Ee). split; [exact A|].
    intros Hl _. split; [intros X; now contradiction X|]. intros HJ. eapply eo_Quiet; [exact Ee|]. now apply (proj2 (B Hl)).
  - specialize (Hab _ _ eq_refl). cbn [snd] in Hab. destruct fl as [f|]; [|contradiction]. cbn [res_world res_fail]. split; [exact A|]. intros Hl _. destruct (B Hl) as [B1 B2]. split; [intros _; now apply B1|exact B2].
Qed.

(* ---------- every call ---------- *)
(* the call did not end with the model's delivery budget (8) or a registry's capacity (5) exhausted *)
Definition nofuel {A} (r : res A) : Prop := res_fail r <> Some (FPanic 8) /\ res_fail r <> Some (FPanic 5).
Definition KR {A} (w : world) (r : res A) : Prop :=
  elen w <= elen (res_world r) /\ TG (res_world r) /\ (elen (res_world r) < U32MAX -> nofuel r -> Quiet w -> Quiet (res_world r)).

Lemma KR_ok {A} (a : A) w w' : eo w' = eo w -> TG w' -> KR w (ROk a w').
Proof. intros H HT. split; cbn [res_world]; [rewrite (eo_elen _ _ H); lia|]. split; [exact HT|]. intros _ _. now apply eo_Quiet. Qed.
Lemma KR_fail {A} f w w' : eo w' = eo w -> TG w' -> KR w (@RFail A f w').
Proof. intros H HT. split; cbn [res_world]; [rewrite (eo_elen _ _ H); lia|]. split; [exact HT|]. intros _ _. now apply eo_Quiet. Qed.
Lemma rbind_KR {A B} (r : res A) (f : A -> world -> res B) w :
  KR w r -> (forall a w1, r = ROk a w1 -> TG w1 -> KR w1 (f a w1)) -> KR w (rbind r f).
Proof.
  intros (A1 & A2 & A3) Hf. destruct r as [a w1|e w1]; cbn [rbind res_world] in *; [|split; [exact A1|split; [exact A2|exact A3]]].
  destruct (Hf a w1 eq_refl A2) as (B1 & B2 & B3). split; [lia|]. split; [exact B2|]. intros Hl Hn Hq. apply B3; [exact Hl|exact Hn|]. apply A3; [lia|split; discriminate|exact Hq].
Qed.
Lemma KR_seq {A B} (a : A) w w1 (r : res B) : KR w (ROk a w1) -> KR w1 r -> KR w r.
Proof. intros H1 H2. change r with (rbind (ROk a w1) (fun _ _ => r)). eapply rbind_KR; [exact H1|]. intros a0 w0 E _. inversion E; subst. exact H2. Qed.
Lemma KR_pre {A} w0 w (r : res A) : eo w = eo w0 -> KR w r -> KR w0 r.
Proof. intros H (A1 & A2 & A3). split; [rewrite <- (eo_elen _ _ H); exact A1|]. split; [exact A2|]. intros Hl Hn Hq. apply A3; auto. eapply eo_Quiet; eauto. Qed.
Lemma KR_post_fail {A B} w e w1 w1' : KR w (@RFail A e w1) -> eo w1' = eo w1 -> w_gev w1' = w_gev w1 -> KR w (@RFail B e w1').
Proof.
  intros (A1 & A2 & A3) He Hg. unfold KR. cbn [res_world] in *. split; [rewrite (eo_elen _ _ He); exact A1|]. split; [eapply TG_gev; eauto|].
  intros Hl Hn Hq. eapply eo_Quiet; [exact He|]. apply A3; [rewrite <- (eo_elen _ _ He); exact Hl|exact Hn|exact Hq].
Qed.
Lemma KR_map {A B} w (r : res A) (g : A -> B) : KR w r -> KR w (rbind r (fun a w1 => ROk (g a) w1)).
Proof. intros H. eapply rbind_KR; [exact H|]. intros a w1 _ HT. now apply KR_ok. Qed.

Lemma flush_KR q w : ZI w -> TG w -> (forall x, In x q -> item_ok w x) -> KR w (flush beh q w).
Proof.
  intros HZ HT HQ. destruct (flush_Q q w HZ HT HQ) as [A B]. split; [exact A|]. split; [eapply TG_reg; [apply registries_flush|exact HT]|].
  intros Hl Hn Hq. apply (B Hl (proj1 Hn)). now left.
Qed.
(* a flush whose queue holds a Spawn event ends quiet whatever was pending before *)
Lemma flush_KR_spawn q w : ZI w -> TG w -> (forall x, In x q -> item_ok w x) -> (exists it, In it q /\ spawn_item w it) ->
  elen w <= elen (res_world (flush beh q w)) /\ TG (res_world (flush beh q w)) /\
  (elen (res_world (flush beh q w)) < U32MAX -> nofuel (flush beh q w) -> Quiet (res_world (flush beh q w))).
Proof.
  intros HZ HT HQ Hs. destruct (flush_Q q w HZ HT HQ) as [A B]. split; [exact A|]. split; [eapply TG_reg; [apply registries_flush|exact HT]|].
  intros Hl Hn. apply (B Hl (proj1 Hn)). now right.
Qed.

Lemma gev_KR fuel : forall tag w, ZI w -> TG w ->
  KR w (add_global_event beh fuel tag w) /\ forall ev, KR w (send_global beh fuel tag ev w).
Proof.
  induction fuel as [|f IH]; intros tag w HZ HT; [split; [|intros ev]; now apply KR_fail|].
  assert (Hadd : KR w (add_global_event beh (S f) tag w)).
  { rewrite add_global_event_S. destruct (alookup tag (w_gby w)); [now apply KR_ok|].
    destruct (insert_with (fun _ => mkE tag (gkind tag)) (w_gev w)) as [[k m]|] eqn:Ei; [|now apply KR_fail]. cbn zeta.
    destruct (gev_entry_ZI w tag k m HZ Ei) as (HZ2 & _). cbn zeta in HZ2. set (w2 := set_glists _ _) in *.
    assert (HT2 : TG w2).
    { intros i k' info Hg. unfold w2 in Hg. cbn [w_gev set_glists set_hreg set_gev] in Hg. destruct (gbi_insert _ _ _ _ _ _ _ Ei Hg) as [->|Hold]; [reflexivity|eauto]. }
    apply (KR_pre w w2); [reflexivity|]. apply KR_map. exact (proj2 (IH G_ADDGE w2 HZ2 HT2) _). }
  split; [exact Hadd|]. intros ev. rewrite send_global_S. destruct (IH tag w HZ HT) as [Ka _]. destruct (gev_ZOK beh f tag w HZ) as [(Z1 & N1 & P1) _].
  destruct (add_global_event beh f tag w) as [k w1|e w1]; cbn [res_world] in *.
  - destruct P1 as [_ [Hg _]]. assert (HT1 : TG w1) by exact (proj1 (proj2 Ka)).
    assert (HZ2 : ZI (if 10 <? tag then note w1 tag (ev_id ev) else w1)) by (destruct (10 <? tag); exact Z1).
    assert (Hr : registries (if 10 <? tag then note w1 tag (ev_id ev) else w1) = registries w1) by (destruct (10 <? tag); reflexivity).
    assert (He : eo (if 10 <? tag then note w1 tag (ev_id ev) else w1) = eo w1) by (destruct (10 <? tag); reflexivity).
    eapply KR_seq; [exact Ka|]. apply (KR_pre w1 _ _ He). apply flush_KR; [exact HZ2|eapply TG_reg; eauto|].
    intros x [<-|[]]. apply (item_ok_reg w1); [exact Hr|exact Hg].
  - eapply KR_post_fail; [exact Ka|apply eo_ev_drop|apply (r_ev_drop w_gev); fr].
Qed.
Lemma send_global_KR tag ev w : ZI w -> TG w -> KR w (send_global beh RFUEL tag ev w).
Proof. intros HZ HT. exact (proj2 (gev_KR RFUEL tag w HZ HT) ev). Qed.
Lemma add_global_event_KR tag w : ZI w -> TG w -> KR w (add_global_event beh RFUEL tag w).
Proof. intros HZ HT. exact (proj1 (gev_KR RFUEL tag w HZ HT)). Qed.

Lemma add_component_KR tag w : ZI w -> TG w -> KR w (add_component beh tag w).
Proof.
  intros HZ HT. unfold add_component. destruct (alookup tag (w_cby w)) as [k0|] eqn:El; [now apply KR_ok|].
  destruct (insert_with (fun _ => mkC tag [] [] []) (w_comps w)) as [[k m]|] eqn:Ei; [|now apply KR_fail].
  assert (HZ1 : ZI (set_comps w m (ainsert tag k (w_cby w)))) by (apply (ZI_intro _ w); [apply add_component_entry_DI; [exact (proj1 (proj1 HZ))|exact El|exact Ei]|reflexivity|reflexivity|exact HZ]).
  apply (KR_pre w (set_comps w m (ainsert tag k (w_cby w)))); [reflexivity|]. apply KR_map. apply send_global_KR; [exact HZ1|exact HT].
Qed.

Lemma tev_stage1_KR tag w : ZI w -> TG w -> KR w (tev_stage1 beh tag w).
Proof.
  intros HZ HT. unfold tev_stage1.
  destruct ((20 <=? tag) && (tag <? 40)); [apply KR_map; now apply add_component_KR|].
  destruct ((40 <=? tag) && (tag <? 60)); [apply KR_map; now apply add_component_KR|].
  destruct (tag =? T_DESPAWN); now apply KR_ok.
Qed.

Lemma add_targeted_event_KR tag w : ZI w -> TG w -> KR w (add_targeted_event beh tag w).
Proof.
  intros HZ HT. rewrite add_targeted_event_unfold. pose proof (tev_stage1_ZOK beh tag w HZ) as (Z0 & N0 & P0).
  destruct (tev_stage1_FInv beh tag w (proj1 (DI_parts _ (proj1 (proj1 HZ))))) as [_ Hl].
  eapply rbind_KR; [now apply tev_stage1_KR|]. intros kind w0 E HT0. rewrite E in *. cbn [res_world] in *.
  destruct (alookup tag (w_tby w0)) as [k0|]; [now apply KR_ok|].
  destruct (insert_with (fun _ => mkE tag kind) (w_tev w0)) as [[k m]|] eqn:Ei; [|now apply KR_fail].
  destruct (tev_entry_ZI w0 tag kind k m Z0 Hl Ei) as (HZ1 & _ & _).
  assert (Eg : w_gev (tev_entry_world w0 tag kind k m) = w_gev w0) by (unfold tev_entry_world; destruct kind; reflexivity).
  assert (Ee : eo (tev_entry_world w0 tag kind k m) = eo w0) by (unfold tev_entry_world; destruct kind; reflexivity).
  change (match kind with | KInsert c => _ | KRemove c => _ | _ => set_tev w0 m (ainsert tag k (w_tby w0)) end) with (tev_entry_world w0 tag kind k m).
  apply (KR_pre w0 _ _ Ee). apply KR_map. apply send_global_KR; [exact HZ1|eapply TG_gev; eauto].
Qed.

Lemma send_to_KR tag target ev w : ZI w -> TG w -> KR w (send_to beh tag target ev w).
Proof.
  intros HZ HT. unfold send_to. pose proof (add_targeted_event_KR tag w HZ HT) as Ka. destruct (add_targeted_event_ZOK beh tag w HZ) as (Z1 & N1 & P1).
  destruct (add_targeted_event beh tag w) as [k w1|e w1]; cbn [res_world] in *.
  - destruct P1 as [_ [Ht _]]. eapply KR_seq; [exact Ka|]. apply flush_KR; [exact Z1|exact (proj1 (proj2 Ka))|]. intros x [<-|[]]. exact Ht.
  - eapply KR_post_fail; [exact Ka|apply eo_ev_drop|apply (r_ev_drop w_gev); fr].
Qed.

Lemma zi_of {A} (r : res A) post a w1 : ZOK r post -> r = ROk a w1 -> ZI w1 /\ post a w1.
Proof. intros (Z & _ & P) ->. split; [exact Z|exact P]. Qed.

(* a call that is cut short by a panic (not by exhaustion) has gone through the unwinding path, which
   materialises every pending reservation - whatever was pending before the call *)
Definition FQ {A} (r : res A) : Prop :=
  elen (res_world r) < U32MAX -> forall f, res_fail r = Some f -> f <> FPanic 8 -> f <> FPanic 5 -> Quiet (res_world r).

Lemma flush_FQ q w : ZI w -> TG w -> (forall x, In x q -> item_ok w x) -> FQ (flush beh q w).
Proof.
  intros HZ HT HQ Hl f Hf H8 _. destruct (flush_Q q w HZ HT HQ) as [_ B].
  assert (Hn8 : res_fail (flush beh q w) <> Some (FPanic 8)) by (rewrite Hf; congruence).
  destruct (B Hl Hn8) as [B1 _]. apply B1. rewrite Hf. discriminate.
Qed.

Lemma gev_FQ fuel : forall tag w, ZI w -> TG w ->
  FQ (add_global_event beh fuel tag w) /\ forall ev, FQ (send_global beh fuel tag ev w).
Proof.
  induction fuel as [|f IH]; intros tag w HZ HT.
  { split; [|intros ev]; intros _ f0 Hf H8; cbn [add_global_event send_global res_fail] in Hf; congruence. }
  assert (Hadd : FQ (add_global_event beh (S f) tag w)).
  { rewrite add_global_event_S. destruct (alookup tag (w_gby w)); [intros _ f0 Hf; discriminate|].
    destruct (insert_with (fun _ => mkE tag (gkind tag)) (w_gev w)) as [[k m]|] eqn:Ei; [|intros _ f0 Hf _ H5; cbn [res_fail] in Hf; congruence]. cbn zeta.
    destruct (gev_entry_ZI w tag k m HZ Ei) as (HZ2 & _). cbn zeta in HZ2. set (w2 := set_glists _ _) in *.
    assert (HT2 : TG w2).
    { intros i k' info Hg. unfold w2 in Hg. cbn [w_gev set_glists set_hreg set_gev] in Hg. destruct (gbi_insert _ _ _ _ _ _ _ Ei Hg) as [->|Hold]; [reflexivity|eauto]. }
    pose proof (proj2 (IH G_ADDGE w2 HZ2 HT2) (mkEv 0 0 k)) as Hs.
    destruct (send_global beh f G_ADDGE (mkEv 0 0 k) w2) as [[] w3|e w3]; cbn [rbind]; [intros _ f0 Hf; discriminate|exact Hs]. }
  split; [exact Hadd|]. intros ev. rewrite send_global_S. destruct (IH tag w HZ HT) as [Ka _]. destruct (gev_ZOK beh f tag w HZ) as [(Z1 & N1 & P1) _].
  pose proof (proj1 (gev_KR f tag w HZ HT)) as Kr.
  destruct (add_global_event beh f tag w) as [k w1|e w1]; cbn [res_world] in *.
  - destruct P1 as [_ [Hg _]]. assert (HT1 : TG w1) by exact (proj1 (proj2 Kr)).
    assert (HZ2 : ZI (if 10 <? tag then note w1 tag (ev_id ev) else w1)) by (destruct (10 <? tag); exact Z1).
    assert (Hr : registries (if 10 <? tag then note w1 tag (ev_id ev) else w1) = registries w1) by (destruct (10 <? tag); reflexivity).
    apply flush_FQ; [exact HZ2|eapply TG_reg; eauto|]. intros x [<-|[]]. apply (item_ok_reg w1); [exact Hr|exact Hg].
  - intros Hl f0 Hf H8 H5. cbn [res_world res_fail] in *. assert (Hl1 : elen w1 < U32MAX) by (rewrite <- (eo_elen _ _ (eo_ev_drop w1 false tag ev)); exact Hl).
    eapply eo_Quiet; [apply eo_ev_drop|]. exact (Ka Hl1 f0 Hf H8 H5).
Qed.


Lemma op_spawn_KR w : ZI w -> TG w -> KR w (op_spawn beh w).
Proof.
  intros HZ HT. unfold op_spawn.
  assert (Hres : forall id w1, reserve w = ROk id w1 -> ZI w1 /\ TG w1 /\ w_ents w1 = w_ents w).
  { unfold reserve. intros id w1. destruct (nki_next (w_rcur w) (w_ents w)) as [[[k|] i']|]; intros H; inversion H; subst. split; [exact HZ|split; [exact HT|reflexivity]]. }
  destruct (reserve w) as [id w1|f w1] eqn:Er; cbn [rbind].
  2:{ unfold reserve in Er. destruct (nki_next (w_rcur w) (w_ents w)) as [[[k|] i']|]; inversion Er; subst; now apply KR_fail. }
  destruct (Hres id w1 eq_refl) as (HZ1 & HT1 & He1). assert (El : elen w1 = elen w) by (unfold elen; now rewrite He1).
  (* send_global RFUEL G_SPAWN: registration (possibly announcing the new event), then the flush of the Spawn event *)
  change RFUEL with (S 7). rewrite send_global_S.
  destruct (gev_KR 7 G_SPAWN w1 HZ1 HT1) as [Ka _]. destruct (gev_ZOK beh 7 G_SPAWN w1 HZ1) as [(Z2 & N2 & P2) _].
  pose proof (proj1 (gev_FQ 7 G_SPAWN w1 HZ1 HT1)) as Kf.
  destruct (add_global_event beh 7 G_SPAWN w1) as [k w2|e w2]; cbn [res_world rbind] in *.
  - destruct P2 as (_ & Hg & _ & Htag). destruct Ka as (K1 & K2 & _). cbn [res_world] in *.
    replace (10 <? G_SPAWN) with false by reflexivity.
    assert (Hsp : spawn_item w2 (mkQ false (fst k) KEY_NULL (mkEv 0 0 id))).
    { split; [reflexivity|]. cbn [qi_idx]. destruct Hg as [Hg _]. destruct (get_by_index (w_gev w2) (fst k)) as [[k0 info]|] eqn:E; [|congruence].
      exists k0, info. split; [reflexivity|]. rewrite (K2 _ _ _ E), (Htag _ _ E). reflexivity. }
    destruct (flush_KR_spawn [mkQ false (fst k) KEY_NULL (mkEv 0 0 id)] w2 Z2 K2) as (F1 & F2 & F3).
    { intros x [<-|[]]. exact Hg. } { eexists. split; [now left|exact Hsp]. }
    destruct (flush beh [mkQ false (fst k) KEY_NULL (mkEv 0 0 id)] w2) as [[] w3|f w3] eqn:Ef; cbn [rbind res_world] in *.
    + split; cbn [res_world]; [change (elen (push_known w3 id)) with (elen w3); lia|]. split; [exact F2|]. intros Hl _ _.
      apply (eo_Quiet (push_known w3 id) w3); [reflexivity|]. apply F3; [exact Hl|split; discriminate].
    + split; cbn [res_world]; [lia|]. split; [exact F2|]. intros Hl Hn _. apply F3; [exact Hl|exact Hn].
  - destruct Ka as (K1 & K2 & _). cbn [res_world] in *. split; cbn [res_world]; [rewrite (eo_elen _ _ (eo_ev_drop _ _ _ _)); lia|].
    split; [eapply TG_gev; [|exact K2]; apply (r_ev_drop w_gev); fr|].
    intros Hl [H8 H5] _. cbn [res_fail] in H8, H5. eapply eo_Quiet; [apply eo_ev_drop|]. rewrite (eo_elen _ _ (eo_ev_drop _ _ _ _)) in Hl.
    apply (Kf Hl e eq_refl); congruence.
Qed.

Lemma op_insert_KR e ktag w : ZI w -> TG w -> KR w (op_insert beh e ktag w).
Proof.
  intros HZ HT. unfold op_insert. destruct (new_cval w ktag) as [v w1] eqn:E.
  assert (Hw : w1 = snd (new_cval w ktag)) by now rewrite E.
  assert (HZ1 : ZI w1) by (subst w1; unfold new_cval; destruct (ctag_zst ktag); exact HZ).
  assert (Ee : eo w1 = eo w) by (subst w1; unfold new_cval; destruct (ctag_zst ktag); reflexivity).
  apply (KR_pre w w1 _ Ee). apply send_to_KR; [exact HZ1|]. eapply TG_gev; [|exact HT]. subst w1; unfold new_cval; destruct (ctag_zst ktag); reflexivity.
Qed.
Lemma op_send_KR gtag w : ZI w -> TG w -> KR w (op_send beh gtag w).
Proof. intros HZ HT. unfold op_send. cbn [fresh_serial]. eapply KR_pre; [|apply send_global_KR; [exact HZ|exact HT]]. reflexivity. Qed.
Lemma op_send_to_KR e ttag w : ZI w -> TG w -> KR w (op_send_to beh e ttag w).
Proof. intros HZ HT. unfold op_send_to. cbn [fresh_serial]. eapply KR_pre; [|apply send_to_KR; [exact HZ|exact HT]]. reflexivity. Qed.

Lemma resolve_query_KR q : forall w, ZI w -> TG w -> KR w (resolve_query beh q w).
Proof.
  induction q as [c|c|qs IH|q IH|l r IHl IHr|l r IHl IHr|q IH|q IH|q IH|] using query_ind'; intros w HZ HT; cbn [resolve_query];
    try (eapply rbind_KR; [now apply add_component_KR|intros ? w1 _ HT1; now apply KR_ok]);
    try (eapply rbind_KR; [now apply IH|intros ? w1 _ HT1; now apply KR_ok]);
    try (eapply rbind_KR; [now apply IHl|intros a w1 E HT1; destruct (zi_of _ _ _ _ (resolve_query_ZOK beh l w HZ) E) as [HZ1 _];
         eapply rbind_KR; [now apply IHr|intros ? w2 _ HT2; now apply KR_ok]]);
    try (now apply KR_ok).
  eapply rbind_KR; [|intros ? w1 _ HT1; now apply KR_ok].
  revert w HZ HT. induction IH as [|x t Hx _ IHt]; intros w HZ HT; [now apply KR_ok|].
  eapply rbind_KR; [now apply Hx|]. intros x' w1 E HT1. destruct (zi_of _ _ _ _ (resolve_query_ZOK beh x w HZ) E) as [HZ1 _].
  eapply rbind_KR; [now apply IHt|]. intros t' w2 _ HT2. now apply KR_ok.
Qed.

Lemma register_set_KR evs : forall w, ZI w -> TG w -> KR w (register_set beh evs w).
Proof.
  induction evs as [|[t tag] rest IH]; intros w HZ HT; cbn [register_set]; [now apply KR_ok|].
  eapply rbind_KR; [destruct t; [now apply add_targeted_event_KR|now apply add_global_event_KR]|].
  intros k w1 E HT1. assert (HZ1 : ZI w1).
  { destruct t; [exact (proj1 (zi_of _ _ _ _ (add_targeted_event_ZOK beh tag w HZ) E))|exact (proj1 (zi_of _ _ _ _ (add_global_event_ZOK beh tag w HZ) E))]. }
  eapply rbind_KR; [now apply IH|]. intros r w2 _ HT2. now apply KR_ok.
Qed.

Lemma init_param_KR p c w : ZI w -> TG w -> KR w (init_param beh p c w).
Proof.
  intros HZ HT. destruct p as [tag m|tag m q|k q|evs]; cbn [init_param].
  - eapply rbind_KR; [now apply add_global_event_KR|]. intros k w1 _ HT1. now apply KR_ok.
  - eapply rbind_KR; [now apply add_targeted_event_KR|]. intros k w1 E HT1. destruct (zi_of _ _ _ _ (add_targeted_event_ZOK beh tag w HZ) E) as [HZ1 _].
    eapply rbind_KR; [now apply resolve_query_KR|]. intros q' w2 _ HT2. cbn zeta. now apply KR_ok.
  - eapply rbind_KR; [now apply resolve_query_KR|]. intros q' w1 _ HT1. now apply KR_ok.
  - eapply rbind_KR; [now apply register_set_KR|]. intros r w1 _ HT1. cbn zeta. now apply KR_ok.
Qed.

Lemma init_params_KR ps : forall c w, ZI w -> TG w -> CfInv3 c w -> CfR c w -> KR w (init_params beh ps c w).
Proof.
  induction ps as [|p t IH]; intros c w HZ HT HC HR; cbn [init_params]; [now apply KR_ok|].
  eapply rbind_KR; [now apply init_param_KR|]. intros c1 w1 E HT1.
  destruct (zi_of _ _ _ _ (init_param_ZOK beh p c w HZ HC HR) E) as [HZ1 (_ & HC1 & HR1)]. now apply IH.
Qed.

Lemma eo_archs_register_handler w hk : eo (archs_register_handler w hk) = eo w.
Proof.
  rewrite archs_register_handler_unfold. apply (fold_left_pres eo). intros w0 [ai x].
  change (arh_step hk w0 (ai, x)) with (match slab_get (w_archs w0) ai, sm_get hk (w_hs w0) with
      | Some a, Some h => let '(a', h') := register_handler ai a h in set_hs (set_archs w0 (slab_set (w_archs w0) ai a')) (upd_by_key (w_hs w0) hk (fun _ => h'))
      | _, _ => w0 end).
  destruct (slab_get (w_archs w0) ai); [|reflexivity]. destruct (sm_get hk (w_hs w0)); [|reflexivity]. destruct (register_handler _ _ _). reflexivity.
Qed.

Lemma add_handler_KR sh w : ZI w -> TG w -> KR w (add_handler beh sh w).
Proof.
  intros HZ HT. unfold add_handler.
  destruct (match sh_tid sh with Some t => alookup t (w_hby w) | None => None end); [now apply KR_ok|].
  pose proof (init_params_CfInv beh (sh_params sh) cfg0 w CfInv_cfg0) as HC. pose proof (init_params_CfInv2 beh (sh_params sh) cfg0 w CfInv2_cfg0) as HC2.
  eapply rbind_KR; [apply init_params_KR; [exact HZ|exact HT|apply CfInv3_cfg0|apply CfR_cfg0]|]. intros c w1 E HT1.
  destruct (zi_of _ _ _ _ (init_params_ZOK beh (sh_params sh) cfg0 w HZ (CfInv3_cfg0 w) (CfR_cfg0 w)) E) as [Z1 (_ & HC3 & HCR)].
  rewrite E in HC, HC2.
  destruct (cf_recv c) as [|rv|] eqn:Erv; try now apply KR_fail. destruct (cf_access c) as [acc|]; [|now apply KR_fail].
  destruct (handler_conflicts (cf_cas c)); [|now apply KR_fail]. cbn zeta.
  change (insert_with _ (w_hs w1)) with (insert_with (new_hinfo w1 sh c rv acc) (w_hs w1)).
  destruct (insert_with (new_hinfo w1 sh c rv acc) (w_hs w1)) as [[k hs]|] eqn:Ei; [|now apply KR_fail].
  match goal with |- context [archs_register_handler ?w2 k] => change (archs_register_handler w2 k) with (new_hworld w1 sh rv k hs) end.
  pose proof (add_handler_entry_ZI w1 sh c rv acc k hs Z1 HC HC2 HC3 HCR Erv Ei) as HZ3.
  assert (Ee : eo (new_hworld w1 sh rv k hs) = eo w1) by (unfold new_hworld; now rewrite eo_archs_register_handler).
  assert (HT3 : TG (new_hworld w1 sh rv k hs)).
  { eapply TG_gev; [|exact HT1]. unfold new_hworld. match goal with |- w_gev (archs_register_handler ?w2 k) = _ => destruct (archs_register_handler_structure w2 k) as [_ Hg]; rewrite Hg end. reflexivity. }
  apply (KR_pre w1 _ _ Ee). eapply rbind_KR; [now apply send_global_KR|]. intros [] w4 _ HT4. now apply KR_ok.
Qed.

Lemma remove_handler_KR k w : ZI w -> TG w -> KR w (remove_handler beh k w).
Proof.
  intros HZ HT. unfold remove_handler. destruct (sm_get k (w_hs w)); [|now apply KR_ok].
  eapply rbind_KR; [now apply send_global_KR|]. intros [] w1 _ HT1.
  unfold handlers_remove. destruct (sm_remove k (w_hs w1)) as [[h1 hs]|]; [|now apply KR_fail]. apply KR_ok; [reflexivity|exact HT1].
Qed.
Lemma remove_handlers_KR ks : forall w, ZI w -> TG w -> KR w (remove_handlers beh ks w).
Proof.
  induction ks as [|k t IH]; intros w HZ HT; cbn [remove_handlers]; [now apply KR_ok|].
  eapply rbind_KR; [now apply remove_handler_KR|]. intros b w1 E HT1. apply IH; [exact (proj1 (zi_of _ _ _ _ (remove_handler_ZOK beh k w HZ) E))|exact HT1].
Qed.

Lemma remove_global_event_KR k w : ZI w -> TG w -> KR w (remove_global_event beh k w).
Proof.
  intros HZ HT. unfold remove_global_event. destruct (sm_get k (w_gev w)); [|now apply KR_ok].
  eapply rbind_KR; [now apply send_global_KR|]. intros [] w1 E HT1. destruct (zi_of _ _ _ _ (send_global_ZOK beh G_RMGE (mkEv 0 0 k) w HZ) E) as [Z1 _].
  eapply rbind_KR; [now apply remove_handlers_KR|]. intros [] w2 _ HT2.
  destruct (sm_remove k (w_gev w2)) as [[info m]|] eqn:Er; [|now apply KR_fail]. apply KR_ok; [reflexivity|].
  intros i k' info' Hg. cbn [w_gev set_gev] in Hg. eapply HT2. eapply gbi_remove; eauto.
Qed.
Lemma remove_targeted_event_KR k w : ZI w -> TG w -> KR w (remove_targeted_event beh k w).
Proof.
  intros HZ HT. unfold remove_targeted_event. destruct (sm_get k (w_tev w)); [|now apply KR_ok].
  eapply rbind_KR; [now apply send_global_KR|]. intros [] w1 E HT1. destruct (zi_of _ _ _ _ (send_global_ZOK beh G_RMTE (mkEv 0 0 k) w HZ) E) as [Z1 _].
  eapply rbind_KR; [now apply remove_handlers_KR|]. intros [] w2 _ HT2.
  destruct (sm_remove k (w_tev w2)) as [[info m]|] eqn:Er; [|now apply KR_fail]. apply KR_ok; [destruct (e_kind info); reflexivity|].
  eapply TG_gev; [|exact HT2]. destruct (e_kind info); reflexivity.
Qed.
Lemma remove_tevents_KR ks : forall w, ZI w -> TG w -> KR w (remove_tevents beh ks w).
Proof.
  induction ks as [|k t IH]; intros w HZ HT; cbn [remove_tevents]; [now apply KR_ok|].
  eapply rbind_KR; [now apply remove_targeted_event_KR|]. intros b w1 E HT1. apply IH; [exact (proj1 (zi_of _ _ _ _ (remove_targeted_event_ZOK beh k w HZ) E))|exact HT1].
Qed.

Definition el3 (w : world) := (elen w, w_rcnt w, w_gev w).
Lemma el3_rc_step cidx ctag w ai : el3 (rc_step cidx ctag w ai) = el3 w.
Proof.
  unfold rc_step. destruct (slab_get (w_archs w) ai) as [a|]; [|reflexivity]. cbn zeta.
  rewrite (fold_left_pres el3); [rewrite (fold_left_pres el3); [reflexivity|]|].
  - intros w' [e vals]. apply (fold_left_pres el3). intros w'' [c v]. unfold drop_cval. now destruct (ctag_has_drop _).
  - intros w' [e vals]. destruct (sm_remove e (w_ents w')) as [[v m]|] eqn:Er; [|reflexivity].
    unfold el3, elen. cbn [w_ents set_ents w_rcnt w_gev]. now rewrite (sm_remove_len _ _ _ _ Er).
Qed.
Lemma el3_archs_remove_component cidx ctag w l : el3 (archs_remove_component w cidx ctag l) = el3 w.
Proof.
  rewrite archs_remove_component_unfold. change (el3 (strip cidx (fold_left (rc_step cidx ctag) l w))) with (el3 (fold_left (rc_step cidx ctag) l w)).
  apply (fold_left_pres el3). intros w0 ai. apply el3_rc_step.
Qed.

Lemma remove_component_KR k w : ZI w -> TG w -> KR w (remove_component beh k w).
Proof.
  intros HZ HT. unfold remove_component. destruct (sm_get k (w_comps w)); [|now apply KR_ok].
  eapply rbind_KR; [now apply send_global_KR|]. intros [] w1 E1 HT1. destruct (zi_of _ _ _ _ (send_global_ZOK beh G_RMC (mkEv 0 0 k) w HZ) E1) as [Z1 _].
  eapply rbind_KR; [now apply add_targeted_event_KR|]. intros dk w2 E2 HT2. destruct (zi_of _ _ _ _ (add_targeted_event_ZOK beh T_DESPAWN w1 Z1) E2) as [Z2 (_ & Hdk & _)].
  cbn zeta. set (q := flat_map _ (slab_iter (w_archs w2))).
  assert (HQ : forall x, In x q -> item_ok w2 x).
  { intros x Hx. unfold q in Hx. apply in_flat_map in Hx as ([ai a] & _ & Hx). destruct (arch_has a (fst k)); [|destruct Hx].
    apply in_map_iff in Hx as ([e vals] & <- & _). exact Hdk. }
  eapply rbind_KR; [now apply flush_KR|]. intros [] w3 E3 HT3. destruct (zi_of _ _ _ _ (flush_ZOK beh q w2 Z2 HQ) E3) as [Z3 _].
  eapply rbind_KR; [now apply remove_handlers_KR|]. intros [] w4 E4 HT4.
  match type of E4 with remove_handlers beh ?l w3 = _ => destruct (zi_of _ _ _ _ (remove_handlers_ZOK beh l w3 Z3) E4) as [Z4 _] end.
  destruct (sm_get k (w_comps w4)) as [ci|]; [|now apply KR_fail].
  eapply rbind_KR; [now apply remove_tevents_KR|]. intros [] w5 _ HT5.
  destruct (sm_remove k (w_comps w5)) as [[ci' m]|]; [|now apply KR_fail].
  set (w6 := set_comps w5 m (aremove (c_tag ci') (w_cby w5))).
  pose proof (el3_archs_remove_component (fst k) (c_tag ci') w6 (c_member_of ci')) as H7. unfold el3 in H7.
  set (w7 := archs_remove_component w6 (fst k) (c_tag ci') (c_member_of ci')) in *.
  assert (El : elen w7 = elen w5) by exact (f_equal (fun x => fst (fst x)) H7).
  assert (Ec : w_rcnt w7 = w_rcnt w5) by exact (f_equal (fun x => snd (fst x)) H7).
  assert (Eg : w_gev w7 = w_gev w5) by exact (f_equal snd H7).
  unfold KR, refresh_cursor. cbn [res_world]. change (elen (set_res w7 (next_key_iter (w_ents w7)) (w_rcnt w7))) with (elen w7).
  split; [lia|]. split; [eapply TG_gev; [|exact HT5]; exact Eg|]. intros _ _ [Q1 _]. split; cbn [w_rcnt w_rcur w_ents set_res]; [congruence|reflexivity].
Qed.

Lemma run_top_res_KR w o : ZI w -> TG w ->
  let r := run_top_res beh w o in
  elen w <= elen (fst r) /\ TG (fst r) /\ (elen (fst r) < U32MAX -> snd r <> Some (FPanic 8) -> snd r <> Some (FPanic 5) -> Quiet w -> Quiet (fst r)).
Proof.
  intros HZ HT. cbn zeta.
  assert (G : forall A (r : res A), KR w r ->
    elen w <= elen (fst (match r with ROk _ w' => (w', None) | RFail e w' => (w', Some e) end)) /\
    TG (fst (match r with ROk _ w' => (w', None) | RFail e w' => (w', Some e) end)) /\
    (elen (fst (match r with ROk _ w' => (w', None) | RFail e w' => (w', Some e) end)) < U32MAX ->
     snd (match r with ROk _ w' => (w', None) | RFail e w' => (w', Some e) end) <> Some (FPanic 8) ->
     snd (match r with ROk _ w' => (w', @None fail) | RFail e w' => (w', Some e) end) <> Some (FPanic 5) -> Quiet w ->
     Quiet (fst (match r with ROk _ w' => (w', @None fail) | RFail e w' => (w', Some e) end)))).
  { intros A r (K1 & K2 & K3). destruct r as [a w'|e w']; cbn [fst snd res_world] in *; (split; [exact K1|split; [exact K2|]]); intros Hl H8 H5; apply K3; try exact Hl; split; cbn [res_fail]; assumption. }
  destruct o as [o|k]; [destruct o|]; cbn [run_top_res]; apply G.
  - apply op_spawn_KR; assumption. - apply op_insert_KR; assumption.
  - unfold op_remove. apply send_to_KR; assumption. - unfold op_despawn. apply send_to_KR; assumption.
  - apply op_send_KR; assumption. - apply op_send_to_KR; assumption. - apply add_handler_KR; assumption. - apply remove_handler_KR; assumption.
  - apply add_component_KR; assumption. - apply add_global_event_KR; assumption. - apply add_targeted_event_KR; assumption.
  - apply remove_global_event_KR; assumption. - apply remove_targeted_event_KR; assumption. - apply remove_component_KR; assumption.
Qed.
End QStep.

(* ---------- every reachable world ---------- *)
(* no call of the history ended with the model's delivery budget or a registry's capacity exhausted *)
Fixpoint no_exhaustion (beh : hinfo -> logent -> N -> script) (ops : list top_all) (w : world) : Prop :=
  match ops with
  | [] => True
  | o :: t => snd (run_top_res beh w o) <> Some (FPanic 8) /\ snd (run_top_res beh w o) <> Some (FPanic 5) /\
              no_exhaustion beh t (fst (run_top_res beh w o))
  end.

Lemma Quiet_world0 fuel p : Quiet (world0 fuel p). Proof. split; reflexivity. Qed.
Lemma TG_world0 fuel p : TG (world0 fuel p). Proof. intros i k info H. discriminate. Qed.

Theorem reachable_Quiet beh fuel p ops : NoTakeSpawn beh -> no_exhaustion beh ops (world0 fuel p) ->
  let w := fold_left (run_top_all beh) ops (world0 fuel p) in elen w < U32MAX -> Quiet w.
Proof.
  intros Hnt. cbn zeta.
  assert (G : forall ops w, ZI w -> TG w -> no_exhaustion beh ops w ->
     elen w <= elen (fold_left (run_top_all beh) ops w) /\ (elen (fold_left (run_top_all beh) ops w) < U32MAX -> Quiet w -> Quiet (fold_left (run_top_all beh) ops w))).
  { clear ops. induction ops as [|o t IH]; intros w HZ HT Hne; cbn [fold_left]; [split; [lia|auto]|].
    destruct Hne as (H8 & H5 & Hne). pose proof (run_top_res_KR beh Hnt w o HZ HT) as HK. cbn zeta in HK. destruct HK as (K1 & K2 & K3).
    pose proof (proj1 (run_top_res_ZI beh w o HZ)) as HZ1. rewrite <- run_top_res_world.
    destruct (IH _ HZ1 K2 Hne) as [A B]. split; [lia|]. intros Hl Hq. apply B; [exact Hl|]. apply K3; [lia|exact H8|exact H5|exact Hq]. }
  intros Hne Hl. apply (G ops (world0 fuel p) (ZI_world0 fuel p) (TG_world0 fuel p) Hne); [exact Hl|apply Quiet_world0].
Qed.

(* ---------- what quiescence buys: the promise of World::spawn / Sender::spawn made in a quiet world ---------- *)
(* In a quiet, consistent world the id handed out by a reservation is exactly the id of the entity that the
   next materialisation creates: a new component-less entity, every existing entity untouched, and the world
   is quiet again. *)
Theorem quiet_reservation_is_kept w : WInv w -> Quiet w -> elen w + 1 <= U32MAX ->
  match reserve w with
  | ROk id w1 => exists w', spawn_all w1 = ROk tt w' /\ WInv w' /\ sm_get id (w_ents w) = None /\
                            sm_get id (w_ents w') <> None /\ (forall c, abs w' id c = None) /\ ext_by_spawn w1 w' /\ Quiet w'
  | RFail _ w1 => w1 = w
  end.
Proof.
  intros HW HQ Hcap. pose proof (reserve_ReserveInv w [] (Quiet_ReserveInv w HQ)) as Hr. cbn [app] in Hr.
  assert (Hres : forall id w1, reserve w = ROk id w1 -> w_ents w1 = w_ents w /\ w_rcnt w1 = w_rcnt w + 1 /\ WInv w1).
  { unfold reserve. intros id w1. destruct (nki_next (w_rcur w) (w_ents w)) as [[[k|] i']|]; intros H; inversion H; subst. split; [reflexivity|split; [reflexivity|exact HW]]. }
  destruct (reserve w) as [id w1|f w1] eqn:Er; [|exact Hr].
  destruct (Hres id w1 eq_refl) as (He & Hc & HW1). destruct HQ as [Hz Hcur].
  destruct (reserved_ids_are_created w1 [id] HW1 Hr) as (w' & Es & HW' & Hks & Hext & Hc0 & Hr0).
  { rewrite He, Hc, Hz. unfold elen in Hcap. lia. }
  exists w'. split; [exact Es|]. split; [exact HW'|]. destruct (Hks id (or_introl eq_refl)) as [A B].
  assert (Hfresh : sm_get id (w_ents w) = None).
  { destruct (sm_get id (w_ents w)) as [l|] eqn:E; [|reflexivity]. exfalso.
    destruct Hext as (_ & Hl & _ & _). destruct (Hl id) as [_ X]; [rewrite He, E; discriminate|].
    (* an existing entity keeps its components; the new one has none - but that does not contradict; use the id-level fact instead *)
    clear X. unfold reserve in Er. destruct (nki_next (w_rcur w) (w_ents w)) as [[[k|] i']|] eqn:En; inversion Er; subst k.
    rewrite Hcur in En.
    pose proof HW as ((Hsm & _) & _).
    destruct (nki_predicts _ (fun _ : key => ((0, 0) : eloc)) 1 (w_ents w) Hsm) as (ks0 & i0 & m' & Hp & Hi & _); [unfold elen in Hcap; lia|].
    cbn [predict] in Hp. rewrite En in Hp. inversion Hp; subst ks0 i0. cbn [inserts] in Hi.
    destruct (insert_with (fun _ : key => ((0, 0) : eloc)) (w_ents w)) as [[k1 m1]|] eqn:Ei; [|discriminate]. inversion Hi; subst k1 m'.
    rewrite (insert_get_fresh _ _ _ _ Hsm Ei) in E. discriminate. }
  split; [exact Hfresh|]. split; [exact A|]. split; [exact B|]. split; [exact Hext|].
  apply ReserveInv_zero; [exists []; exact Hr0|exact Hc0].
Qed.

(* non-vacuity: the hypotheses of the theorems above are met by the scripted behaviour of the correspondence
   whenever the script does not take - and by the behaviour that does nothing *)
Example NoTakeSpawn_idle : NoTakeSpawn (fun _ _ _ => mkScript false 0 0 []).
Proof. intros h le n _ _. reflexivity. Qed.
Example quiet_somewhere : Quiet (world0 100 0) /\ elen (world0 100 0) < U32MAX /\ no_exhaustion (fun _ _ _ => mkScript false 0 0 []) [] (world0 100 0).
Proof. split; [apply Quiet_world0|]. split; [reflexivity|exact I]. Qed.

(* ---------- the cursor invariant inside a propagation ---------- *)
(* ReserveInv w (ReserveW.v): the cursor is where NextKeyIter stands after predicting, on the current entity map,
   as many ids as are currently reserved - so that the ids handed out since the last materialisation are exactly
   the ids the next spawn_all creates (ReserveW.reserved_ids_are_created).  It is an invariant of every step of the
   stack machine, for EVERY handler behaviour and from any state (no registry invariant is needed). *)
Lemma RI_ro w' w : ro w' = ro w -> ReserveInv w -> ReserveInv w'.
Proof. intros H. apply eo_ReserveInv. now apply ro_eo. Qed.
Lemma RI_reserve w : ReserveInv w -> ReserveInv (res_world (reserve w)).
Proof.
  intros [ks H]. pose proof (reserve_ReserveInv w ks H) as X. destruct (reserve w) as [k w'|f w']; cbn [res_world]; [exists (ks ++ [k]); exact X|subst; exists ks; exact H].
Qed.

Lemma run_actions_RI acts : forall ps t fresh sent w, ReserveInv w -> ReserveInv (snd (fst (run_actions acts ps t fresh sent w))).
Proof.
  induction acts as [|a rest IH]; intros ps t fresh sent w HR; cbn [run_actions]; [exact HR|].
  pose proof (r_use_fuel ro ltac:(fr) w) as Hf. destruct (use_fuel w) as [ok w0]. cbn [snd] in Hf.
  destruct ok; cbn [negb]; [|now apply IH].
  assert (HR0 : ReserveInv w0) by (eapply RI_ro; eauto).
  destruct a; repeat (break_match; cbn [fst snd]);
    repeat match goal with
    | H : fresh_serial ?x = (_, ?y) |- _ => let E := fresh "E" in pose proof (r_fresh_serial ro ltac:(fr) x) as E; rewrite H in E; cbn [snd] in E; clear H
    | H : new_cval ?x ?k = (_, ?y) |- _ => let E := fresh "E" in pose proof (r_new_cval ro ltac:(fr) x k) as E; rewrite H in E; cbn [snd] in E; clear H
    | H : reserve ?x = _ |- _ => let E := fresh "E" in pose proof (RI_reserve x HR0) as E; rewrite H in E; cbn [res_world] in E; clear H
    end;
    try (apply IH);
    repeat first [ assumption
                 | apply (RI_ro _ _ (r_ev_drop ro ltac:(fr) _ _ _ _))
                 | apply (RI_ro _ _ (r_push_known ro ltac:(fr) _ _))
                 | match goal with E : ro ?x = ro ?y |- ReserveInv ?x => apply (RI_ro x y E) end ].
Qed.

Section RIStep.
Variable beh : hinfo -> logent -> N -> script.

Lemma run_handler_RI w h it tag loc : ReserveInv w -> ReserveInv (snd (run_handler beh w h it tag loc)).
Proof.
  intros HR. unfold run_handler. destruct (param_views w (h_params h) loc) as [f|[ritems views]]; [exact HR|].
  match goal with |- context [run_actions ?a ?b ?c ?d ?e ?x0] =>
    assert (HR2 : ReserveInv x0) by (eapply RI_ro; [|exact HR]; rewrite (r_apply_writes ro ltac:(fr)); reflexivity);
    pose proof (run_actions_RI a b c d e x0 HR2) as Hra; destruct (run_actions a b c d e x0) as [[sent w3] fl] end.
  cbn [fst snd] in Hra. destruct fl; [exact Hra|]. destruct (_ =? _); exact Hra.
Qed.

Lemma run_handlers_RI hl : forall w it tag loc sent, ReserveInv w -> ReserveInv (fst (fst (fst (fst (run_handlers beh hl w it tag loc sent))))).
Proof.
  induction hl as [|hk rest IH]; intros w it tag loc sent HR; cbn [run_handlers]; [exact HR|].
  destruct (sm_get hk (w_hs w)) as [h|]; [|exact HR].
  pose proof (run_handler_RI w h it tag loc HR) as H1. destruct (run_handler beh w h it tag loc) as [r w1]. cbn [snd] in H1.
  assert (Hd : forall t0 tg ev0, ReserveInv (ev_drop w1 t0 tg ev0)) by (intros; eapply RI_ro; [apply (r_ev_drop ro); fr|exact H1]).
  destruct (hr_fail r); [destruct (hr_taken r); cbn [fst]; [apply Hd|exact H1]|]. destruct (hr_taken r); cbn [fst]; [apply Hd|]. now apply IH.
Qed.

Lemma deliver_one_elen it w : elen w <= elen (snd (fst (deliver_one beh it w))).
Proof.
  unfold deliver_one.
  assert (Hfin : forall tag kind hl loc,
     elen w <= elen (snd (fst (let '(w1, ev, sent, taken, fl) := run_handlers beh hl w it tag loc [] in
              match fl with
              | Some f => (sent, (if taken then w1 else ev_drop w1 (qi_targeted it) tag ev), Some f)
              | None => if taken then (sent, w1, None) else
                  match kind with
                  | KNormal => (sent, ev_drop w1 (qi_targeted it) tag ev, None)
                  | _ => let '(w3, f) := fail_of (builtin_effect kind ev loc w1) in (sent, w3, f)
                  end
              end)))).
  { intros tag kind hl loc. pose proof (r_run_handlers w_ents ltac:(fr) ltac:(fr) ltac:(fr) ltac:(fr) beh hl w it tag loc []) as He.
    destruct (run_handlers beh hl w it tag loc []) as [[[[w1 ev] sent] taken] fl]. cbn [fst snd] in He.
    assert (E1 : elen w1 = elen w) by (unfold elen; now rewrite He).
    assert (Ed : forall t0 tg ev0, elen (ev_drop w1 t0 tg ev0) = elen w) by (intros; rewrite (eo_elen _ _ (eo_ev_drop _ _ _ _)); exact E1).
    destruct fl; [destruct taken; cbn [fst snd]; rewrite ?Ed; lia|]. destruct taken; [cbn [fst snd]; lia|].
    destruct kind; try (cbn [fst snd]; rewrite ?Ed; lia);
      match goal with |- context [builtin_effect ?k ev loc w1] => pose proof (proj1 (builtin_effect_Q k ev loc w1)) as HB; cbn zeta in HB; destruct (builtin_effect k ev loc w1); cbn [fail_of fst snd res_world] in *; lia end. }
  destruct (qi_targeted it).
  - destruct (get_by_index (w_tev w) (qi_idx it)) as [[k info]|]; [|cbn [fst snd]; lia].
    destruct (sm_get (qi_target it) (w_ents w)) as [loc|]; [|cbn [fst snd]; rewrite (eo_elen _ _ (eo_ev_drop _ _ _ _)); lia].
    destruct (slab_get (w_archs w) (fst loc)); [apply Hfin|cbn [fst snd]; lia].
  - destruct (get_by_index (w_gev w) (qi_idx it)) as [[k info]|]; [|cbn [fst snd]; lia].
    destruct (nget (w_glists w) (qi_idx it)); [apply Hfin|cbn [fst snd]; lia].
Qed.

Lemma builtin_effect_RI kind ev loc w1 : ReserveInv w1 -> elen (res_world (builtin_effect kind ev loc w1)) < U32MAX ->
  match builtin_effect kind ev loc w1 with ROk _ w3 => ReserveInv w3 | RFail _ _ => True end.
Proof.
  intros HR Hl. pose proof (builtin_effect_Q kind ev loc w1) as HB. cbn zeta in HB. destruct HB as [_ HB]. specialize (HB Hl).
  destruct (builtin_effect kind ev loc w1) as [[] w3|f w3]; [|exact I].
  destruct kind; try (eapply eo_ReserveInv; [exact HB|exact HR]); exists []; now apply Quiet_ReserveInv.
Qed.

Lemma deliver_one_RI it w : ReserveInv w -> elen (snd (fst (deliver_one beh it w))) < U32MAX -> snd (deliver_one beh it w) = None ->
  ReserveInv (snd (fst (deliver_one beh it w))).
Proof.
  intros HR. unfold deliver_one.
  assert (Hfin : forall tag kind hl loc,
     let r := (let '(w1, ev, sent, taken, fl) := run_handlers beh hl w it tag loc [] in
              match fl with
              | Some f => (sent, (if taken then w1 else ev_drop w1 (qi_targeted it) tag ev), Some f)
              | None => if taken then (sent, w1, None) else
                  match kind with
                  | KNormal => (sent, ev_drop w1 (qi_targeted it) tag ev, None)
                  | _ => let '(w3, f) := fail_of (builtin_effect kind ev loc w1) in (sent, w3, f)
                  end
              end) in
     elen (snd (fst r)) < U32MAX -> snd r = None -> ReserveInv (snd (fst r))).
  { intros tag kind hl loc. pose proof (run_handlers_RI hl w it tag loc [] HR) as H1.
    destruct (run_handlers beh hl w it tag loc []) as [[[[w1 ev] sent] taken] fl]. cbn [fst snd] in H1. cbn zeta.
    assert (Hd : forall t0 tg ev0, ReserveInv (ev_drop w1 t0 tg ev0)) by (intros; eapply RI_ro; [apply (r_ev_drop ro); fr|exact H1]).
    destruct fl; [cbn [fst snd]; discriminate|]. destruct taken; [cbn [fst snd]; auto|].
    destruct kind; try (cbn [fst snd]; intros _ _; apply Hd);
      match goal with |- context [builtin_effect ?k ev loc w1] => pose proof (builtin_effect_RI k ev loc w1 H1) as HB; destruct (builtin_effect k ev loc w1) as [[] w3|f w3]; cbn [fail_of fst snd res_world] in *; [intros Hl _; now apply HB|discriminate] end. }
  destruct (qi_targeted it).
  - destruct (get_by_index (w_tev w) (qi_idx it)) as [[k info]|]; [|cbn [fst snd]; discriminate].
    destruct (sm_get (qi_target it) (w_ents w)) as [loc|]; [|cbn [fst snd]; intros _ _; eapply RI_ro; [apply (r_ev_drop ro); fr|exact HR]].
    destruct (slab_get (w_archs w) (fst loc)); [apply Hfin|cbn [fst snd]; discriminate].
  - destruct (get_by_index (w_gev w) (qi_idx it)) as [[k info]|]; [|cbn [fst snd]; discriminate].
    destruct (nget (w_glists w) (qi_idx it)); [apply Hfin|cbn [fst snd]; discriminate].
Qed.

Lemma flush_loop_elen : forall n q (st : wst) acc tr st' oc,
  Loop.flush wst qitem (run_w beh) unwind_w n q st acc = Some (tr, st', oc) -> elen (fst st) <= elen (fst st').
Proof.
  induction n as [|n IH]; intros q st acc tr st' oc H; [discriminate|].
  cbn [Loop.flush] in H. destruct (rev q) as [|e r] eqn:Er.
  - unfold step in H. rewrite Er in H. inversion H; subst. lia.
  - assert (Hq : q = rev r ++ [e]) by (rewrite <- (rev_involutive q), Er; reflexivity).
    rewrite Hq, step_snoc in H. unfold run_w in H. pose proof (deliver_one_elen e (fst st)) as El.
    destruct (deliver_one beh e (fst st)) as [[sent w2] fl2]. cbn [fst snd] in *. destruct fl2 as [f|].
    + inversion H; subst st'. unfold unwind_w. cbn [fst snd]. destruct f as [k|s]; cbn [fst]; [|lia].
      destruct (spawn_all_Quiet (unwind_queue (rev r ++ sent) w2)) as [A _]. rewrite (eo_elen _ _ (eo_unwind_queue _ _)) in A.
      destruct (spawn_all (unwind_queue (rev r ++ sent) w2)); cbn [res_world] in A; lia.
    + apply IH in H. cbn [fst] in H. lia.
Qed.

(* the whole stack machine: the cursor invariant holds at every step and at the end (an aborted propagation ends
   with the unwinding materialisation, after which nothing is reserved); FUB failures, which no reachable world
   produces (Sender.no_call_fails_unchecked), are excluded *)
Theorem flush_loop_RI : forall n q (st : wst) acc tr st' oc,
  Loop.flush wst qitem (run_w beh) unwind_w n q st acc = Some (tr, st', oc) ->
  ReserveInv (fst st) -> (oc = Aborted -> ~ ubf (snd st')) -> elen (fst st') < U32MAX -> ReserveInv (fst st').
Proof.
  induction n as [|n IH]; intros q st acc tr st' oc H HR Hnu Hl; [discriminate|].
  cbn [Loop.flush] in H. destruct (rev q) as [|e r] eqn:Er.
  - unfold step in H. rewrite Er in H. inversion H; subst. exact HR.
  - assert (Hq : q = rev r ++ [e]) by (rewrite <- (rev_involutive q), Er; reflexivity).
    rewrite Hq, step_snoc in H. unfold run_w in H.
    pose proof (deliver_one_RI e (fst st) HR) as HD.
    destruct (deliver_one beh e (fst st)) as [[sent w2] fl2]. cbn [fst snd] in *.
    destruct fl2 as [f|].
    + inversion H; subst st'. clear H. unfold unwind_w in *. cbn [fst snd] in *. destruct f as [k|s]; [|exfalso; apply Hnu; [congruence|exact I]].
      cbn [fst] in *. destruct (spawn_all_Quiet (unwind_queue (rev r ++ sent) w2)) as [_ B].
      assert (Ew : res_world (spawn_all (unwind_queue (rev r ++ sent) w2)) = match spawn_all (unwind_queue (rev r ++ sent) w2) with ROk _ w3 => w3 | RFail _ w3 => w3 end) by (destruct (spawn_all _); reflexivity).
      rewrite <- Ew in *. exists []. apply Quiet_ReserveInv. exact (B Hl).
    + pose proof (flush_loop_elen _ _ _ _ _ _ _ H) as El2. cbn [fst] in El2.
      apply (IH _ _ _ _ _ _ H); [|exact Hnu|exact Hl]. cbn [fst]. apply HD; [lia|reflexivity].
Qed.

Theorem flush_RI q w : ReserveInv w -> ~ ubf (res_fail (flush beh q w)) -> elen (res_world (flush beh q w)) < U32MAX ->
  res_fail (flush beh q w) <> Some (FPanic 8) -> ReserveInv (res_world (flush beh q w)).
Proof.
  intros HR. unfold flush, flush_loop.
  destruct (Loop.flush wst qitem (run_w beh) unwind_w FUEL q (w, None) []) as [[[tr [w1 fl]] oc]|] eqn:E; [|cbn [res_fail]; intros _ _ X; now contradiction X].
  pose proof (flush_loop_RI _ _ _ _ _ _ _ E HR) as HF. cbn [fst snd] in HF.
  destruct oc.
  - cbn [res_world res_fail]. intros _ Hl _. apply (RI_ro _ w1); [reflexivity|]. apply HF; [discriminate|exact Hl].
  - pose proof (aborted_has_failure beh _ _ _ _ _ _ E) as Hab. cbn [snd] in Hab. destruct fl as [f|]; [|contradiction]. cbn [res_world res_fail]. intros Hn Hl _. apply HF; [intros _; exact Hn|exact Hl].
Qed.
End RIStep.
