(* Access.v : model of src/access.rs (ComponentAccess as a DNF with a sorted-merge `and`).
   The per-cell tables come from gen/Tables.v, which is regenerated from the running code. *)
From Coq Require Import List NArith Bool.
Import ListNotations.
Require Export EV.AccessTypes EV.gen.Tables.

Definition case := list (N * cacc).
Definition ca := list case.

(* access.rs:151-213, the merge loop of `and` for one (left, right) pair; None = `continue 'next_case` *)
Fixpoint merge_case (l : case) : case -> option case :=
  fix inner (r : case) : option case :=
    match l, r with
    | [], _ => Some r
    | _, [] => Some l
    | (li,la)::l', (ri,ra)::r' =>
       match N.compare li ri with
       | Lt => option_map (cons (li,la)) (merge_case l' r)
       | Eq => match merge_acc la ra with
               | None => None
               | Some m => option_map (cons (li,m)) (merge_case l' r') end
       | Gt => option_map (cons (ri,ra)) (inner r')
       end
    end.

Definition ca_true : ca := [[]].
Definition ca_false : ca := [].
Definition ca_var (i : N) (a : access) : ca := [[(i, var_acc a)]].
(* for right in rhs { for left in self { .. } } *)
Definition ca_and (x y : ca) : ca :=
  flat_map (fun right => flat_map (fun left => match merge_case left right with Some c => [c] | None => [] end) x) y.
Definition ca_or (x y : ca) : ca := x ++ y.
Definition ca_not (x : ca) : ca :=
  fold_left (fun acc c => ca_and acc (map (fun p => [(fst p, neg_acc (snd p))]) c)) x ca_true.
Definition ca_clear (x : ca) : ca := map (map (fun p => (fst p, clear_acc (snd p)))) x.

Definition lit_holds (a : N -> bool) (p : N * cacc) : bool :=
  if pos_acc (snd p) then a (fst p) else negb (a (fst p)).
Definition case_matches a (c : case) := forallb (lit_holds a) c.
Definition ca_matches (a : N -> bool) (e : ca) := existsb (case_matches a) e.

(* collect_conflicts, as a list with duplicates removed in first-occurrence order (IndexSet) *)
Fixpoint dedupN (l : list N) (seen : list N) : list N :=
  match l with
  | [] => []
  | h :: t => if existsb (N.eqb h) seen then dedupN t seen else h :: dedupN t (h :: seen)
  end.
Definition ca_conflicts (e : ca) : list N :=
  dedupN (flat_map (fun c => flat_map (fun p => if conflict_acc (snd p) then [fst p] else []) c) e) [].
