(* ---- Access.v (prototype) ---- *)
From Coq Require Import List NArith Bool Lia.
Import ListNotations.
Inductive cacc := With | Read | ReadWrite | Not | Conflict.
Definition case := list (N * cacc).
Definition ca := list case.
Definition merge_acc (l r : cacc) : option cacc :=
  match l, r with
  | With, Read | Read, Read | Read, With => Some Read
  | With, ReadWrite | ReadWrite, With => Some ReadWrite
  | With, With => Some With
  | Not, Not => Some Not
  | Not, _ | _, Not => None
  | _, _ => Some Conflict
  end.
Fixpoint merge_case (l : case) : case -> option case :=
  fix inner (r : case) : option case :=
    match l, r with
    | [], _ => Some r
    | _, [] => Some l
    | (li,la)::l', (ri,ra)::r' =>
       match N.compare li ri with
       | Lt => option_map (cons (li,la)) (merge_case l' r)
       | Eq => match merge_acc la ra with
               | None => None
               | Some m => option_map (cons (li,m)) (merge_case l' r') end
       | Gt => option_map (cons (ri,ra)) (inner r')
       end
    end.
Definition lit_holds (a : N -> bool) (p : N * cacc) : bool :=
  match snd p with Not => negb (a (fst p)) | _ => a (fst p) end.
Definition case_matches a (c : case) := forallb (lit_holds a) c.
Definition ca_matches a (e : ca) := existsb (case_matches a) e.
Definition ca_and (x y : ca) : ca :=
  flat_map (fun right => flat_map (fun left => match merge_case left right with Some c => [c] | None => [] end) x) y.
Definition ca_or (x y : ca) : ca := x ++ y.
Definition ca_true : ca := [[]].
Definition neg_acc (x : cacc) := match x with Not => With | _ => Not end.
Definition ca_not (x : ca) : ca :=
  fold_left (fun acc case => ca_and acc (map (fun p => [(fst p, neg_acc (snd p))]) case)) x ca_true.

Lemma merge_acc_holds a i x y :
  match merge_acc x y with
  | Some m => lit_holds a (i,m) = lit_holds a (i,x) && lit_holds a (i,y)
  | None => lit_holds a (i,x) && lit_holds a (i,y) = false
  end.
Proof. destruct x, y; cbn; destruct (a i); reflexivity. Qed.

Lemma merge_case_eq l r : merge_case l r =
    match l, r with
    | [], _ => Some r
    | _, [] => Some l
    | (li,la)::l', (ri,ra)::r' =>
       match N.compare li ri with
       | Lt => option_map (cons (li,la)) (merge_case l' r)
       | Eq => match merge_acc la ra with
               | None => None
               | Some m => option_map (cons (li,m)) (merge_case l' r') end
       | Gt => option_map (cons (ri,ra)) (merge_case l r')
       end
    end.
Proof. destruct l as [|[li la] l]; destruct r as [|[ri ra] r]; reflexivity. Qed.

Lemma merge_case_matches a : forall l r,
  match merge_case l r with
  | Some c => case_matches a c = case_matches a l && case_matches a r
  | None => case_matches a l && case_matches a r = false
  end.
Proof.
  unfold case_matches.
  induction l as [|[li la] l IHl]; intros r.
  - destruct r; reflexivity.
  - induction r as [|[ri ra] r IHr].
    + cbn [merge_case forallb]. now rewrite andb_true_r.
    + rewrite merge_case_eq. destruct (N.compare_spec li ri) as [E|L|G].
      * subst ri. pose proof (merge_acc_holds a li la ra) as H.
        destruct (merge_acc la ra) as [m|].
        -- specialize (IHl r). destruct (merge_case l r) as [c|]; cbn [option_map forallb] in *.
           ++ rewrite H, IHl.
              destruct (lit_holds a (li,la)), (lit_holds a (li,ra)), (forallb (lit_holds a) l), (forallb (lit_holds a) r); reflexivity.
           ++ destruct (lit_holds a (li,la)), (lit_holds a (li,ra)), (forallb (lit_holds a) l), (forallb (lit_holds a) r); try reflexivity; discriminate.
        -- cbn [forallb] in *.
           destruct (lit_holds a (li,la)), (lit_holds a (li,ra)), (forallb (lit_holds a) l), (forallb (lit_holds a) r); try reflexivity; discriminate.
      * specialize (IHl ((ri,ra)::r)). destruct (merge_case l ((ri,ra)::r)) as [c|]; cbn [option_map forallb] in *.
        -- rewrite IHl. now rewrite andb_assoc.
        -- rewrite <- andb_assoc, IHl. now rewrite andb_false_r.
      * destruct (merge_case ((li,la)::l) r) as [c|]; cbn [option_map forallb] in *.
        -- rewrite IHr.
           destruct (lit_holds a (li,la)), (lit_holds a (ri,ra)), (forallb (lit_holds a) l), (forallb (lit_holds a) r); reflexivity.
        -- destruct (lit_holds a (li,la)), (lit_holds a (ri,ra)), (forallb (lit_holds a) l), (forallb (lit_holds a) r); try reflexivity; discriminate.
Qed.

Lemma ca_and_matches a x y : ca_matches a (ca_and x y) = ca_matches a x && ca_matches a y.
Proof.
  unfold ca_and, ca_matches. induction y as [|r y IH]; cbn [flat_map existsb].
  - now rewrite andb_false_r.
  - rewrite existsb_app, IH. 
    assert (H: existsb (case_matches a) (flat_map (fun left => match merge_case left r with Some c => [c] | None => [] end) x)
               = existsb (case_matches a) x && case_matches a r).
    { clear. induction x as [|l x IH]; cbn [flat_map existsb]; [reflexivity|].
      rewrite existsb_app, IH. pose proof (merge_case_matches a l r) as H.
      destruct (merge_case l r); cbn [existsb]; rewrite ?orb_false_r.
      - rewrite H. destruct (case_matches a l), (case_matches a r), (existsb (case_matches a) x); reflexivity.
      - destruct (case_matches a l), (case_matches a r), (existsb (case_matches a) x); try reflexivity; discriminate. }
    rewrite H. destruct (existsb (case_matches a) x), (case_matches a r), (existsb (case_matches a) y); reflexivity.
Qed.
Print Assumptions ca_and_matches.   (* Closed under the global context *)
