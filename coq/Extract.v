(* Extract.v : extraction of the executable model to OCaml.
   Only ExtrOcamlBasic is used (bool, option, unit, prod, list, sumbool, sumor and a few
   inlined constants); N, positive and nat stay the extracted inductive datatypes. *)
Require Extraction.
Require Import ExtrOcamlBasic.
Require Import EV.Base EV.Access EV.Query EV.SlotMap EV.Reserve EV.HList EV.SparseMap EV.BitSet EV.World.
Extraction Language OCaml.
Extraction "model.ml"
  world0 script_beh op_spawn op_insert op_remove op_despawn op_send op_send_to op_get op_drop
  add_handler remove_handler add_component remove_component add_global_event add_targeted_event
  remove_global_event remove_targeted_event RFUEL
  ca_and ca_or ca_not ca_clear ca_var ca_true ca_false ca_matches ca_conflicts access_of arch_state qmatch qrefs
  handler_conflicts
  sm_empty insert_with sm_remove sm_get next_key_iter nki_next get_by_index
  hl_new hl_insert hl_remove
  sp_empty sp_insert sp_remove sp_get sp_shrink sp_keys sp_values
  bs_insert bs_remove bs_contains bs_or bs_disjoint bs_is_empty bs_shrink
  slab_iter set_h set_hst_fields.
