(* Gates.v : the compile-time restrictions of C18 as a rule model.  The rules themselves
   (which marker impls exist and under which bounds) are NOT written here: gen/gates.py
   regenerates coq/gen/GateRules.v from the source on every run; the theorems below are
   re-checked against what the source says now.  rustc's trait solver is modelled only for
   these marker traits. *)
From Coq Require Import List NArith Bool.
Import ListNotations.
Require Import EV.Base EV.Access EV.Query EV.gen.GateRules.

(* Q: ReadOnlyQuery, as derivable from the impl headers *)
Fixpoint ro (q : query) : bool :=
  match q with
  | QRef _ => g_ro_ref
  | QMut _ => g_ro_mut
  | QTuple qs => g_ro_tuple && (if g_ro_tuple_needs_all then forallb ro qs else true)
  | QOpt x => g_ro_opt && (if g_ro_opt_needs_inner then ro x else true)
  | QOr l r => g_ro_or && (if g_ro_or_needs_left then ro l else true) && (if g_ro_or_needs_right then ro r else true)
  | QXor l r => g_ro_xor && (if g_ro_xor_needs_left then ro l else true) && (if g_ro_xor_needs_right then ro r else true)
  | QNot x => g_ro_not && (if g_ro_not_needs_inner then ro x else true)
  | QWith x => g_ro_with && (if g_ro_with_needs_inner then ro x else true)
  | QHas x => g_ro_has && (if g_ro_has_needs_inner then ro x else true)
  | QEid => g_ro_eid
  end.

(* Q: Query, given which components are declared mutable *)
Fixpoint is_query (mutable : N -> bool) (q : query) : bool :=
  match q with
  | QRef c => if g_ref_query_needs_mutable then mutable c else true
  | QMut c => if g_mut_query_needs_mutable then mutable c else true
  | QTuple qs => forallb (is_query mutable) qs
  | QOpt x | QNot x | QWith x | QHas x => is_query mutable x
  | QOr l r | QXor l r => is_query mutable l && is_query mutable r
  | QEid => true
  end.

Definition no_mut_refs (l : list (N * bool)) : bool := forallb (fun r => negb (snd r)) l.

Lemma no_mut_refs_app a b : no_mut_refs (a ++ b) = no_mut_refs a && no_mut_refs b.
Proof. apply forallb_app. Qed.

Section QInd.
Variable P : query -> Prop.
Hypotheses (HRef : forall c, P (QRef c)) (HMut : forall c, P (QMut c))
  (HTuple : forall qs, Forall P qs -> P (QTuple qs))
  (HOpt : forall q, P q -> P (QOpt q)) (HOr : forall l r, P l -> P r -> P (QOr l r))
  (HXor : forall l r, P l -> P r -> P (QXor l r)) (HNot : forall q, P q -> P (QNot q))
  (HWith : forall q, P q -> P (QWith q)) (HHas : forall q, P q -> P (QHas q)) (HEid : P QEid).
Fixpoint query_ind2 (q : query) : P q :=
  match q with
  | QRef c => HRef c | QMut c => HMut c
  | QTuple qs => HTuple qs ((fix go (l : list query) : Forall P l :=
                     match l with [] => Forall_nil P | x :: t => Forall_cons x (query_ind2 x) (go t) end) qs)
  | QOpt q' => HOpt q' (query_ind2 q')
  | QOr l r => HOr l r (query_ind2 l) (query_ind2 r)
  | QXor l r => HXor l r (query_ind2 l) (query_ind2 r)
  | QNot q' => HNot q' (query_ind2 q')
  | QWith q' => HWith q' (query_ind2 q')
  | QHas q' => HHas q' (query_ind2 q')
  | QEid => HEid
  end.
End QInd.

(* a query that the source marks ReadOnlyQuery never hands out a mutable reference, whatever
   the archetype: this is what makes get / iter through a shared fetcher borrow sound *)
Theorem ro_sound (q : query) : ro q = true ->
  forall (a : N -> bool) (st : astate), arch_state a q = Some st -> no_mut_refs (arefs st) = true.
Proof.
  induction q as [c|c|qs IH|q IH|l r IHl IHr|l r IHl IHr|q IH|q IH|q IH|] using query_ind2; cbn [ro arch_state]; intros Hro a st Hs.
  - destruct (a c); inversion Hs; reflexivity.
  - unfold g_ro_mut in Hro. discriminate.
  - unfold g_ro_tuple, g_ro_tuple_needs_all in Hro. cbn in Hro.
    destruct (seq_opt (map (arch_state a) qs)) as [sts|] eqn:Es; [|discriminate]. inversion Hs; subst. cbn [arefs].
    clear Hs. revert sts Es. induction IH as [|x l Hx _ IHl]; intros sts Es; cbn in Es.
    + inversion Es; reflexivity.
    + cbn in Hro. apply andb_true_iff in Hro as [Hx' Hl'].
      destruct (arch_state a x) as [sx|] eqn:Ex; [|discriminate].
      destruct (seq_opt (map (arch_state a) l)) as [sl|] eqn:El; [|discriminate]. inversion Es; subst.
      cbn [flat_map]. rewrite no_mut_refs_app, (Hx Hx' a sx Ex), (IHl Hl' sl eq_refl). reflexivity.
  - unfold g_ro_opt, g_ro_opt_needs_inner in Hro. cbn in Hro. destruct (arch_state a q) as [sq|] eqn:Eq; inversion Hs; subst; cbn [arefs]; [eapply IH; eauto|reflexivity].
  - unfold g_ro_or, g_ro_or_needs_left, g_ro_or_needs_right in Hro. cbn in Hro. apply andb_true_iff in Hro as [Hl Hr].
    destruct (arch_state a l) as [sl|] eqn:El, (arch_state a r) as [sr|] eqn:Er; inversion Hs; subst; cbn [arefs];
      rewrite ?no_mut_refs_app, ?(IHl Hl a sl El), ?(IHr Hr a sr Er); reflexivity.
  - unfold g_ro_xor, g_ro_xor_needs_left, g_ro_xor_needs_right in Hro. cbn in Hro. apply andb_true_iff in Hro as [Hl Hr].
    destruct (arch_state a l) as [sl|] eqn:El, (arch_state a r) as [sr|] eqn:Er; inversion Hs; subst; cbn [arefs];
      rewrite ?(IHl Hl a sl El), ?(IHr Hr a sr Er); reflexivity.
  - destruct (arch_state a q); inversion Hs; reflexivity.
  - destruct (arch_state a q); inversion Hs; reflexivity.
  - inversion Hs; reflexivity.
  - inversion Hs; reflexivity.
Qed.

(* a query type that exists mentions `&mut C` only for components declared mutable *)
Fixpoint mut_leaves (q : query) : list N :=
  match q with
  | QMut c => [c]
  | QRef _ | QEid => []
  | QTuple qs => flat_map mut_leaves qs
  | QOpt x | QNot x | QWith x | QHas x => mut_leaves x
  | QOr l r | QXor l r => mut_leaves l ++ mut_leaves r
  end.
Theorem mut_needs_mutable (mutable : N -> bool) (q : query) :
  is_query mutable q = true -> forall c, In c (mut_leaves q) -> mutable c = true.
Proof.
  induction q as [c|c|qs IH|q IH|l r IHl IHr|l r IHl IHr|q IH|q IH|q IH|] using query_ind2; cbn [is_query mut_leaves]; intros Hq c0 Hin;
    try (destruct Hin; fail); auto.
  - unfold g_mut_query_needs_mutable in Hq. destruct Hin as [<-|[]]. exact Hq.
  - induction IH as [|x l Hx _ IHl]; cbn in *; [destruct Hin|].
    apply andb_true_iff in Hq as [H1 H2]. apply in_app_or in Hin as [Hin|Hin]; auto.
  - apply andb_true_iff in Hq as [H1 H2]. apply in_app_or in Hin as [Hin|Hin]; auto.
  - apply andb_true_iff in Hq as [H1 H2]. apply in_app_or in Hin as [Hin|Hin]; auto.
Qed.

(* the methods that read through a shared borrow (or duplicate an iterator) carry the bound;
   the exclusive-borrow methods do not (the permitted variants compile) *)
Theorem shared_access_is_gated :
  g_get_needs_ro && g_iter_needs_ro && g_ref_into_iter_needs_ro && (negb g_iter_clone_exists || g_iter_clone_needs_ro) = true /\
  g_get_mut_needs_ro = false /\ g_iter_mut_needs_ro = false.
Proof. repeat split; reflexivity. Qed.

Theorem event_and_component_mutability_is_gated :
  g_receiver_mut_needs_mutable && g_world_get_mut_needs_mutable && g_mut_query_needs_mutable = true /\
  g_ref_query_needs_mutable = false.
Proof. split; reflexivity. Qed.

(* World is neither Send nor Sync (raw-pointer marker field, no unsafe impl overriding it);
   Fetcher and Iter are Send/Sync only through impls conditioned on the item type *)
Theorem thread_safety_is_gated :
  g_world_has_not_send_marker && negb g_world_unsafe_send_impl && negb g_world_unsafe_sync_impl = true /\
  (g_fetcher_send_impl = true -> g_fetcher_send_needs_item = true) /\ (g_fetcher_sync_impl = true -> g_fetcher_sync_needs_item = true) /\
  (g_iter_send_impl = true -> g_iter_send_needs_item = true) /\ (g_iter_sync_impl = true -> g_iter_sync_needs_item = true).
Proof. repeat split; reflexivity. Qed.

(* predictions used by the compile-test correspondence *)
Definition predict_shared (mutable : N -> bool) (q : query) : bool := is_query mutable q && ro q.
Definition predict_exclusive (mutable : N -> bool) (q : query) : bool := is_query mutable q.
