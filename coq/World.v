(* World.v : the mechanism model M of evenio's World — executable definitions only.
   It composes SlotMap (generational ids), Reserve (NextKeyIter), HList (handler lists),
   Access/Query (access algebra, structural matcher) into the registries, the archetype
   table (rows, capacity, buffer epochs, cached transitions, listener tables), the fetcher
   caches and the event loop (Vec used as a stack with segment reversal).
   Every unchecked operation of the Rust code is a checked operation here that yields
   [FUB site]; every panic yields [FPanic kind].  Handler bodies are a parameter ([beh]). *)
From Coq Require Import List NArith Bool.
Import ListNotations.
Require Import EV.Base EV.Access EV.Query EV.SlotMap EV.Reserve EV.HList EV.Loop.
Open Scope N_scope.

(* ------------------------------------------------------------------ *)
(* Universe of the harness: type tags                                  *)
(* ------------------------------------------------------------------ *)
(* component tags: 0 plain, 1 tracked(drop), 2 zst+drop, 3 align64 plain, 4 zst align64 drop, 5 immutable *)
Definition ctag_has_drop (t : N) : bool := (t =? 1) || (t =? 2) || (t =? 4).
Definition ctag_zst (t : N) : bool := (t =? 2) || (t =? 4).
(* global event tags *)
Definition G_SPAWN := 10. Definition G_ADDC := 11. Definition G_RMC := 12.
Definition G_ADDH := 13. Definition G_RMH := 14. Definition G_ADDGE := 15.
Definition G_ADDTE := 16. Definition G_RMGE := 17. Definition G_RMTE := 18.
(* targeted event tags *)
Definition T_DESPAWN := 10. Definition T_INSERT (k : N) := 20 + k. Definition T_REMOVE (k : N) := 40 + k.

Inductive ekind := KNormal | KInsert (c : N) | KRemove (c : N) | KSpawn | KDespawn.
Definition gtag_has_drop (t : N) : bool := (t =? 0) || (t =? 1).
Definition ttag_has_drop (t : N) : bool :=
  (t =? 0) || (t =? 1) || ((20 <=? t) && (t <? 40) && ctag_has_drop (t - 20)).

(* ------------------------------------------------------------------ *)
(* Failures                                                            *)
(* ------------------------------------------------------------------ *)
Inductive fail :=
| FPanic (kind : N)     (* 1 invalid handler config, 2 Single mismatch, 3 event not in Sender set,
                           4 invalid id index, 5 capacity, 6 injected handler panic,
                           7 internal assertion (undocumented), 8 out of fuel (model only) *)
| FUB (site : N).       (* an unchecked operation whose precondition failed *)

(* ------------------------------------------------------------------ *)
(* Records                                                             *)
(* ------------------------------------------------------------------ *)
Definition eloc := (N * N)%type.                      (* (archetype index, row) *)
Definition centry := (N * N * N)%type.                (* fetcher cache entry: arch idx, arch uid, epoch *)

Inductive fkind := FkFetcher | FkSingle | FkTrySingle.
Inductive tgt := TTarget | TKnown (i : N) | TFresh (k : N).
Inductive act :=
| ASend (gtag : N) | ASendTo (t : tgt) (ttag : N) | ASpawn
| AInsert (t : tgt) (ktag : N) | ARemove (t : tgt) (ktag : N) | ADespawn (t : tgt).
Record script := mkScript { s_take : bool; s_evdelta : N; s_wdelta : N; s_actions : list act }.

(* handler parameters as written by the user (component tags) *)
Inductive param :=
| PRecvG (tag : N) (mut : bool)
| PRecvT (tag : N) (mut : bool) (q : query)
| PFetch (k : fkind) (q : query)
| PSender (evs : list (bool * N)).          (* (targeted?, tag) in tuple order *)
(* resolved parameters (component indices), with their fetcher caches *)
Inductive rparam :=
| RRecvG (mut : bool)
| RRecvT (mut : bool) (q : query) (cache : list centry)
| RFetch (k : fkind) (q : query) (cache : list centry)
| RSender (g : list (N * N)) (t : list (N * N)).          (* (tag, event index) *)

Inductive recvid := RvGlobal (k : key) | RvTargeted (k : key).

Record hinfo := mkH {
  h_key : key; h_order : N; h_tid : option N;
  h_recv : recvid; h_recv_mut : bool; h_filter : ca;
  h_sent_g : list N; h_sent_t : list N;
  h_archfilter : ca; h_refcomps : list N; h_prio : prio;
  h_params : list rparam; h_script : script }.

Record cinfo := mkC { c_tag : N; c_member_of : list N; c_ins : list key; c_rem : list key }.
Record einfo := mkE { e_tag : N; e_kind : ekind }.

Record arch := mkA {
  a_uid : N; a_comps : list N; a_rows : list (key * list cval); a_cap : N; a_epoch : N;
  a_ins : list (N * N); a_rem : list (N * N);
  a_refresh : list key; a_listeners : list (N * hlist key) }.
Inductive sentry := SOcc (a : arch) | SVac (next : N).
Record slab := mkSlab { sl_entries : list sentry; sl_next : N }.

(* event value: serial, mutable payload, carried id (Spawn / lifecycle notifications) *)
Record evv := mkEv { ev_ser : N; ev_val : N; ev_id : key }.
Record qitem := mkQ { qi_targeted : bool; qi_idx : N; qi_target : key; qi_ev : evv }.

(* one handler invocation as the harness logs it *)
Record logent := mkLog {
  lg_handler : key; lg_targeted : bool; lg_tag : N; lg_ev : evv; lg_target : key;
  lg_resets : N;                            (* arena resets so far *)
  lg_recv_item : list item;                 (* [] for global receivers *)
  lg_views : list (N * list item) }.        (* per Fetcher/Single/TrySingle param: (code, items) *)

Record hst := mkHst { k_ids : list key; k_fuel : N; k_serial : N; k_inv : N; k_panic_at : N;
                      k_log : list logent }.

Record world := mkW {
  w_ents : smap eloc; w_rcur : N; w_rcnt : N;
  w_comps : smap cinfo; w_cby : list (N * key);
  w_gev : smap einfo; w_gby : list (N * key);
  w_tev : smap einfo; w_tby : list (N * key);
  w_hs : smap hinfo; w_glists : list (hlist key); w_hby : list (N * key); w_hctr : N;
  w_horder : list (N * key);
  w_archs : slab; w_aby : list (list N * N); w_auid : N;
  w_drops : list (N * N);            (* ledger: (component/event class code, serial) in drop order *)
  w_resets : N;                      (* arena resets *)
  w_notes : list (N * key);          (* lifecycle notifications delivered: (global tag, id) *)
  w_h : hst }.

(* record updates *)
Definition set_ents w x := mkW x (w_rcur w) (w_rcnt w) (w_comps w) (w_cby w) (w_gev w) (w_gby w) (w_tev w) (w_tby w) (w_hs w) (w_glists w) (w_hby w) (w_hctr w) (w_horder w) (w_archs w) (w_aby w) (w_auid w) (w_drops w) (w_resets w) (w_notes w) (w_h w).
Definition set_res w c n := mkW (w_ents w) c n (w_comps w) (w_cby w) (w_gev w) (w_gby w) (w_tev w) (w_tby w) (w_hs w) (w_glists w) (w_hby w) (w_hctr w) (w_horder w) (w_archs w) (w_aby w) (w_auid w) (w_drops w) (w_resets w) (w_notes w) (w_h w).
Definition set_comps w x y := mkW (w_ents w) (w_rcur w) (w_rcnt w) x y (w_gev w) (w_gby w) (w_tev w) (w_tby w) (w_hs w) (w_glists w) (w_hby w) (w_hctr w) (w_horder w) (w_archs w) (w_aby w) (w_auid w) (w_drops w) (w_resets w) (w_notes w) (w_h w).
Definition set_gev w x y := mkW (w_ents w) (w_rcur w) (w_rcnt w) (w_comps w) (w_cby w) x y (w_tev w) (w_tby w) (w_hs w) (w_glists w) (w_hby w) (w_hctr w) (w_horder w) (w_archs w) (w_aby w) (w_auid w) (w_drops w) (w_resets w) (w_notes w) (w_h w).
Definition set_tev w x y := mkW (w_ents w) (w_rcur w) (w_rcnt w) (w_comps w) (w_cby w) (w_gev w) (w_gby w) x y (w_hs w) (w_glists w) (w_hby w) (w_hctr w) (w_horder w) (w_archs w) (w_aby w) (w_auid w) (w_drops w) (w_resets w) (w_notes w) (w_h w).
Definition set_hs w x := mkW (w_ents w) (w_rcur w) (w_rcnt w) (w_comps w) (w_cby w) (w_gev w) (w_gby w) (w_tev w) (w_tby w) x (w_glists w) (w_hby w) (w_hctr w) (w_horder w) (w_archs w) (w_aby w) (w_auid w) (w_drops w) (w_resets w) (w_notes w) (w_h w).
Definition set_hreg w hs gl hby ctr ord := mkW (w_ents w) (w_rcur w) (w_rcnt w) (w_comps w) (w_cby w) (w_gev w) (w_gby w) (w_tev w) (w_tby w) hs gl hby ctr ord (w_archs w) (w_aby w) (w_auid w) (w_drops w) (w_resets w) (w_notes w) (w_h w).
Definition set_glists w gl := set_hreg w (w_hs w) gl (w_hby w) (w_hctr w) (w_horder w).
Definition set_archs w x := mkW (w_ents w) (w_rcur w) (w_rcnt w) (w_comps w) (w_cby w) (w_gev w) (w_gby w) (w_tev w) (w_tby w) (w_hs w) (w_glists w) (w_hby w) (w_hctr w) (w_horder w) x (w_aby w) (w_auid w) (w_drops w) (w_resets w) (w_notes w) (w_h w).
Definition set_aidx w aby uid := mkW (w_ents w) (w_rcur w) (w_rcnt w) (w_comps w) (w_cby w) (w_gev w) (w_gby w) (w_tev w) (w_tby w) (w_hs w) (w_glists w) (w_hby w) (w_hctr w) (w_horder w) (w_archs w) aby uid (w_drops w) (w_resets w) (w_notes w) (w_h w).
Definition set_drops w x := mkW (w_ents w) (w_rcur w) (w_rcnt w) (w_comps w) (w_cby w) (w_gev w) (w_gby w) (w_tev w) (w_tby w) (w_hs w) (w_glists w) (w_hby w) (w_hctr w) (w_horder w) (w_archs w) (w_aby w) (w_auid w) x (w_resets w) (w_notes w) (w_h w).
Definition set_resets w x := mkW (w_ents w) (w_rcur w) (w_rcnt w) (w_comps w) (w_cby w) (w_gev w) (w_gby w) (w_tev w) (w_tby w) (w_hs w) (w_glists w) (w_hby w) (w_hctr w) (w_horder w) (w_archs w) (w_aby w) (w_auid w) (w_drops w) x (w_notes w) (w_h w).
Definition set_notes w x := mkW (w_ents w) (w_rcur w) (w_rcnt w) (w_comps w) (w_cby w) (w_gev w) (w_gby w) (w_tev w) (w_tby w) (w_hs w) (w_glists w) (w_hby w) (w_hctr w) (w_horder w) (w_archs w) (w_aby w) (w_auid w) (w_drops w) (w_resets w) x (w_h w).
Definition set_h w x := mkW (w_ents w) (w_rcur w) (w_rcnt w) (w_comps w) (w_cby w) (w_gev w) (w_gby w) (w_tev w) (w_tby w) (w_hs w) (w_glists w) (w_hby w) (w_hctr w) (w_horder w) (w_archs w) (w_aby w) (w_auid w) (w_drops w) (w_resets w) (w_notes w) x.

Inductive res (A : Type) := ROk (a : A) (w : world) | RFail (f : fail) (w : world).
Arguments ROk {A}. Arguments RFail {A}.
Definition rbind {A B} (r : res A) (f : A -> world -> res B) : res B :=
  match r with ROk a w => f a w | RFail e w => RFail e w end.
Notation "'do' ( a , w ) <- r ; k" := (rbind r (fun a w => k)) (at level 200, a name, w name, r at level 100, k at level 200).

(* ------------------------------------------------------------------ *)
(* Slab (archetype storage) — slab 0.4: LIFO free list                 *)
(* ------------------------------------------------------------------ *)
Definition slab_get (s : slab) (i : N) : option arch :=
  match nget (sl_entries s) i with Some (SOcc a) => Some a | _ => None end.
Definition slab_set (s : slab) (i : N) (a : arch) : slab :=
  mkSlab (nset (sl_entries s) i (SOcc a)) (sl_next s).
Definition slab_vacant_key (s : slab) : N := sl_next s.
Definition slab_insert (s : slab) (a : arch) : slab :=
  let k := sl_next s in
  if k =? nlen (sl_entries s) then mkSlab (sl_entries s ++ [SOcc a]) (k + 1)
  else match nget (sl_entries s) k with
       | Some (SVac nx) => mkSlab (nset (sl_entries s) k (SOcc a)) nx
       | _ => s
       end.
Definition slab_remove (s : slab) (i : N) : slab :=
  mkSlab (nset (sl_entries s) i (SVac (sl_next s))) i.
Fixpoint slab_iter_from (l : list sentry) (i : N) : list (N * arch) :=
  match l with
  | [] => []
  | SOcc a :: t => (i, a) :: slab_iter_from t (i + 1)
  | SVac _ :: t => slab_iter_from t (i + 1)
  end.
Definition slab_iter (s : slab) : list (N * arch) := slab_iter_from (sl_entries s) 0.

(* ------------------------------------------------------------------ *)
(* small helpers                                                       *)
(* ------------------------------------------------------------------ *)
Definition arch_has (a : arch) (c : N) : bool := existsb (N.eqb c) (a_comps a).
Fixpoint col_index (comps : list N) (c : N) : option N :=
  match comps with
  | [] => None
  | h :: t => if c =? h then Some 0 else option_map N.succ (col_index t c)
  end.
Definition row_col (a : arch) (vals : list cval) (c : N) : option cval :=
  match col_index (a_comps a) c with Some i => nget vals i | None => None end.
Definition set_rows a r := mkA (a_uid a) (a_comps a) r (a_cap a) (a_epoch a) (a_ins a) (a_rem a) (a_refresh a) (a_listeners a).
Definition set_cap a c e := mkA (a_uid a) (a_comps a) (a_rows a) c e (a_ins a) (a_rem a) (a_refresh a) (a_listeners a).
Definition set_edges a i r := mkA (a_uid a) (a_comps a) (a_rows a) (a_cap a) (a_epoch a) i r (a_refresh a) (a_listeners a).
Definition set_tables a rf ls := mkA (a_uid a) (a_comps a) (a_rows a) (a_cap a) (a_epoch a) (a_ins a) (a_rem a) rf ls.

Definition key_ltb (a b : key) : bool := (fst a <? fst b) || ((fst a =? fst b) && (snd a <? snd b)).
Fixpoint kset_insert (k : key) (l : list key) : list key :=
  match l with
  | [] => [k]
  | h :: t => if key_eqb k h then l else if key_ltb k h then k :: l else h :: kset_insert k t
  end.
Definition kset_remove (k : key) (l : list key) : list key := filter (fun x => negb (key_eqb x k)) l.

(* Vec growth of `entity_ids: Vec<EntityId>` under reserve(1) when len == cap *)
Definition grow (c : N) : N := N.max (2 * c) 4.

Definition log_drop (w : world) (cls ser : N) : world := set_drops w (w_drops w ++ [(cls, ser)]).
(* destroy a component value of tag [t] *)
Definition drop_cval (w : world) (t : N) (v : cval) : world :=
  if ctag_has_drop t then log_drop w t (fst v) else w.

Definition comp_tag (w : world) (c : N) : N :=
  match sget (slots (w_comps w)) c with
  | Some s => match val s with Some ci => c_tag ci | None => 99 end
  | None => 99
  end.
Definition get_by_index {V} (m : smap V) (i : N) : option (key * V) :=
  match sget (slots m) i with
  | Some s => match val s with Some v => Some ((i, gen s), v) | None => None end
  | None => None
  end.
Definition upd_by_index {V} (m : smap V) (i : N) (f : V -> V) : smap V :=
  match sget (slots m) i with
  | Some s => match val s with
              | Some v => mkSm (supd (slots m) i (mkSlot (gen s) (link s) (Some (f v)))) (next_free m) (sm_len m)
              | None => m end
  | None => m
  end.
Definition upd_by_key {V} (m : smap V) (k : key) (f : V -> V) : smap V :=
  match sm_get k m with Some _ => upd_by_index m (fst k) f | None => m end.

(* ------------------------------------------------------------------ *)
(* Fetcher caches (fetch.rs: FetcherState.map : SparseMap<ArchetypeIdx, ArchState>)  *)
(* ------------------------------------------------------------------ *)
Definition ce_idx (e : centry) : N := fst (fst e).
Definition cache_insert (c : list centry) (e : centry) : list centry :=
  match nposition (fun x => ce_idx x =? ce_idx e) c with
  | Some i => nset c i e
  | None => c ++ [e]
  end.
Definition cache_remove (c : list centry) (ai : N) : list centry :=
  match nposition (fun x => ce_idx x =? ai) c with
  | Some i => swap_remove c i
  | None => c
  end.
Definition param_refresh (ai : N) (a : arch) (p : rparam) : rparam :=
  match p with
  | RRecvT m q c => match arch_state (arch_has a) q with
                    | Some _ => RRecvT m q (cache_insert c (ai, a_uid a, a_epoch a)) | None => p end
  | RFetch k q c => match arch_state (arch_has a) q with
                    | Some _ => RFetch k q (cache_insert c (ai, a_uid a, a_epoch a)) | None => p end
  | _ => p
  end.
Definition param_remove (ai : N) (p : rparam) : rparam :=
  match p with
  | RRecvT m q c => RRecvT m q (cache_remove c ai)
  | RFetch k q c => RFetch k q (cache_remove c ai)
  | _ => p
  end.
Definition set_params h ps := mkH (h_key h) (h_order h) (h_tid h) (h_recv h) (h_recv_mut h) (h_filter h) (h_sent_g h) (h_sent_t h) (h_archfilter h) (h_refcomps h) (h_prio h) ps (h_script h).
Definition h_refresh (ai : N) (a : arch) (h : hinfo) : hinfo := set_params h (map (param_refresh ai a) (h_params h)).
Definition h_remove_arch (ai : N) (h : hinfo) : hinfo := set_params h (map (param_remove ai) (h_params h)).

(* notify every refresh listener of archetype [ai] *)
Definition notify_refresh (w : world) (ai : N) : world :=
  match slab_get (w_archs w) ai with
  | Some a => set_hs w (fold_left (fun hs hk => upd_by_key hs hk (h_refresh ai a)) (a_refresh a) (w_hs w))
  | None => w
  end.
Definition notify_remove_with (w : world) (ai : N) (a : arch) : world :=
  set_hs w (fold_left (fun hs hk => upd_by_key hs hk (h_remove_arch ai)) (a_refresh a) (w_hs w)).
Definition notify_remove (w : world) (ai : N) : world :=
  match slab_get (w_archs w) ai with Some a => notify_remove_with w ai a | None => w end.

(* ------------------------------------------------------------------ *)
(* Archetype::register_handler (archetype.rs:703-730)                  *)
(* ------------------------------------------------------------------ *)
Definition listeners_insert (ls : list (N * hlist key)) (ev : N) (h : key) (p : prio) : list (N * hlist key) :=
  match alookup ev ls with
  | Some l => ainsert ev (hl_insert l h p) ls
  | None => ainsert ev (hl_insert hl_new h p) ls
  end.
(* returns the updated archetype and the updated handler info *)
Definition register_handler (ai : N) (a : arch) (h : hinfo) : arch * hinfo :=
  let has := arch_has a in
  let '(a1, h1) :=
    if ca_matches has (h_archfilter h)
    then (set_tables a (kset_insert (h_key h) (a_refresh a)) (a_listeners a),
          if 0 <? nlen (a_rows a) then h_refresh ai a h else h)
    else (a, h) in
  match h_recv h with
  | RvTargeted ek =>
      if ca_matches has (h_filter h)
      then (set_tables a1 (a_refresh a1) (listeners_insert (a_listeners a1) (fst ek) (h_key h) (h_prio h)), h1)
      else (a1, h1)
  | RvGlobal _ => (a1, h1)
  end.

(* Archetypes::register_handler: every archetype, slab order *)
Definition archs_register_handler (w : world) (hk : key) : world :=
  fold_left (fun w' '(ai, _) =>
    match slab_get (w_archs w') ai, sm_get hk (w_hs w') with
    | Some a, Some h =>
        let '(a', h') := register_handler ai a h in
        set_hs (set_archs w' (slab_set (w_archs w') ai a')) (upd_by_key (w_hs w') hk (fun _ => h'))
    | _, _ => w'
    end) (slab_iter (w_archs w)) w.

(* Archetypes::remove_handler *)
Definition archs_remove_handler (w : world) (h : hinfo) : world :=
  set_archs w (mkSlab (map (fun e => match e with
    | SOcc a =>
        let ls := match h_recv h with
                  | RvTargeted ek => match alookup (fst ek) (a_listeners a) with
                                     | Some l => ainsert (fst ek) (hl_remove key_eqb l (h_key h)) (a_listeners a)
                                     | None => a_listeners a end
                  | RvGlobal _ => a_listeners a end in
        SOcc (set_tables a (kset_remove (h_key h) (a_refresh a)) ls)
    | SVac n => SVac n end) (sl_entries (w_archs w))) (sl_next (w_archs w))).

(* ------------------------------------------------------------------ *)
(* Archetype graph                                                     *)
(* ------------------------------------------------------------------ *)
Fixpoint sorted_insert (c : N) (l : list N) : list N :=
  match l with [] => [c] | h :: t => if c <? h then c :: l else h :: sorted_insert c t end.
Definition aby_lookup (w : world) (cs : list N) : option N :=
  match find (fun p => list_eqb N.eqb (fst p) cs) (w_aby w) with Some p => Some (snd p) | None => None end.

(* Archetype::new + registration of all handlers in insertion order + insertion in the slab *)
Definition create_arch (w : world) (cs : list N) (ins rem : list (N * N)) : N * world :=
  let ai := slab_vacant_key (w_archs w) in
  let a0 := mkA (w_auid w) cs [] 0 0 ins rem [] [] in
  (* member_of *)
  let comps' := fold_left (fun m c => upd_by_index m c (fun ci => mkC (c_tag ci) (c_member_of ci ++ [ai]) (c_ins ci) (c_rem ci))) cs (w_comps w) in
  let w1 := set_comps w comps' (w_cby w) in
  (* handlers.iter_mut() in by_insert_order *)
  let '(a1, hs1) := fold_left (fun '(a, hs) '(_, hk) =>
       match sm_get hk hs with
       | Some h => let '(a', h') := register_handler ai a h in (a', upd_by_key hs hk (fun _ => h'))
       | None => (a, hs) end) (w_horder w1) (a0, w_hs w1) in
  let w2 := set_hs w1 hs1 in
  let w3 := set_aidx w2 (w_aby w2 ++ [(cs, ai)]) (w_auid w2 + 1) in
  (ai, set_archs w3 (slab_insert (w_archs w3) a1)).

Definition upd_arch (w : world) (ai : N) (f : arch -> arch) : world :=
  match slab_get (w_archs w) ai with Some a => set_archs w (slab_set (w_archs w) ai (f a)) | None => w end.

(* archetype.rs:207-275 *)
Definition traverse_insert (w : world) (src c : N) : res N :=
  match slab_get (w_archs w) src with
  | None => RFail (FUB 220) w
  | Some sa =>
      match alookup c (a_ins sa) with
      | Some d => ROk d w
      | None =>
          if arch_has sa c then ROk src w
          else
            let cs := sorted_insert c (a_comps sa) in
            match aby_lookup w cs with
            | Some d => ROk d (upd_arch w src (fun a => set_edges a (ainsert c d (a_ins a)) (a_rem a)))
            | None =>
                let '(d, w1) := create_arch w cs [] [(c, src)] in
                ROk d (upd_arch w1 src (fun a => set_edges a (ainsert c d (a_ins a)) (a_rem a)))
            end
      end
  end.
(* archetype.rs:282-350 *)
Definition traverse_remove (w : world) (src c : N) : res N :=
  match slab_get (w_archs w) src with
  | None => RFail (FUB 293) w
  | Some sa =>
      match alookup c (a_rem sa) with
      | Some d => ROk d w
      | None =>
          if negb (arch_has sa c) then ROk src w
          else
            let cs := filter (fun x => negb (x =? c)) (a_comps sa) in
            match aby_lookup w cs with
            | Some d => ROk d (upd_arch w src (fun a => set_edges a (a_ins a) (ainsert c d (a_rem a))))
            | None =>
                let '(d, w1) := create_arch w cs [(c, src)] [] in
                ROk d (upd_arch w1 src (fun a => set_edges a (a_ins a) (ainsert c d (a_rem a))))
            end
      end
  end.

Definition reserve_one (a : arch) : arch * bool :=
  if nlen (a_rows a) =? a_cap a then (set_cap a (grow (a_cap a)) (a_epoch a + 1), true) else (a, false).

Definition set_loc (w : world) (e : key) (l : eloc) : res unit :=
  match sm_get e (w_ents w) with
  | Some _ => ROk tt (set_ents w (upd_by_index (w_ents w) (fst e) (fun _ => l)))
  | None => RFail (FUB 482) w
  end.

(* Archetypes::spawn (archetype.rs:97-115): returns the location *)
Definition arch_spawn (w : world) (e : key) : eloc * world :=
  match slab_get (w_archs w) 0 with
  | None => ((0, 0), w)
  | Some a =>
      let '(a1, re) := reserve_one a in
      let row := nlen (a_rows a1) in
      let a2 := set_rows a1 (a_rows a1 ++ [(e, [])]) in
      let w1 := set_archs w (slab_set (w_archs w) 0 a2) in
      ((0, row), if (nlen (a_rows a2) =? 1) || re then notify_refresh w1 0 else w1)
  end.

(* merge of move_entity (archetype.rs:390-475) on one row: source values by source columns,
   destination columns, the new component if any; returns destination values and the source
   values that are destroyed *)
Fixpoint merge_row (fuel : nat) (sc : list N) (sv : list cval) (dc : list N) (nw : option (N * cval))
  : option (list cval * list (N * cval)) :=
  match fuel with
  | O => None
  | S f =>
    match sc, dc with
    | [], [] => match nw with None => Some ([], []) | Some _ => None end   (* debug_assert!(new_components.next().is_none()) *)
    | s :: sc', [] =>
        match sv with
        | v :: sv' => match merge_row f sc' sv' [] nw with Some (d, k) => Some (d, (s, v) :: k) | None => None end
        | [] => None end
    | [], d :: dc' =>
        match nw with
        | Some (c, v) => if c =? d then match merge_row f [] sv dc' None with Some (r, k) => Some (v :: r, k) | None => None end else None
        | None => None end
    | s :: sc', d :: dc' =>
        match sv with
        | [] => None
        | v :: sv' =>
          if s <? d then match merge_row f sc' sv' dc nw with Some (r, k) => Some (r, (s, v) :: k) | None => None end
          else if s =? d then match merge_row f sc' sv' dc' nw with Some (r, k) => Some (v :: r, k) | None => None end
          else match nw with
               | Some (c, nv) => if c =? d then match merge_row f sc sv dc' None with Some (r, k) => Some (nv :: r, k) | None => None end else None
               | None => None end
        end
    end
  end.

(* archetype.rs:354-504 *)
Definition move_entity (w : world) (src : eloc) (dst : N) (nw : option (N * cval)) : res unit :=
  let '(sai, srow) := src in
  match slab_get (w_archs w) sai with
  | None => RFail (FUB 364) w
  | Some sa =>
    if sai =? dst then
      match nw with
      | None => ROk tt w
      | Some (c, v) =>
          match nget (a_rows sa) srow, col_index (a_comps sa) c with
          | Some (e, vals), Some ci =>
              let old := match nget vals ci with Some o => o | None => (0, 0) end in
              let w1 := drop_cval w (comp_tag w c) old in
              ROk tt (set_archs w1 (slab_set (w_archs w1) sai (set_rows sa (nset (a_rows sa) srow (e, nset vals ci v)))))
          | _, _ => RFail (FUB 370) w
          end
      end
    else
      match slab_get (w_archs w) dst, nget (a_rows sa) srow with
      | Some da, Some (e, vals) =>
          let '(da1, re) := reserve_one da in
          match merge_row (S (length (a_comps sa) + length (a_comps da))) (a_comps sa) vals (a_comps da) nw with
          | None => RFail (FUB 422) w
          | Some (dvals, killed) =>
              let w1 := fold_left (fun w' '(c, v) => drop_cval w' (comp_tag w' c) v) killed w in
              let drow := nlen (a_rows da1) in
              let sa1 := set_rows sa (swap_remove (a_rows sa) srow) in
              let da2 := set_rows da1 (a_rows da1 ++ [(e, dvals)]) in
              let w2 := set_archs w1 (slab_set (slab_set (w_archs w1) sai sa1) dst da2) in
              do (_, w3) <- set_loc w2 e (dst, drow);
              do (_, w4) <- match nget (a_rows sa1) srow with
                            | Some (se, _) => match sm_get se (w_ents w3) with
                                              | Some l => set_loc w3 se (fst l, srow)
                                              | None => RFail (FUB 488) w3 end
                            | None => ROk tt w3 end;
              let w5 := if nlen (a_rows sa1) =? 0 then notify_remove w4 sai else w4 in
              let w6 := if re || (nlen (a_rows da2) =? 1) then notify_refresh w5 dst else w5 in
              ROk tt w6
          end
      | _, _ => RFail (FUB 380) w
      end
  end.

(* archetype.rs:507-540 *)
Definition remove_entity (w : world) (loc : eloc) : res unit :=
  let '(ai, row) := loc in
  match slab_get (w_archs w) ai with
  | None => RFail (FUB 510) w
  | Some a =>
      match nget (a_rows a) row with
      | None => RFail (FUB 521) w
      | Some (e, vals) =>
          let w1 := fold_left (fun w' '(c, v) => drop_cval w' (comp_tag w' c) v) (combine (a_comps a) vals) w in
          let a1 := set_rows a (swap_remove (a_rows a) row) in
          let w2 := set_archs w1 (slab_set (w_archs w1) ai a1) in
          match sm_remove e (w_ents w2) with
          | None => RFail (FUB 526) w2
          | Some (_, ents') =>
              let w3 := set_ents w2 ents' in
              do (_, w4) <- match nget (a_rows a1) row with
                            | Some (de, _) => match sm_get de (w_ents w3) with
                                              | Some l => set_loc w3 de (fst l, row)
                                              | None => RFail (FUB 532) w3 end
                            | None => ROk tt w3 end;
              ROk tt (if nlen (a_rows a1) =? 0 then notify_remove w4 ai else w4)
          end
      end
  end.

(* ------------------------------------------------------------------ *)
(* ReservedEntities (entity.rs:200-235)                                *)
(* ------------------------------------------------------------------ *)
Definition reserve (w : world) : res key :=
  match nki_next (w_rcur w) (w_ents w) with
  | Some (Some k, i') => ROk k (set_res w i' (w_rcnt w + 1))
  | Some (None, _) => RFail (FPanic 5) w
  | None => RFail (FPanic 7) w
  end.
Fixpoint spawn_all_n (n : nat) (w : world) : res unit :=
  match n with
  | O => ROk tt w
  | S n' =>
      (* insert_with(|k| archetypes.spawn(k)) *)
      match insert_with (fun _ => (0, 0)) (w_ents w) with
      | None => RFail (FPanic 5) w
      | Some (k, _) =>
          let '(loc, w1) := arch_spawn w k in
          match insert_with (fun _ => loc) (w_ents w1) with
          | Some (_, ents') => spawn_all_n n' (set_ents w1 ents')
          | None => RFail (FPanic 5) w1
          end
      end
  end.
Definition refresh_cursor (w : world) : world := set_res w (next_key_iter (w_ents w)) (w_rcnt w).
Definition spawn_all (w : world) : res unit :=
  do (_, w1) <- spawn_all_n (N.to_nat (w_rcnt w)) w;
  ROk tt (set_res w1 (next_key_iter (w_ents w1)) 0).

(* ------------------------------------------------------------------ *)
(* Views through the fetcher caches                                    *)
(* ------------------------------------------------------------------ *)
Definition has_of (a : arch) : N -> bool := arch_has a.

(* items of one cached archetype; [first] = it is the first entry of the dense array *)
Definition cache_entry_items (w : world) (q : query) (first : bool) (ce : centry)
  : option fail + list (key * item) :=
  let '(ai, uid, ep) := ce in
  match slab_get (w_archs w) ai with
  | None => inl (Some (FUB 660))
  | Some a =>
      if negb (uid =? a_uid a) then inl (Some (FUB 661))
      else if negb (ep =? a_epoch a) then inl (Some (FUB 663))
      else if (nlen (a_rows a) =? 0) && negb first then inl (Some (FUB 662))
      else match arch_state (has_of a) q with
           | None => inl (Some (FUB 664))
           | Some st => inr (map (fun '(e, vals) => (e, aitem (row_col a vals) e st)) (a_rows a))
           end
  end.
Fixpoint cache_items (w : world) (q : query) (first : bool) (c : list centry) : fail + list (key * item) :=
  match c with
  | [] => inr []
  | ce :: t =>
      match cache_entry_items w q first ce with
      | inl (Some f) => inl f
      | inl None => inl (FUB 0)
      | inr l => match cache_items w q false t with inl f => inl f | inr r => inr (l ++ r) end
      end
  end.

(* get_by_location_mut (fetch.rs:100-104) *)
Definition recv_item (w : world) (q : query) (c : list centry) (loc : eloc) : fail + item :=
  match find (fun ce => ce_idx ce =? fst loc) c with
  | None => inl (FUB 103)
  | Some (ai, uid, ep) =>
      match slab_get (w_archs w) ai with
      | None => inl (FUB 104)
      | Some a =>
          if negb (uid =? a_uid a) then inl (FUB 661) else if negb (ep =? a_epoch a) then inl (FUB 663) else
          match arch_state (has_of a) q, nget (a_rows a) (snd loc) with
          | Some st, Some (e, vals) => inr (aitem (row_col a vals) e st)
          | _, _ => inl (FUB 105)
          end
      end
  end.

(* write through the mutable leaves of a query at every row of the cached archetypes *)
Definition bump_vals (zst : N -> bool) (comps : list N) (muts : list N) (d : N) (vals : list cval) : list cval :=
  map (fun '(c, v) => if existsb (N.eqb c) muts && negb (zst c)
                      then (fst v, snd v + d * N.of_nat (length (filter (N.eqb c) muts))) else v)
      (combine comps vals) ++ skipn (length comps) vals.   (* one column per component: the tail is empty *)
Definition write_arch (w : world) (q : query) (d : N) (ai : N) (only_row : option N) : world :=
  match slab_get (w_archs w) ai with
  | None => w
  | Some a =>
      match arch_state (has_of a) q with
      | None => w
      | Some st =>
          let muts := amuts st in
          let rows' := match only_row with
                       | None => map (fun '(e, vals) => (e, bump_vals (fun c => ctag_zst (comp_tag w c)) (a_comps a) muts d vals)) (a_rows a)
                       | Some r => match nget (a_rows a) r with
                                   | Some (e, vals) => nset (a_rows a) r (e, bump_vals (fun c => ctag_zst (comp_tag w c)) (a_comps a) muts d vals)
                                   | None => a_rows a end
                       end in
          set_archs w (slab_set (w_archs w) ai (set_rows a rows'))
      end
  end.

(* ------------------------------------------------------------------ *)
(* One handler invocation                                              *)
(* ------------------------------------------------------------------ *)
Definition set_hst_fields (h : hst) ids fuel ser inv log := mkHst ids fuel ser inv (k_panic_at h) log.

(* class code under which the destruction of an event value is logged *)
Definition ev_drop (w : world) (targeted : bool) (tag : N) (ev : evv) : world :=
  if targeted then
    if (20 <=? tag) && (tag <? 40) then drop_cval w (tag - 20) (ev_ser ev, ev_val ev)
    else if ttag_has_drop tag then log_drop w (200 + tag) (ev_ser ev) else w
  else if gtag_has_drop tag then log_drop w (100 + tag) (ev_ser ev) else w.

Definition sender_lookup (ps : list rparam) (targeted : bool) (tag : N) : option (option N) :=
  (* None = the handler has no Sender at all; Some None = has one, event not in any set *)
  let senders := filter (fun p => match p with RSender _ _ => true | _ => false end) ps in
  match senders with
  | [] => None
  | _ => Some (fold_left (fun acc p => match acc, p with
                            | Some i, _ => Some i
                            | None, RSender g t => alookup tag (if targeted then t else g)
                            | None, _ => None end) senders None)
  end.

Definition resolve_tgt (w : world) (t : tgt) (ev_target : key) (fresh : list key) : key :=
  match t with
  | TTarget => ev_target
  | TKnown i => let ids := k_ids (w_h w) in
                if nlen ids =? 0 then KEY_NULL
                else match nget ids (i mod nlen ids) with Some k => k | None => KEY_NULL end
  | TFresh k => match nget fresh k with Some x => x | None => KEY_NULL end
  end.

Definition fresh_serial (w : world) : N * world :=
  let h := w_h w in
  (k_serial h, set_h w (set_hst_fields h (k_ids h) (k_fuel h) (k_serial h + 1) (k_inv h) (k_log h))).
Definition new_cval (w : world) (ktag : N) : cval * world :=
  if ctag_zst ktag then ((0, 0), w) else let '(s, w1) := fresh_serial w in ((s, s), w1).
Definition use_fuel (w : world) : bool * world :=
  let h := w_h w in
  if k_fuel h =? 0 then (false, w)
  else (true, set_h w (set_hst_fields h (k_ids h) (k_fuel h - 1) (k_serial h) (k_inv h) (k_log h))).
Definition push_known (w : world) (k : key) : world :=
  let h := w_h w in set_h w (set_hst_fields h (k_ids h ++ [k]) (k_fuel h) (k_serial h) (k_inv h) (k_log h)).

(* the actions of one handler body; returns the events pushed (in push order) *)
Fixpoint run_actions (acts : list act) (ps : list rparam) (ev_target : key) (fresh : list key)
                     (sent : list qitem) (w : world) : list qitem * world * option fail :=
  match acts with
  | [] => (sent, w, None)
  | a :: rest =>
      let '(ok, w0) := use_fuel w in
      if negb ok then run_actions rest ps ev_target fresh sent w else
      let send (targeted : bool) (tag : N) (target : key) (ev : evv) (w' : world) (fresh' : list key) :=
        match sender_lookup ps targeted tag with
        | None => run_actions rest ps ev_target fresh' sent w'
        | Some None => (sent, ev_drop w' targeted tag ev, Some (FPanic 3))   (* the by-value argument is dropped on unwind *)
        | Some (Some idx) => run_actions rest ps ev_target fresh' (sent ++ [mkQ targeted idx target ev]) w'
        end in
      match a with
      | ASend g =>
          match sender_lookup ps false g with
          | None => run_actions rest ps ev_target fresh sent w0
          | _ => let '(s, w1) := fresh_serial w0 in send false g KEY_NULL (mkEv s s KEY_NULL) w1 fresh
          end
      | ASendTo t tg =>
          match sender_lookup ps true tg with
          | None => run_actions rest ps ev_target fresh sent w0
          | _ => let '(s, w1) := fresh_serial w0 in
                 send true tg (resolve_tgt w1 t ev_target fresh) (mkEv s s KEY_NULL) w1 fresh
          end
      | ASpawn =>
          match sender_lookup ps false G_SPAWN with
          | None => run_actions rest ps ev_target fresh sent w0
          | _ =>
            match reserve w0 with
            | RFail f w1 => (sent, w1, Some f)
            | ROk id w1 =>
                match sender_lookup ps false G_SPAWN with
                | Some (Some _) => send false G_SPAWN KEY_NULL (mkEv 0 0 id) (push_known w1 id) (fresh ++ [id])
                | _ => (sent, w1, Some (FPanic 3))
                end
            end
          end
      | AInsert t k =>
          match sender_lookup ps true (T_INSERT k) with
          | None => run_actions rest ps ev_target fresh sent w0
          | _ => let '(v, w1) := new_cval w0 k in
                 send true (T_INSERT k) (resolve_tgt w1 t ev_target fresh) (mkEv (fst v) (snd v) KEY_NULL) w1 fresh
          end
      | ARemove t k => send true (T_REMOVE k) (resolve_tgt w0 t ev_target fresh) (mkEv 0 0 KEY_NULL) w0 fresh
      | ADespawn t => send true T_DESPAWN (resolve_tgt w0 t ev_target fresh) (mkEv 0 0 KEY_NULL) w0 fresh
      end
  end.

(* ---- random access through a fetcher (fetch.rs:45-98) ---- *)
(* get / get_mut: (10, [item]) | (11, []) no such entity | (12, []) query does not match *)
Definition fetch_get (w : world) (q : query) (c : list centry) (e : key) : fail + (N * list item) :=
  match sm_get e (w_ents w) with
  | None => inr (11, [])
  | Some loc =>
      match find (fun ce => ce_idx ce =? fst loc) c with
      | None => inr (12, [])
      | Some _ => match recv_item w q c loc with inl f => inl f | inr it => inr (10, [it]) end
      end
  end.
Fixpoint has_dup (l : list key) : bool :=
  match l with [] => false | x :: t => existsb (key_eqb x) t || has_dup t end.
(* get_many_mut: (20, items) | (21, []) aliased | (22, []) no such entity | (23, []) no match *)
Fixpoint fetch_get_all (w : world) (q : query) (c : list centry) (es : list key) : fail + (N * list item) :=
  match es with
  | [] => inr (20, [])
  | e :: t =>
      match fetch_get w q c e with
      | inl f => inl f
      | inr (10, its) => match fetch_get_all w q c t with
                         | inl f => inl f
                         | inr (20, r) => inr (20, its ++ r)
                         | inr other => inr other end
      | inr (11, _) => inr (22, [])
      | inr (_, _) => inr (23, [])
      end
  end.
Definition fetch_get_many (w : world) (q : query) (c : list centry) (es : list key) : fail + (N * list item) :=
  if has_dup es then inr (21, []) else fetch_get_all w q c es.

(* the probes every Fetcher parameter of the harness performs at each invocation *)
Definition probe_lists (ids : list key) : list (bool * list key) :=   (* (many?, ids) *)
  match ids with
  | [] => []
  | [e0] => [(false, [e0])]
  | [e0; e1] => [(false, [e0]); (false, [e1]); (true, [e0; e1]); (true, [e0; e1; e0])]
  | e0 :: e1 :: e2 :: _ => [(false, [e0]); (false, [e1]); (false, [e2]); (true, [e0; e1]); (true, [e0; e1; e0]);
                            (true, [e1; e2; e2]); (true, [e2; e0; e1])]
  end.
Fixpoint run_probes (w : world) (q : query) (c : list centry) (ps : list (bool * list key)) : fail + list (N * list item) :=
  match ps with
  | [] => inr []
  | (many, es) :: t =>
      let r := if many then fetch_get_many w q c es
               else match es with e :: _ => fetch_get w q c e | [] => inr (11, []) end in
      match r with
      | inl f => inl f
      | inr x => match run_probes w q c t with inl f => inl f | inr xs => inr (x :: xs) end
      end
  end.

(* events whose value carries a mutable payload in the harness *)
Definition ev_has_payload (targeted : bool) (tag : N) : bool :=
  if targeted then (tag <? 4) || ((20 <=? tag) && (tag <? 40) && negb (ctag_zst (tag - 20))) else tag <? 4.

Section Beh.
(* a handler body: given the handler, the event it received and the invocation number *)
Variable beh : hinfo -> logent -> N -> script.

(* views of all cache-bearing params, in param order; Single mismatch is detected here
   (HandlerParam::get of every param runs before the body) *)
Fixpoint param_views (w : world) (ps : list rparam) (loc : eloc)
  : fail + (list item * list (N * list item)) :=
  match ps with
  | [] => inr ([], [])
  | p :: t =>
      match p with
      | RRecvT _ q c =>
          match recv_item w q c loc with
          | inl f => inl f
          | inr it => match param_views w t loc with inl f => inl f | inr (r, v) => inr (it :: r, v) end
          end
      | RFetch k q c =>
          match cache_items w q true c with
          | inl f => inl f
          | inr its =>
              let items := map snd its in
              match k with
              | FkSingle => if negb (nlen items =? 1) then inl (FPanic 2) else
                            match param_views w t loc with inl f => inl f | inr (r, v) => inr (r, (1, items) :: v) end
              | FkTrySingle =>
                  let code := if nlen items =? 1 then 2 else if nlen items =? 0 then 3 else 4 in
                  match param_views w t loc with inl f => inl f | inr (r, v) => inr (r, (code, if nlen items =? 1 then items else []) :: v) end
              | FkFetcher =>
                  match run_probes w q c (probe_lists (k_ids (w_h w))) with
                  | inl f => inl f
                  | inr probes =>
                      match param_views w t loc with inl f => inl f | inr (r, v) => inr (r, ((0, items) :: probes) ++ v) end
                  end
              end
          end
      | _ => param_views w t loc
      end
  end.

(* writes through every mutable fetcher / receiver item *)
Definition apply_writes (w : world) (ps : list rparam) (loc : eloc) (d : N) : world :=
  if d =? 0 then w else
  fold_left (fun w' p => match p with
    | RRecvT _ q _ => write_arch w' q d (fst loc) (Some (snd loc))
    | RFetch FkFetcher q c => fold_left (fun w'' ce => write_arch w'' q d (ce_idx ce) None) c w'
    | _ => w' end) ps w.

Record hres := mkHres { hr_taken : bool; hr_ev : evv; hr_sent : list qitem; hr_fail : option fail }.

Definition run_handler (w : world) (h : hinfo) (it : qitem) (tag : N) (loc : eloc) : hres * world :=
  match param_views w (h_params h) loc with
  | inl f => (mkHres false (qi_ev it) [] (Some f), w)
  | inr (ritems, views) =>
      let hs := w_h w in
      let le := mkLog (h_key h) (qi_targeted it) tag (qi_ev it) (qi_target it) (w_resets w) ritems views in
      let inv := k_inv hs in
      let w1 := set_h w (set_hst_fields hs (k_ids hs) (k_fuel hs) (k_serial hs) (inv + 1) (k_log hs ++ [le])) in
      let sc := beh h le inv in
      let ev := qi_ev it in
      let ev1 := if h_recv_mut h && ev_has_payload (qi_targeted it) tag then mkEv (ev_ser ev) (ev_val ev + s_evdelta sc) (ev_id ev) else ev in
      let w2 := apply_writes w1 (h_params h) loc (s_wdelta sc) in
      let ev_target := if qi_targeted it then qi_target it else if tag =? G_SPAWN then ev_id ev else KEY_NULL in
      let '(sent, w3, fl) := run_actions (s_actions sc) (h_params h) ev_target [] [] w2 in
      let taken := h_recv_mut h && s_take sc in
      match fl with
      | Some f => (mkHres false ev1 sent (Some f), w3)
      | None => if k_panic_at hs =? inv + 1 then (mkHres taken ev1 sent (Some (FPanic 6)), w3)
                else (mkHres taken ev1 sent None, w3)
      end
  end.

(* the handler loop of one delivery (world.rs:1083-1108) *)
Fixpoint run_handlers (hl : list key) (w : world) (it : qitem) (tag : N) (loc : eloc) (sent : list qitem)
  : world * evv * list qitem * bool (*taken*) * option fail :=
  match hl with
  | [] => (w, qi_ev it, sent, false, None)
  | hk :: rest =>
      match sm_get hk (w_hs w) with
      | None => (w, qi_ev it, sent, false, Some (FUB 1084))
      | Some h =>
          let '(r, w1) := run_handler w h it tag loc in
          let it' := mkQ (qi_targeted it) (qi_idx it) (qi_target it) (hr_ev r) in
          match hr_fail r with
          | Some f => ((if hr_taken r then ev_drop w1 (qi_targeted it) tag (hr_ev r) else w1),
                       hr_ev r, sent ++ hr_sent r, hr_taken r, Some f)
          | None => if hr_taken r then (ev_drop w1 (qi_targeted it) tag (hr_ev r), hr_ev r, sent ++ hr_sent r, true, None)
                    else run_handlers rest w1 it' tag loc (sent ++ hr_sent r)
          end
      end
  end.

Definition fail_of {A} (r : res A) : world * option fail :=
  match r with ROk _ w => (w, None) | RFail f w => (w, Some f) end.

(* the change an Insert / Remove / Spawn / Despawn event makes once its handlers have run
   (world.rs:1110-1190); [loc] is the target's location, looked up before the handlers ran *)
Definition builtin_effect (kind : ekind) (ev : evv) (loc : eloc) (w1 : world) : res unit :=
  match kind with
  | KNormal => ROk tt w1
  | KInsert c => do (d, w2) <- traverse_insert w1 (fst loc) c;
                 move_entity w2 loc d (Some (c, (ev_ser ev, ev_val ev)))
  | KRemove c => do (d, w2) <- traverse_remove w1 (fst loc) c; move_entity w2 loc d None
  | KSpawn => spawn_all w1
  | KDespawn => do (_, w2) <- spawn_all w1; do (_, w3) <- remove_entity w2 loc; ROk tt (refresh_cursor w3)
  end.

(* one delivery: world.rs:1043-1194.  Returns (sent, world, unwinding?) and records a
   failure in the world's harness state through [k_fail]-free convention: the failure is
   returned alongside. *)
Definition deliver_one (it : qitem) (w : world) : list qitem * world * option fail :=
  let finish (tag : N) (kind : ekind) (hl : list key) (loc : eloc) :=
    let '(w1, ev, sent, taken, fl) := run_handlers hl w it tag loc [] in
    match fl with
    | Some f =>
        (* unwinding: EventDropper::drop destroys the in-flight event unless it was taken *)
        (sent, (if taken then w1 else ev_drop w1 (qi_targeted it) tag ev), Some f)
    | None =>
        if taken then (sent, w1, None) else
        match kind with
        | KNormal => (sent, ev_drop w1 (qi_targeted it) tag ev, None)
        | _ => let '(w3, f) := fail_of (builtin_effect kind ev loc w1) in (sent, w3, f)
        end
    end in
  if qi_targeted it then
    match get_by_index (w_tev w) (qi_idx it) with
    | None => ([], w, Some (FUB 1056))
    | Some (_, info) =>
        match sm_get (qi_target it) (w_ents w) with
        | None => ([], ev_drop w true (e_tag info) (qi_ev it), None)          (* dead target: discard *)
        | Some loc =>
            match slab_get (w_archs w) (fst loc) with
            | None => ([], w, Some (FUB 1069))
            | Some a =>
                let hl := match alookup (qi_idx it) (a_listeners a) with Some l => hl_entries l | None => [] end in
                finish (e_tag info) (e_kind info) hl loc
            end
        end
    end
  else
    match get_by_index (w_gev w) (qi_idx it) with
    | None => ([], w, Some (FUB 1045))
    | Some (_, info) =>
        match nget (w_glists w) (qi_idx it) with
        | None => ([], w, Some (FUB 1048))
        | Some l => finish (e_tag info) (e_kind info) (hl_entries l) (U32MAX, U32MAX)
        end
    end.

(* EventDropper::drop on the rest of the queue (world.rs:1016-1039) *)
Definition unwind_queue (q : list qitem) (w : world) : world :=
  fold_left (fun w' it =>
    let tag := if qi_targeted it
               then match get_by_index (w_tev w') (qi_idx it) with Some (_, i) => e_tag i | None => 999 end
               else match get_by_index (w_gev w') (qi_idx it) with Some (_, i) => e_tag i | None => 999 end in
    ev_drop w' (qi_targeted it) tag (qi_ev it)) q w.

(* flush_event_queue IS the generic stack machine of Loop.v, instantiated with
   state = (world, failure raised by the last delivery), run = deliver_one *)
Definition wst := (world * option fail)%type.
Definition run_w (it : qitem) (s : wst) : list qitem * wst * bool :=
  let '(sent, w1, fl) := deliver_one it (fst s) in
  (sent, (w1, fl), match fl with Some _ => true | None => false end).
Definition unwind_w (q : list qitem) (s : wst) : wst :=
  match snd s with
  | Some (FPanic k) =>
      (* EventDropper::drop: destroy what is queued, then materialise the reservations *)
      let w2 := unwind_queue q (fst s) in
      (match spawn_all w2 with ROk _ w3 => w3 | RFail _ w3 => w3 end, Some (FPanic k))
  | _ => s
  end.
Definition flush_loop (fuel : nat) (q : list qitem) (w : world) : world * option fail :=
  match Loop.flush wst qitem run_w unwind_w fuel q (w, None) [] with
  | None => (w, Some (FPanic 8))
  | Some (_, (w', _), Finished) => (set_resets w' (w_resets w' + 1), None)      (* self.bump.reset() *)
  | Some (_, (w', fl), Aborted) => (w', fl)
  end.
Definition FUEL : nat := Nat.pow 2 14.
Definition flush (q : list qitem) (w : world) : res unit :=
  match flush_loop FUEL q w with (w', None) => ROk tt w' | (w', Some f) => RFail f w' end.

(* ------------------------------------------------------------------ *)
(* Registries and notifications                                        *)
(* ------------------------------------------------------------------ *)
Definition gkind (tag : N) : ekind := if tag =? G_SPAWN then KSpawn else KNormal.
Definition note (w : world) (gtag : N) (id : key) : world := set_notes w (w_notes w ++ [(gtag, id)]).

(* add_global_event / send, mutually recursive through the Add* notifications *)
Fixpoint add_global_event (fuel : nat) (tag : N) (w : world) : res key :=
  match fuel with
  | O => RFail (FPanic 8) w
  | S f =>
      match alookup tag (w_gby w) with
      | Some k => ROk k w
      | None =>
          match insert_with (fun _ => mkE tag (gkind tag)) (w_gev w) with
          | None => RFail (FPanic 5) w
          | Some (k, m) =>
              let w1 := set_gev w m (ainsert tag k (w_gby w)) in
              (* handlers.register_event *)
              let w2 := set_glists w1 (nrepeat_to (w_glists w1) (N.to_nat (fst k) + 1) hl_new) in
              do (_, w3) <- send_global f G_ADDGE (mkEv 0 0 k) w2;
              ROk k w3
          end
      end
  end
with send_global (fuel : nat) (tag : N) (ev : evv) (w : world) : res unit :=
  match fuel with
  | O => RFail (FPanic 8) w
  | S f =>
      (* if registration unwinds, the by-value event argument is dropped by the caller's frame *)
      match add_global_event f tag w with
      | RFail e w' => RFail e (ev_drop w' false tag ev)
      | ROk k w1 =>
          let w2 := if (10 <? tag) then note w1 tag (ev_id ev) else w1 in
          flush [mkQ false (fst k) KEY_NULL ev] w2
      end
  end.
Definition RFUEL : nat := 8.

Definition add_component (tag : N) (w : world) : res key :=
  match alookup tag (w_cby w) with
  | Some k => ROk k w
  | None =>
      match insert_with (fun _ => mkC tag [] [] []) (w_comps w) with
      | None => RFail (FPanic 5) w
      | Some (k, m) =>
          let w1 := set_comps w m (ainsert tag k (w_cby w)) in
          do (_, w2) <- send_global RFUEL G_ADDC (mkEv 0 0 k) w1;
          ROk k w2
      end
  end.

Definition add_targeted_event (tag : N) (w : world) : res key :=
  (* EventDescriptor::new runs E::init first, even when the event is already registered *)
  do (kind, w0) <- (if (20 <=? tag) && (tag <? 40) then do (c, w') <- add_component (tag - 20) w; ROk (KInsert (fst c)) w'
                    else if (40 <=? tag) && (tag <? 60) then do (c, w') <- add_component (tag - 40) w; ROk (KRemove (fst c)) w'
                    else if tag =? T_DESPAWN then ROk KDespawn w else ROk KNormal w);
  match alookup tag (w_tby w0) with
  | Some k => ROk k w0
  | None =>
      match insert_with (fun _ => mkE tag kind) (w_tev w0) with
      | None => RFail (FPanic 5) w0
      | Some (k, m) =>
          let w1 := set_tev w0 m (ainsert tag k (w_tby w0)) in
          let w2 := match kind with
                    | KInsert c => set_comps w1 (upd_by_index (w_comps w1) c (fun ci => mkC (c_tag ci) (c_member_of ci) (c_ins ci ++ [k]) (c_rem ci))) (w_cby w1)
                    | KRemove c => set_comps w1 (upd_by_index (w_comps w1) c (fun ci => mkC (c_tag ci) (c_member_of ci) (c_ins ci) (c_rem ci ++ [k]))) (w_cby w1)
                    | _ => w1 end in
          do (_, w3) <- send_global RFUEL G_ADDTE (mkEv 0 0 k) w2;
          ROk k w3
      end
  end.

Definition send_to (tag : N) (target : key) (ev : evv) (w : world) : res unit :=
  match add_targeted_event tag w with
  | RFail e w' => RFail e (ev_drop w' true tag ev)
  | ROk k w1 => flush [mkQ true (fst k) target ev] w1
  end.

(* ------------------------------------------------------------------ *)
(* Handlers: init of the parameters, validation, registration          *)
(* ------------------------------------------------------------------ *)
Inductive rcvd := RcNone | RcOk (r : recvid) | RcInvalid.
Definition recvid_eqb (a b : recvid) : bool :=
  match a, b with
  | RvGlobal x, RvGlobal y | RvTargeted x, RvTargeted y => key_eqb x y
  | _, _ => false end.
Record hconfig := mkCfg {
  cf_recv : rcvd; cf_access : option access; cf_filter : ca;
  cf_sg : list N; cf_st : list N; cf_cas : list ca; cf_refs : list N; cf_params : list rparam }.
Definition cfg0 := mkCfg RcNone (Some AcNone) ca_false [] [] [] [] [].

Definition cfg_set_recv (c : hconfig) (r : recvid) : rcvd :=
  match cf_recv c with
  | RcNone => RcOk r
  | RcOk old => if recvid_eqb old r then RcOk r else RcInvalid
  | RcInvalid => RcInvalid
  end.
Definition cfg_set_access (c : hconfig) (a : access) : option access :=
  match cf_access c with Some old => join_acc a old | None => None end.

(* resolve a query's component tags to indices, registering components left to right *)
Fixpoint resolve_query (q : query) (w : world) : res query :=
  match q with
  | QRef t => do (k, w1) <- add_component t w; ROk (QRef (fst k)) w1
  | QMut t => do (k, w1) <- add_component t w; ROk (QMut (fst k)) w1
  | QTuple qs =>
      do (l, w1) <- (fix go (l : list query) (w : world) : res (list query) :=
                       match l with
                       | [] => ROk [] w
                       | x :: t => do (x', w1) <- resolve_query x w; do (t', w2) <- go t w1; ROk (x' :: t') w2
                       end) qs w;
      ROk (QTuple l) w1
  | QOpt x => do (x', w1) <- resolve_query x w; ROk (QOpt x') w1
  | QOr l r => do (l', w1) <- resolve_query l w; do (r', w2) <- resolve_query r w1; ROk (QOr l' r') w2
  | QXor l r => do (l', w1) <- resolve_query l w; do (r', w2) <- resolve_query r w1; ROk (QXor l' r') w2
  | QNot x => do (x', w1) <- resolve_query x w; ROk (QNot x') w1
  | QWith x => do (x', w1) <- resolve_query x w; ROk (QWith x') w1
  | QHas x => do (x', w1) <- resolve_query x w; ROk (QHas x') w1
  | QEid => ROk QEid w
  end.

Fixpoint register_set (evs : list (bool * N)) (w : world) : res (list (bool * N * N)) :=
  match evs with
  | [] => ROk [] w
  | (targeted, t) :: rest =>
      do (k, w1) <- (if targeted then add_targeted_event t w else add_global_event RFUEL t w);
      do (r, w2) <- register_set rest w1;
      ROk ((targeted, t, fst k) :: r) w2
  end.

Definition init_param (p : param) (c : hconfig) (w : world) : res hconfig :=
  match p with
  | PRecvG tag m =>
      do (k, w1) <- add_global_event RFUEL tag w;
      ROk (mkCfg (cfg_set_recv c (RvGlobal k)) (cfg_set_access c (if m then AcReadWrite else AcRead))
                 (cf_filter c) (cf_sg c) (cf_st c) (cf_cas c) (cf_refs c) (cf_params c ++ [RRecvG m])) w1
  | PRecvT tag m q =>
      do (k, w1) <- add_targeted_event tag w;
      do (q', w2) <- resolve_query q w1;
      let a := access_of q' in
      let filt := match cf_recv c with RcNone => a | _ => ca_and (cf_filter c) a end in
      ROk (mkCfg (cfg_set_recv c (RvTargeted k)) (cfg_set_access c (if m then AcReadWrite else AcRead))
                 filt (cf_sg c) (cf_st c) (cf_cas c ++ [a]) (fold_left (fun s x => sinsert x s) (leaves q') (cf_refs c))
                 (cf_params c ++ [RRecvT m q' []])) w2
  | PFetch k q =>
      do (q', w1) <- resolve_query q w;
      ROk (mkCfg (cf_recv c) (cf_access c) (cf_filter c) (cf_sg c) (cf_st c) (cf_cas c ++ [access_of q'])
                 (fold_left (fun s x => sinsert x s) (leaves q') (cf_refs c)) (cf_params c ++ [RFetch k q' []])) w1
  | PSender evs =>
      do (r, w1) <- register_set evs w;
      let g := flat_map (fun x : bool * N * N => if fst (fst x) then [] else [(snd (fst x), snd x)]) r in
      let t := flat_map (fun x : bool * N * N => if fst (fst x) then [(snd (fst x), snd x)] else []) r in
      ROk (mkCfg (cf_recv c) (cf_access c) (cf_filter c)
                 (fold_left (fun s x => sinsert (snd x) s) g (cf_sg c)) (fold_left (fun s x => sinsert (snd x) s) t (cf_st c))
                 (cf_cas c) (cf_refs c) (cf_params c ++ [RSender g t])) w1
  end.
Fixpoint init_params (ps : list param) (c : hconfig) (w : world) : res hconfig :=
  match ps with
  | [] => ROk c w
  | p :: t => do (c1, w1) <- init_param p c w; init_params t c1 w1
  end.

(* world.rs:363-378 after the fix: conjunction, every param alone, every pair *)
Fixpoint pair_conflicts (l : list ca) : list N :=
  match l with
  | [] => []
  | a :: t => ca_conflicts a ++ flat_map (fun b => ca_conflicts (ca_and a b)) t ++ pair_conflicts t
  end.
Definition handler_conflicts (cas : list ca) : list N :=
  ca_conflicts (fold_left ca_and cas ca_true) ++ pair_conflicts cas.

Record hshape := mkShape { sh_params : list param; sh_prio : prio; sh_tid : option N; sh_script : script }.

Definition add_handler (sh : hshape) (w : world) : res key :=
  match (match sh_tid sh with Some t => alookup t (w_hby w) | None => None end) with
  | Some k => ROk k w
  | None =>
      do (c, w1) <- init_params (sh_params sh) cfg0 w;
      match cf_recv c, cf_access c with
      | RcNone, _ | RcInvalid, _ => RFail (FPanic 1) w1
      | _, None => RFail (FPanic 1) w1
      | RcOk rv, Some acc =>
          match handler_conflicts (cf_cas c) with
          | _ :: _ => RFail (FPanic 1) w1
          | [] =>
              let conj := fold_left ca_and (cf_cas c) ca_true in
              let disj := fold_left ca_or (cf_cas c) ca_false in
              let order := w_hctr w1 in
              match insert_with (fun k => mkH k order (sh_tid sh) rv (match acc with AcReadWrite => true | _ => false end)
                                            (cf_filter c) (cf_sg c) (cf_st c) disj (cf_refs c) (sh_prio sh)
                                            (cf_params c) (sh_script sh)) (w_hs w1) with
              | None => RFail (FPanic 5) w1
              | Some (k, hs) =>
                  let gl := match rv with
                            | RvGlobal ek =>
                                let gl0 := nrepeat_to (w_glists w1) (N.to_nat (fst ek) + 1) hl_new in
                                match nget gl0 (fst ek) with
                                | Some l => nset gl0 (fst ek) (hl_insert l k (sh_prio sh))
                                | None => gl0 end
                            | RvTargeted _ => w_glists w1 end in
                  let hby := match sh_tid sh with Some t => ainsert t k (w_hby w1) | None => w_hby w1 end in
                  let w2 := set_hreg w1 hs gl hby (order + 1) (w_horder w1 ++ [(order, k)]) in
                  let w3 := archs_register_handler w2 k in
                  do (_, w4) <- send_global RFUEL G_ADDH (mkEv 0 0 k) w3;
                  ROk k w4
              end
          end
      end
  end.

Definition handlers_remove (w : world) (k : key) : option (hinfo * world) :=
  match sm_remove k (w_hs w) with
  | None => None
  | Some (h, hs) =>
      let gl := match h_recv h with
                | RvGlobal ek => match nget (w_glists w) (fst ek) with
                                 | Some l => nset (w_glists w) (fst ek) (hl_remove key_eqb l k)
                                 | None => w_glists w end
                | RvTargeted _ => w_glists w end in
      let hby := match h_tid h with Some t => aremove t (w_hby w) | None => w_hby w end in
      Some (h, set_hreg w hs gl hby (w_hctr w) (filter (fun p => negb (fst p =? h_order h)) (w_horder w)))
  end.

Definition remove_handler (k : key) (w : world) : res bool :=
  match sm_get k (w_hs w) with
  | None => ROk false w
  | Some _ =>
      do (_, w1) <- send_global RFUEL G_RMH (mkEv 0 0 k) w;
      match handlers_remove w1 k with
      | None => RFail (FPanic 7) w1
      | Some (h, w2) => ROk true (archs_remove_handler w2 h)
      end
  end.

Fixpoint remove_handlers (ks : list key) (w : world) : res unit :=
  match ks with
  | [] => ROk tt w
  | k :: t => do (_, w1) <- remove_handler k w; remove_handlers t w1
  end.

Definition handlers_in_order (w : world) : list hinfo :=
  flat_map (fun p => match sm_get (snd p) (w_hs w) with Some h => [h] | None => [] end) (w_horder w).

Definition remove_targeted_event (k : key) (w : world) : res bool :=
  match sm_get k (w_tev w) with
  | None => ROk false w
  | Some _ =>
      do (_, w1) <- send_global RFUEL G_RMTE (mkEv 0 0 k) w;
      let to_remove := map h_key (filter (fun h => recvid_eqb (h_recv h) (RvTargeted k) || smem (fst k) (h_sent_t h)) (handlers_in_order w1)) in
      do (_, w2) <- remove_handlers to_remove w1;
      match sm_remove k (w_tev w2) with
      | None => RFail (FPanic 7) w2
      | Some (info, m) =>
          let w3 := set_tev w2 m (aremove (e_tag info) (w_tby w2)) in
          let w4 := match e_kind info with
                    | KInsert c => set_comps w3 (upd_by_index (w_comps w3) c (fun ci => mkC (c_tag ci) (c_member_of ci) (filter (fun x => negb (key_eqb x k)) (c_ins ci)) (c_rem ci))) (w_cby w3)
                    | KRemove c => set_comps w3 (upd_by_index (w_comps w3) c (fun ci => mkC (c_tag ci) (c_member_of ci) (c_ins ci) (filter (fun x => negb (key_eqb x k)) (c_rem ci)))) (w_cby w3)
                    | _ => w3 end in
          ROk true w4
      end
  end.

Definition remove_global_event (k : key) (w : world) : res bool :=
  match sm_get k (w_gev w) with
  | None => ROk false w
  | Some _ =>
      do (_, w1) <- send_global RFUEL G_RMGE (mkEv 0 0 k) w;
      let to_remove := map h_key (filter (fun h => recvid_eqb (h_recv h) (RvGlobal k) || smem (fst k) (h_sent_g h)) (handlers_in_order w1)) in
      do (_, w2) <- remove_handlers to_remove w1;
      match sm_remove k (w_gev w2) with
      | None => RFail (FPanic 7) w2
      | Some (info, m) => ROk true (set_gev w2 m (aremove (e_tag info) (w_gby w2)))
      end
  end.

Fixpoint remove_tevents (ks : list key) (w : world) : res unit :=
  match ks with
  | [] => ROk tt w
  | k :: t => do (_, w1) <- remove_targeted_event k w; remove_tevents t w1
  end.

(* Archetypes::remove_component after the fix (archetype.rs:147-190) *)
Definition swap_remove_val (x : N) (l : list N) : list N :=
  match nposition (N.eqb x) l with Some i => swap_remove l i | None => l end.

Definition archs_remove_component (w : world) (cidx ctag : N) (member_of : list N) : world :=
  let w1 := fold_left (fun w' ai =>
    match slab_get (w_archs w') ai with
    | None => w'
    | Some a =>
        let w1 := set_archs w' (slab_remove (w_archs w') ai) in
        let w2 := notify_remove_with w1 ai a in
        let w3 := set_comps w2 (fold_left (fun m c => if c =? cidx then m else
                     upd_by_index m c (fun ci => mkC (c_tag ci) (swap_remove_val ai (c_member_of ci)) (c_ins ci) (c_rem ci)))
                     (a_comps a) (w_comps w2)) (w_cby w2) in
        let w4 := set_aidx w3 (filter (fun p => negb (list_eqb N.eqb (fst p) (a_comps a))) (w_aby w3)) (w_auid w3) in
        (* drop the archetype: its columns' values are destroyed *)
        let w5 := fold_left (fun w'' '(_, vals) =>
                     fold_left (fun w3' '(c, v) => drop_cval w3' (if c =? cidx then ctag else comp_tag w3' c) v) (combine (a_comps a) vals) w'')
                     (a_rows a) w4 in
        (* f(entity_id): entities.remove(id) *)
        fold_left (fun w'' '(e, _) => match sm_remove e (w_ents w'') with Some (_, m) => set_ents w'' m | None => w'' end) (a_rows a) w5
    end) member_of w in
  set_archs w1 (mkSlab (map (fun e => match e with
     | SOcc a => SOcc (set_edges a (aremove cidx (a_ins a)) (aremove cidx (a_rem a)))
     | SVac n => SVac n end) (sl_entries (w_archs w1))) (sl_next (w_archs w1))).

(* World::remove_component (world.rs:600-670) *)
Definition remove_component (k : key) (w : world) : res bool :=
  match sm_get k (w_comps w) with
  | None => ROk false w
  | Some _ =>
      do (_, w1) <- send_global RFUEL G_RMC (mkEv 0 0 k) w;
      do (dk, w2) <- add_targeted_event T_DESPAWN w1;
      (* push one Despawn per entity of every archetype that has the component, slab order;
         no reversal: the LAST pushed is delivered first *)
      let q := flat_map (fun '(_, a) => if arch_has a (fst k)
                                        then map (fun '(e, _) => mkQ true (fst dk) e (mkEv 0 0 KEY_NULL)) (a_rows a)
                                        else []) (slab_iter (w_archs w2)) in
      do (_, w3) <- flush q w2;
      let hs := map h_key (filter (fun h => smem (fst k) (h_refcomps h)) (handlers_in_order w3)) in
      do (_, w4) <- remove_handlers hs w3;
      match sm_get k (w_comps w4) with
      | None => RFail (FPanic 4) w4                           (* &self.components[component] *)
      | Some ci =>
          do (_, w5) <- remove_tevents (c_ins ci ++ c_rem ci) w4;
          match sm_remove k (w_comps w5) with
          | None => RFail (FPanic 7) w5                        (* .expect("component should still exist") *)
          | Some (ci', m) =>
              let w6 := set_comps w5 m (aremove (c_tag ci') (w_cby w5)) in
              let w7 := archs_remove_component w6 (fst k) (c_tag ci') (c_member_of ci') in
              ROk true (refresh_cursor w7)
          end
      end
  end.

(* ---- top-level structural calls ---- *)
Definition op_spawn (w : world) : res key :=
  do (id, w1) <- reserve w;
  do (_, w2) <- send_global RFUEL G_SPAWN (mkEv 0 0 id) w1;
  ROk id (push_known w2 id).
Definition op_insert (e : key) (ktag : N) (w : world) : res unit :=
  let '(v, w1) := new_cval w ktag in
  send_to (T_INSERT ktag) e (mkEv (fst v) (snd v) KEY_NULL) w1.
Definition op_remove (e : key) (ktag : N) (w : world) : res unit := send_to (T_REMOVE ktag) e (mkEv 0 0 KEY_NULL) w.
Definition op_despawn (e : key) (w : world) : res unit := send_to T_DESPAWN e (mkEv 0 0 KEY_NULL) w.
Definition op_send (gtag : N) (w : world) : res unit :=
  let '(s, w1) := fresh_serial w in send_global RFUEL gtag (mkEv s s KEY_NULL) w1.
Definition op_send_to (e : key) (ttag : N) (w : world) : res unit :=
  let '(s, w1) := fresh_serial w in send_to ttag e (mkEv s s KEY_NULL) w1.

(* World::get (world.rs:259-280): None | Some value | UB *)
Definition op_get (e : key) (ktag : N) (w : world) : fail + option cval :=
  match sm_get e (w_ents w) with
  | None => inr None
  | Some loc =>
      match alookup ktag (w_cby w) with
      | None => inr None
      | Some ck =>
          match slab_get (w_archs w) (fst loc) with
          | None => inl (FUB 268)
          | Some a =>
              match col_index (a_comps a) (fst ck) with
              | None => inr None
              | Some ci => match nget (a_rows a) (snd loc) with
                           | Some (_, vals) => match nget vals ci with Some v => inr (Some v) | None => inl (FUB 273) end
                           | None => inl (FUB 273) end
              end
          end
      end
  end.

(* dropping the world: every stored component value is destroyed *)
Definition op_drop (w : world) : world :=
  fold_left (fun w' '(_, a) =>
    fold_left (fun w'' '(_, vals) =>
      fold_left (fun w3 '(c, v) => drop_cval w3 (comp_tag w3 c) v) (combine (a_comps a) vals) w'')
      (a_rows a) w') (slab_iter (w_archs w)) w.
End Beh.

(* ------------------------------------------------------------------ *)
(* The empty world (World::new)                                        *)
(* ------------------------------------------------------------------ *)
Definition empty_arch : arch := mkA 0 [] [] 0 0 [] [] [] [].
Definition hst0 (fuel panic_at : N) : hst := mkHst [] fuel 1 0 panic_at [].
Definition world0 (fuel panic_at : N) : world :=
  mkW sm_empty 0 0 sm_empty [] sm_empty [] sm_empty [] sm_empty [] [] 0 []
      (mkSlab [SOcc empty_arch] 1) [([], 0)] 1 [] 0 [] (hst0 fuel panic_at).

(* the scripted behaviour used by the correspondence: the script stored with the handler *)
Definition script_beh (h : hinfo) (_ : logent) (_ : N) : script := h_script h.
