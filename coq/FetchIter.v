(* FetchIter.v : the state machine of fetch::Iter (src/fetch.rs:630-705): a cursor (position in the cache,
   row, length of the current archetype) over the fetcher cache, with its two unchecked steps made explicit.
   The cache is abstracted to the entity counts of its archetypes, in cache (= SparseMap dense) order.
     - next() yields (position, row) pairs; an item of the real iterator is Q::get(state[position], row)
     - len() = what is left in the current archetype + the counts of the archetypes behind it
   Theorems, under the cache invariant of Fetch.v (only non-empty archetypes are cached): from a fresh
   iterator, next() enumerates every (position, row) exactly once, in order, without unchecked failure;
   at EVERY point of the enumeration len() is exactly the number of items still to come (C06); once None,
   always None (FusedIterator). *)
From Coq Require Import List NArith Bool Lia.
Import ListNotations.
Require Import EV.Base EV.ListN.
Open Scope N_scope.

Record fiter := mkIt { it_pos : N; it_row : N; it_len : N }.
Inductive iout (A : Type) := IVal (a : A) | IUB (line : N).
Arguments IVal {A}. Arguments IUB {A}.

(* fetch.rs:120-148 *)
Definition it_new (counts : list N) : fiter :=
  match counts with [] => mkIt 0 0 0 | c :: _ => mkIt 0 0 c end.

(* fetch.rs:654-680; the empty cache has index == index_last (both dangling) *)
Definition it_next (counts : list N) (it : fiter) : iout (option (N * N) * fiter) :=
  if it_row it =? it_len it then
    if (nlen counts =? 0) || (it_pos it =? nlen counts - 1) then IVal (None, it)
    else match nget counts (it_pos it + 1) with
         | None => IUB 664                                   (* archetypes.get(idx).unwrap_unchecked() *)
         | Some c => if c =? 0 then IUB 670                  (* assume_unchecked(self.len > 0) *)
                     else IVal (Some (it_pos it + 1, 0), mkIt (it_pos it + 1) 1 c)
         end
  else IVal (Some (it_pos it, it_row it), mkIt (it_pos it) (it_row it + 1) (it_len it)).

(* fetch.rs:688-703 *)
Definition it_remaining (counts : list N) (it : fiter) : N :=
  (it_len it - it_row it) + fold_left N.add (skipn (N.to_nat (it_pos it) + 1) counts) 0.

(* ---------- specification: the items, in order ---------- *)
Fixpoint rows (pos : N) (from : N) (n : nat) : list (N * N) :=
  match n with O => [] | S n' => (pos, from) :: rows pos (from + 1) n' end.
Fixpoint items_from (pos : N) (counts : list N) : list (N * N) :=
  match counts with [] => [] | c :: t => rows pos 0 (N.to_nat c) ++ items_from (pos + 1) t end.
Definition all_items (counts : list N) : list (N * N) := items_from 0 counts.

(* what is left at a cursor *)
Definition rest (counts : list N) (it : fiter) : list (N * N) :=
  rows (it_pos it) (it_row it) (N.to_nat (it_len it - it_row it)) ++
  items_from (it_pos it + 1) (skipn (N.to_nat (it_pos it) + 1) counts).

Definition ItInv (counts : list N) (it : fiter) : Prop :=
  Forall (fun c => 0 < c) counts /\ it_row it <= it_len it /\
  (counts = [] -> it = mkIt 0 0 0) /\ (counts <> [] -> nget counts (it_pos it) = Some (it_len it)).

(* ---------- list plumbing ---------- *)
Lemma nget_nth {A} (l : list A) : forall i, nget l i = nth_error l (N.to_nat i).
Proof.
  induction l as [|x t IH]; intros i; cbn [nget]; [now destruct (N.to_nat i)|].
  destruct (i =? 0) eqn:E; [apply N.eqb_eq in E; subst; reflexivity|]. apply N.eqb_neq in E.
  rewrite IH. replace (N.to_nat i) with (S (N.to_nat (N.pred i))) by lia. reflexivity.
Qed.
Lemma hd_skipn {A} (l : list A) : forall n, hd_error (skipn n l) = nth_error l n.
Proof. induction l as [|x t IH]; intros [|n]; cbn; auto. Qed.
Lemma skipn_cons_of {A} (l : list A) n x : nth_error l n = Some x -> skipn n l = x :: skipn (S n) l.
Proof. revert n. induction l as [|y t IH]; intros [|n] H; cbn in *; try discriminate; [congruence|]. now apply IH. Qed.

Lemma NoDup_app_intro {A} (l1 l2 : list A) : NoDup l1 -> NoDup l2 -> (forall x, In x l1 -> In x l2 -> False) -> NoDup (l1 ++ l2).
Proof.
  induction l1 as [|x t IH]; intros H1 H2 Hd; cbn [app]; [exact H2|]. inversion H1; subst. constructor.
  - intros Hin. apply in_app_or in Hin as [Hin|Hin]; [contradiction|]. apply (Hd x); [now left|exact Hin].
  - apply IH; auto. intros y Hy1 Hy2. apply (Hd y); [now right|exact Hy2].
Qed.
Lemma rows_length pos from n : length (rows pos from n) = n.
Proof. revert from. induction n; intros; cbn; auto. Qed.
Lemma fold_add_acc l : forall a, fold_left N.add l a = a + fold_left N.add l 0.
Proof. induction l as [|x t IH]; intros a; cbn [fold_left]; [lia|]. rewrite IH, (IH (0 + x)). lia. Qed.
Lemma items_from_length counts : forall pos, N.of_nat (length (items_from pos counts)) = fold_left N.add counts 0.
Proof.
  induction counts as [|c t IH]; intros pos; cbn [items_from fold_left]; [reflexivity|].
  rewrite app_length, rows_length, Nat2N.inj_add, IH, (fold_add_acc t (0 + c)). lia.
Qed.

Lemma rows_in pos : forall n from p r, In (p, r) (rows pos from n) -> p = pos /\ from <= r.
Proof.
  induction n as [|n IH]; intros from p r Hin; [destruct Hin|]. cbn [rows] in Hin. destruct Hin as [Hq|Hin]; [inversion Hq; split; [reflexivity|lia]|].
  apply IH in Hin. split; [tauto|lia].
Qed.
Lemma rows_NoDup pos : forall n from, NoDup (rows pos from n).
Proof. induction n as [|n IH]; intros from; cbn [rows]; constructor; [|apply IH]. intros Hin. apply rows_in in Hin. lia. Qed.
Lemma items_from_in : forall l q p r, In (p, r) (items_from q l) -> q <= p.
Proof.
  induction l as [|c t IH]; intros q p r Hin; [destruct Hin|]. cbn [items_from] in Hin. apply in_app_or in Hin as [Hin|Hin].
  - apply rows_in in Hin. lia.
  - apply IH in Hin. lia.
Qed.
Lemma items_NoDup : forall l pos, NoDup (items_from pos l).
Proof.
  induction l as [|c t IH]; intros pos; cbn [items_from]; [constructor|]. apply NoDup_app_intro; [apply rows_NoDup|apply IH|].
  intros [p r] H1 H2. apply rows_in in H1. apply items_from_in in H2. lia.
Qed.

(* ---------- len() is the number of items still to come ---------- *)
Theorem it_len_spec counts it : it_row it <= it_len it -> it_remaining counts it = N.of_nat (length (rest counts it)).
Proof.
  intros Hr. unfold it_remaining, rest. rewrite app_length, rows_length, Nat2N.inj_add, items_from_length. lia.
Qed.

(* ---------- one step ---------- *)
Theorem it_next_spec counts it : ItInv counts it ->
  match rest counts it with
  | [] => it_next counts it = IVal (None, it)
  | x :: tl => exists it', it_next counts it = IVal (Some x, it') /\ ItInv counts it' /\ rest counts it' = tl
  end.
Proof.
  intros (Hpos & Hr & He & Hn). unfold it_next. destruct (it_row it =? it_len it) eqn:Er.
  - apply N.eqb_eq in Er. unfold rest. rewrite Er, N.sub_diag. cbn [N.to_nat rows app].
    destruct counts as [|c0 t0] eqn:Ec.
    + rewrite (He eq_refl). cbn. reflexivity.
    + rewrite <- Ec in *. assert (Hne : counts <> []) by (rewrite Ec; discriminate). specialize (Hn Hne).
      pose proof (nget_some_lt _ _ _ Hn) as Hlt. replace (nlen counts =? 0) with false by (symmetry; apply N.eqb_neq; lia). cbn [orb].
      destruct (it_pos it =? nlen counts - 1) eqn:El.
      * apply N.eqb_eq in El. rewrite skipn_all2; [reflexivity|]. unfold nlen in *. lia.
      * apply N.eqb_neq in El. assert (Hlt2 : it_pos it + 1 < nlen counts) by lia. destruct (nget_lt_some _ _ Hlt2) as [c Hc]. rewrite Hc.
        assert (Hcpos : 0 < c) by (rewrite Forall_forall in Hpos; apply Hpos; eapply nget_in; eauto).
        replace (c =? 0) with false by (symmetry; apply N.eqb_neq; lia).
        rewrite nget_nth in Hc. replace (N.to_nat (it_pos it + 1)) with (N.to_nat (it_pos it) + 1)%nat in Hc by lia.
        rewrite (skipn_cons_of _ _ _ Hc). cbn [items_from]. destruct (N.to_nat c) as [|n] eqn:En; [lia|]. cbn [rows app].
        eexists. split; [reflexivity|]. split.
        -- split; [exact Hpos|]. cbn [it_pos it_row it_len]. split; [lia|]. split; [intros X; congruence|]. intros _. rewrite nget_nth.
           replace (N.to_nat (it_pos it + 1)) with (N.to_nat (it_pos it) + 1)%nat by lia. exact Hc.
        -- unfold rest. cbn [it_pos it_row it_len]. replace (N.to_nat (c - 1)) with n by lia. replace (0 + 1) with 1 by lia.
           replace (N.to_nat (it_pos it + 1) + 1)%nat with (S (N.to_nat (it_pos it) + 1)) by lia. reflexivity.
  - apply N.eqb_neq in Er. unfold rest. destruct (N.to_nat (it_len it - it_row it)) as [|n] eqn:En; [lia|]. cbn [rows app].
    eexists. split; [reflexivity|]. split.
    + split; [exact Hpos|]. cbn [it_pos it_row it_len]. split; [lia|]. split; [intros X; specialize (He X); rewrite He in Er; cbn in Er; congruence|exact Hn].
    + unfold rest. cbn [it_pos it_row it_len]. replace (N.to_nat (it_len it - (it_row it + 1))) with n by lia. reflexivity.
Qed.

Lemma ItInv_new counts : Forall (fun c => 0 < c) counts -> ItInv counts (it_new counts) /\ rest counts (it_new counts) = all_items counts.
Proof.
  intros H. destruct counts as [|c t]; cbn [it_new].
  - split; [split; [exact H|split; [cbn; lia|split; [reflexivity|congruence]]]|reflexivity].
  - split; [split; [exact H|split; [cbn; lia|split; [discriminate|reflexivity]]]|]. unfold rest, all_items. cbn [it_pos it_row it_len N.to_nat skipn items_from Nat.add].
    now rewrite N.sub_0_r.
Qed.

(* ---------- the whole enumeration ---------- *)
(* drain: call next() until None (fuel = an upper bound on the calls); returns the items and the final cursor *)
Fixpoint it_drain (fuel : nat) (counts : list N) (it : fiter) : iout (list (N * N) * fiter) :=
  match fuel with
  | O => IVal ([], it)
  | S f => match it_next counts it with
           | IUB l => IUB l
           | IVal (None, it') => IVal ([], it')
           | IVal (Some x, it') => match it_drain f counts it' with
                                   | IUB l => IUB l
                                   | IVal (xs, it'') => IVal (x :: xs, it'')
                                   end
           end
  end.

Theorem it_drain_spec counts : forall fuel it, ItInv counts it -> (length (rest counts it) < fuel)%nat ->
  exists it', it_drain fuel counts it = IVal (rest counts it, it') /\ ItInv counts it' /\ rest counts it' = [] /\
              it_next counts it' = IVal (None, it') /\ it_remaining counts it' = 0.
Proof.
  induction fuel as [|f IH]; intros it HI Hf; [lia|]. cbn [it_drain]. pose proof (it_next_spec counts it HI) as Hs.
  destruct (rest counts it) as [|x tl] eqn:Er.
  - rewrite Hs. exists it. split; [reflexivity|]. split; [exact HI|]. split; [exact Er|]. split; [exact Hs|].
    destruct HI as (_ & Hr & _). rewrite (it_len_spec counts it Hr), Er. reflexivity.
  - destruct Hs as (it1 & E1 & HI1 & R1). rewrite E1. cbn [length] in Hf. destruct (IH it1 HI1 ltac:(rewrite R1; lia)) as (it' & E2 & A & B & C & D).
    rewrite E2, R1. exists it'. auto.
Qed.

(* from a fresh iterator over a cache of non-empty archetypes: every (position, row) exactly once, in order, no
   unchecked failure; len() of the fresh iterator is the total; afterwards next() keeps returning None *)
Corollary it_enumerates counts : Forall (fun c => 0 < c) counts ->
  exists it', it_drain (S (length (all_items counts))) counts (it_new counts) = IVal (all_items counts, it') /\
              it_remaining counts (it_new counts) = N.of_nat (length (all_items counts)) /\
              it_next counts it' = IVal (None, it') /\ NoDup (all_items counts).
Proof.
  intros H. destruct (ItInv_new counts H) as [HI HR]. destruct (it_drain_spec counts (S (length (all_items counts))) (it_new counts) HI ltac:(rewrite HR; lia)) as (it' & E & _ & _ & C & _).
  exists it'. rewrite HR in E. split; [exact E|]. split; [rewrite <- HR; apply it_len_spec; destruct HI as (_ & X & _); exact X|]. split; [exact C|].
  apply items_NoDup.
Qed.

(* composite statement used by Props/C06.v: at every cursor reached by any number of calls to next(), len() is the
   number of items the remaining calls yield *)
Fixpoint it_advance (k : nat) (counts : list N) (it : fiter) : iout fiter :=
  match k with
  | O => IVal it
  | S k' => match it_next counts it with IUB l => IUB l | IVal (_, it') => it_advance k' counts it' end
  end.
Theorem it_len_after_any_prefix counts : Forall (fun c => 0 < c) counts -> forall k,
  exists it', it_advance k counts (it_new counts) = IVal it' /\ ItInv counts it' /\
              rest counts it' = skipn k (all_items counts) /\
              it_remaining counts it' = N.of_nat (length (skipn k (all_items counts))).
Proof.
  intros H k. destruct (ItInv_new counts H) as [HI HR]. rewrite <- HR. generalize (it_new counts) HI. clear HI HR.
  induction k as [|k IH]; intros it HI; cbn [it_advance skipn].
  - exists it. split; [reflexivity|]. split; [exact HI|]. split; [reflexivity|]. apply it_len_spec. destruct HI as (_ & X & _). exact X.
  - pose proof (it_next_spec counts it HI) as Hs. destruct (rest counts it) as [|x tl] eqn:Er.
    + rewrite Hs. destruct (IH it HI) as (it' & A & B & C & D). exists it'. rewrite Er in C, D. split; [exact A|]. split; [exact B|].
      rewrite C, D. destruct k; cbn [skipn]; auto.
    + destruct Hs as (it1 & E1 & HI1 & R1). rewrite E1. destruct (IH it1 HI1) as (it' & A & B & C & D). exists it'. rewrite R1 in C, D. auto.
Qed.

(* non-vacuity: a cache of three archetypes with 2, 1 and 3 entities *)
Example it_example : it_drain 10 [2; 1; 3] (it_new [2; 1; 3]) = IVal ([(0,0); (0,1); (1,0); (2,0); (2,1); (2,2)], mkIt 2 3 3)
                     /\ it_remaining [2; 1; 3] (it_new [2; 1; 3]) = 6.
Proof. split; vm_compute; reflexivity. Qed.
