(* WorldFrame.v : frame lemmas for the world model — which operations leave which parts of
   the state untouched.  First instance: the arena-reset counter is changed by nothing but
   the end of a completed flush (C20). *)
From Coq Require Import List NArith Bool Lia.
Import ListNotations.
Require Import EV.Base EV.Access EV.Query EV.SlotMap EV.Reserve EV.HList EV.Loop EV.World.
Open Scope N_scope.

Definition res_world {A} (r : res A) : world := match r with ROk _ w => w | RFail _ w => w end.

Ltac fr := intros; first [reflexivity | unfold notify_refresh; match goal with |- context [match ?x with _ => _ end] => destruct x end; reflexivity
  | unfold notify_remove_with; reflexivity
  | unfold create_arch; repeat match goal with |- context [match ?x with _ => _ end] => destruct x end; reflexivity].

Ltac break_match :=
  match goal with
  | |- context [match ?x with _ => _ end] => destruct x eqn:?
  | |- context [if ?x then _ else _] => destruct x eqn:?
  end.

Lemma fold_left_pres {A T} (pi : world -> T) (f : world -> A -> world) (l : list A) :
  (forall w a, pi (f w a) = pi w) -> forall w, pi (fold_left f l w) = pi w.
Proof. intros H. induction l as [|a l IH]; intros w; cbn [fold_left]; [reflexivity|]. now rewrite IH, H. Qed.

Lemma rbind_pres {A B T} (pi : world -> T) (r : res A) (f : A -> world -> res B) (w0 : world) :
  pi (res_world r) = pi w0 -> (forall a w, pi w = pi w0 -> pi (res_world (f a w)) = pi w0) ->
  pi (res_world (rbind r f)) = pi w0.
Proof. intros H1 H2. destruct r as [a w|e w]; cbn [rbind res_world] in *; auto. Qed.

(* Generic in the observation [pi]: anything that the record updates used during event delivery
   leave alone is left alone by a whole flush. *)
Section Frame.
Context {T : Type} (pi : world -> T).
Hypothesis r_set_ents : forall w x, pi (set_ents w x) = pi w.
Hypothesis r_set_res : forall w a b, pi (set_res w a b) = pi w.
Hypothesis r_set_comps : forall w a b, pi (set_comps w a b) = pi w.
(* the handler registry is only touched by the refresh / removal notifications and by the registration
   of existing handlers with a new archetype; these three are hypotheses so that observations of the
   registry that they do keep (Listen.v) can be framed too *)
Hypothesis r_notify_refresh : forall w ai, pi (notify_refresh w ai) = pi w.
Hypothesis r_notify_remove_with : forall w ai a, pi (notify_remove_with w ai a) = pi w.
Hypothesis r_create_arch : forall w cs i r, pi (snd (create_arch w cs i r)) = pi w.
Hypothesis r_set_archs : forall w x, pi (set_archs w x) = pi w.
Hypothesis r_set_aidx : forall w a b, pi (set_aidx w a b) = pi w.
Hypothesis r_set_drops : forall w x, pi (set_drops w x) = pi w.
Hypothesis r_set_notes : forall w x, pi (set_notes w x) = pi w.
Hypothesis r_set_h : forall w x, pi (set_h w x) = pi w.
Hint Rewrite r_set_ents r_set_res r_set_comps r_set_archs
  r_set_aidx r_set_drops r_set_notes r_set_h : frame.
Ltac rs := autorewrite with frame; try reflexivity.

Lemma r_log_drop w c s : pi (log_drop w c s) = pi w. Proof. apply r_set_drops. Qed.
Lemma r_drop_cval w t v : pi (drop_cval w t v) = pi w. Proof. unfold drop_cval. break_match; [apply r_log_drop|reflexivity]. Qed.
Lemma r_notify_remove w ai : pi (notify_remove w ai) = pi w. Proof. unfold notify_remove. break_match; [apply r_notify_remove_with|reflexivity]. Qed.
Lemma r_upd_arch w ai f : pi (upd_arch w ai f) = pi w. Proof. unfold upd_arch. break_match; rs. Qed.
Lemma r_traverse_insert w s c : pi (res_world (traverse_insert w s c)) = pi w.
Proof.
  unfold traverse_insert. repeat break_match; cbn [res_world]; rewrite ?r_upd_arch; try reflexivity.
  match goal with H : create_arch _ _ _ _ = (_, ?w1) |- _ => change w1 with (snd (n, w1)); rewrite <- H; apply r_create_arch end.
Qed.
Lemma r_traverse_remove w s c : pi (res_world (traverse_remove w s c)) = pi w.
Proof.
  unfold traverse_remove. repeat break_match; cbn [res_world]; rewrite ?r_upd_arch; try reflexivity.
  match goal with H : create_arch _ _ _ _ = (_, ?w1) |- _ => change w1 with (snd (n, w1)); rewrite <- H; apply r_create_arch end.
Qed.
Lemma r_set_loc w e l : pi (res_world (set_loc w e l)) = pi w. Proof. unfold set_loc. break_match; cbn [res_world]; rs. Qed.
Lemma r_arch_spawn w e : pi (snd (arch_spawn w e)) = pi w.
Proof. unfold arch_spawn. repeat break_match; cbn [snd]; rewrite ?r_notify_refresh; rs. Qed.

Lemma r_drop_fold l w : pi (fold_left (fun (w' : world) '(c, v) => drop_cval w' (comp_tag w' c) v) l w) = pi w.
Proof. apply (fold_left_pres pi). intros ? [? ?]. apply r_drop_cval. Qed.

Hint Rewrite r_log_drop r_drop_cval r_notify_refresh r_notify_remove_with r_notify_remove r_upd_arch
  r_traverse_insert r_traverse_remove r_set_loc r_drop_fold : frame.

Ltac pres :=
  repeat first
  [ progress cbn [res_world fst snd]
  | progress autorewrite with frame
  | match goal with H : pi ?w = pi _ |- context [pi ?w] => rewrite H end
  | reflexivity | assumption
  | match goal with |- pi (res_world (rbind _ _)) = _ => apply rbind_pres; [|intros ? ? ?] end
  | break_match ].

Lemma r_move_entity w src dst nw : pi (res_world (move_entity w src dst nw)) = pi w.
Proof. unfold move_entity. destruct src as [sai srow]. pres. Qed.
Lemma r_remove_entity w loc : pi (res_world (remove_entity w loc)) = pi w.
Proof. unfold remove_entity. destruct loc as [ai row]. pres. Qed.
Lemma r_reserve w : pi (res_world (reserve w)) = pi w.
Proof. unfold reserve. pres. Qed.
Lemma r_spawn_all_n n : forall w, pi (res_world (spawn_all_n n w)) = pi w.
Proof.
  induction n as [|n IH]; intros w; cbn [spawn_all_n]; [reflexivity|].
  repeat break_match; cbn [res_world]; try reflexivity;
    match goal with H : arch_spawn ?w0 ?k = (?e, ?w1) |- _ =>
      let E := fresh in pose proof (r_arch_spawn w0 k) as E; rewrite H in E; cbn [snd] in E end.
  - rewrite IH, r_set_ents. assumption.
  - assumption.
Qed.
Lemma r_spawn_all w : pi (res_world (spawn_all w)) = pi w.
Proof. unfold spawn_all. apply rbind_pres; [apply r_spawn_all_n|intros ? ? H; cbn [res_world]; rewrite r_set_res; exact H]. Qed.
Lemma r_refresh_cursor w : pi (refresh_cursor w) = pi w. Proof. apply r_set_res. Qed.
Lemma r_ev_drop w t tag ev : pi (ev_drop w t tag ev) = pi w.
Proof. unfold ev_drop. pres. Qed.
Lemma r_fresh_serial w : pi (snd (fresh_serial w)) = pi w. Proof. apply r_set_h. Qed.
Lemma r_new_cval w k : pi (snd (new_cval w k)) = pi w. Proof. unfold new_cval. break_match; [reflexivity|]. unfold fresh_serial. cbn [snd]. rs. Qed.
Lemma r_use_fuel w : pi (snd (use_fuel w)) = pi w. Proof. unfold use_fuel. break_match; cbn [snd]; rs. Qed.
Lemma r_push_known w k : pi (push_known w k) = pi w. Proof. apply r_set_h. Qed.
Hint Rewrite r_move_entity r_remove_entity r_reserve r_spawn_all r_refresh_cursor r_ev_drop r_push_known : frame.

Lemma r_write_arch w q d ai r : pi (write_arch w q d ai r) = pi w.
Proof. unfold write_arch. pres. Qed.
Hint Rewrite r_write_arch : frame.
Lemma r_run_actions acts : forall ps t fresh sent w, pi (snd (fst (run_actions acts ps t fresh sent w))) = pi w.
Proof.
  induction acts as [|a acts IH]; intros ps t fresh sent w; cbn [run_actions]; [reflexivity|].
  pose proof (r_use_fuel w) as Hf. destruct (use_fuel w) as [ok w0]. cbn [snd] in Hf.
  destruct ok; cbn [negb]; [|apply IH].
  destruct a; repeat (break_match; cbn [fst snd]); rewrite ?IH; pres;
    repeat match goal with
    | H : fresh_serial ?x = (_, ?y) |- _ => let E := fresh in pose proof (r_fresh_serial x) as E; rewrite H in E; cbn [snd] in E; clear H
    | H : new_cval ?x ?k = (_, ?y) |- _ => let E := fresh in pose proof (r_new_cval x k) as E; rewrite H in E; cbn [snd] in E; clear H
    | H : reserve ?x = _ |- _ => let E := fresh in pose proof (r_reserve x) as E; rewrite H in E; cbn [res_world] in E; clear H
    end; pres; congruence.
Qed.

Section WithBeh.
Variable beh : hinfo -> logent -> N -> script.

Lemma r_apply_writes w ps loc d : pi (apply_writes w ps loc d) = pi w.
Proof.
  unfold apply_writes. break_match; [reflexivity|]. apply (fold_left_pres pi). intros w' p.
  destruct p; try reflexivity; [apply r_write_arch|].
  destruct k; try reflexivity. apply (fold_left_pres pi). intros; apply r_write_arch.
Qed.
Hint Rewrite r_apply_writes : frame.

Lemma r_run_handler w h it tag loc : pi (snd (run_handler beh w h it tag loc)) = pi w.
Proof.
  unfold run_handler. destruct (param_views w (h_params h) loc) as [f|[ritems views]]; [reflexivity|].
  match goal with |- context [run_actions ?a ?b ?c ?d ?e ?x] =>
    pose proof (r_run_actions a b c d e x) as Hra; destruct (run_actions a b c d e x) as [[sent w3] fl] end.
  cbn [fst snd] in Hra. rewrite r_apply_writes, r_set_h in Hra.
  repeat break_match; cbn [snd]; exact Hra.
Qed.

Lemma r_run_handlers hl : forall w it tag loc sent,
  pi (fst (fst (fst (fst (run_handlers beh hl w it tag loc sent))))) = pi w.
Proof.
  induction hl as [|hk hl IH]; intros w it tag loc sent; cbn [run_handlers]; [reflexivity|].
  destruct (sm_get hk (w_hs w)) as [h|]; [|reflexivity].
  pose proof (r_run_handler w h it tag loc) as Hh. destruct (run_handler beh w h it tag loc) as [r w1]. cbn [snd] in Hh.
  repeat break_match; cbn [fst]; rewrite ?IH, ?r_ev_drop; exact Hh.
Qed.

Lemma r_builtin_effect k ev loc w : pi (res_world (builtin_effect k ev loc w)) = pi w.
Proof. unfold builtin_effect. destruct k; pres. Qed.
Hint Rewrite r_builtin_effect : frame.

Lemma r_deliver_one it w : pi (snd (fst (deliver_one beh it w))) = pi w.
Proof.
  unfold deliver_one.
  repeat match goal with
  | |- context [run_handlers beh ?hl ?w0 ?i ?t ?l ?s] =>
      let Hh := fresh "Hh" in pose proof (r_run_handlers hl w0 i t l s) as Hh;
      destruct (run_handlers beh hl w0 i t l s) as [[[[? ?] ?] ?] ?]; cbn [fst] in Hh
  | _ => break_match
  end; cbn [fst snd fail_of]; pres;
  repeat match goal with
  | H : fail_of ?r = (?w3, _) |- _ =>
      assert (w3 = res_world r) by (revert H; destruct r; cbn; congruence); subst w3; clear H
  end; pres; try congruence.
Qed.

Lemma r_unwind_queue q : forall w, pi (unwind_queue q w) = pi w.
Proof. intros w. unfold unwind_queue. apply (fold_left_pres pi). intros. apply r_ev_drop. Qed.

(* no delivery, at any depth, and no unwinding changes the observation *)
Theorem flush_frame n q w tr s' oc :
  Loop.flush wst qitem (run_w beh) unwind_w n q (w, None) [] = Some (tr, s', oc) ->
  pi (fst s') = pi w.
Proof.
  intros H. change (pi w) with ((fun s : wst => pi (fst s)) (w, None)).
  eapply (flush_preserves wst qitem (run_w beh) unwind_w (fun s : wst => pi (fst s))); [| |exact H].
  - intros e st. unfold run_w. pose proof (r_deliver_one e (fst st)) as Hd.
    destruct (deliver_one beh e (fst st)) as [[sent w1] fl]. exact Hd.
  - intros q0 st. unfold unwind_w. destruct (snd st) as [[k|s]|]; try reflexivity. cbn [fst].
    pose proof (r_spawn_all (unwind_queue q0 (fst st))) as Hs.
    destruct (spawn_all (unwind_queue q0 (fst st))); cbn [res_world] in Hs; rewrite Hs; apply r_unwind_queue.
Qed.
End WithBeh.
End Frame.

Section Resets.
Variable beh : hinfo -> logent -> N -> script.

(* C20 on the model: the only arena reset of a top-level send is the one after the queue has
   been drained; no delivery, at any depth, and no unwinding performs one *)
Theorem flush_never_resets n q w tr s' oc :
  Loop.flush wst qitem (run_w beh) unwind_w n q (w, None) [] = Some (tr, s', oc) ->
  w_resets (fst s') = w_resets w.
Proof. apply (flush_frame w_resets); fr. Qed.

Lemma aborted_has_failure n q s acc tr s' :
  Loop.flush wst qitem (run_w beh) unwind_w n q s acc = Some (tr, s', Aborted) -> snd s' <> None.
Proof.
  intros H. apply flush_abort_queue in H. destruct H as (rest & e & sent & st1 & st0 & Hr & ->).
  unfold run_w in Hr. destruct (deliver_one beh e (fst st0)) as [[sn w1] fl]. inversion Hr; subst.
  destruct fl as [f|]; [|discriminate]. unfold unwind_w. cbn [snd fst]. destruct f; cbn; discriminate.
Qed.

Corollary flush_loop_resets_once n q w w' :
  flush_loop beh n q w = (w', None) -> w_resets w' = w_resets w + 1.
Proof.
  unfold flush_loop. destruct (Loop.flush wst qitem (run_w beh) unwind_w n q (w, None) []) as [[[tr [w1 fl]] oc]|] eqn:E; [|discriminate].
  pose proof E as E2. apply flush_never_resets in E. cbn [fst] in E. destruct oc; intros H; inversion H; subst; cbn; [now rewrite E|].
  apply aborted_has_failure in E2. cbn in E2. congruence.
Qed.

(* the event registries and the global listener lists are not touched by a flush either *)
Definition registries (w : world) := (w_gev w, w_gby w, w_tev w, w_tby w, w_glists w).
Theorem flush_keeps_registries n q w tr s' oc :
  Loop.flush wst qitem (run_w beh) unwind_w n q (w, None) [] = Some (tr, s', oc) ->
  registries (fst s') = registries w.
Proof. apply (flush_frame registries); fr. Qed.
Lemma deliver_one_keeps_registries it w : registries (snd (fst (deliver_one beh it w))) = registries w.
Proof. apply (r_deliver_one registries); fr. Qed.
Lemma spawn_all_keeps_registries w : registries (res_world (spawn_all w)) = registries w.
Proof. apply (r_spawn_all registries); fr. Qed.
Lemma unwind_queue_keeps_registries q w : registries (unwind_queue q w) = registries w.
Proof. apply (r_unwind_queue registries); fr. Qed.
End Resets.

(* ------------------------------------------------------------------ *)
(* Structure: which entities exist, where they are stored and with which components.
   Handler bodies can write component values and push events, nothing else (C09).        *)
(* ------------------------------------------------------------------ *)
Definition rshape (r : key * list cval) : key * nat := (fst r, length (snd r)).
Definition ashape (e : sentry) : (list N * list (key * nat) * list (N * N) * list (N * N)) + N :=
  match e with SOcc a => inl (a_comps a, map rshape (a_rows a), a_ins a, a_rem a) | SVac v => inr v end.
Definition structure (w : world) :=
  (w_cby w, w_ents w, w_comps w, map ashape (sl_entries (w_archs w)), sl_next (w_archs w), w_aby w).

Section Structure.
Notation pi := structure.

Lemma s_set_res w a b : pi (set_res w a b) = pi w. Proof. reflexivity. Qed.
Lemma s_set_drops w x : pi (set_drops w x) = pi w. Proof. reflexivity. Qed.
Lemma s_set_h w x : pi (set_h w x) = pi w. Proof. reflexivity. Qed.
Lemma s_log_drop w c s : pi (log_drop w c s) = pi w. Proof. reflexivity. Qed.
Lemma s_drop_cval w t v : pi (drop_cval w t v) = pi w. Proof. unfold drop_cval. break_match; reflexivity. Qed.
Lemma s_ev_drop w t tag ev : pi (ev_drop w t tag ev) = pi w.
Proof. unfold ev_drop. repeat break_match; rewrite ?s_drop_cval; reflexivity. Qed.

Lemma map_ashape_nset l : forall i a a',
  nget l i = Some (SOcc a) -> ashape (SOcc a') = ashape (SOcc a) ->
  map ashape (nset l i (SOcc a')) = map ashape l.
Proof.
  induction l as [|h t IH]; intros i a a' Hg Hc; cbn [nset map]; [reflexivity|].
  cbn [nget] in Hg. destruct (i =? 0).
  - inversion Hg; subst. cbn [map]. now rewrite Hc.
  - cbn [map]. f_equal. eapply IH; eauto.
Qed.

Lemma bump_vals_length zst comps muts d vals : length (bump_vals zst comps muts d vals) = length vals.
Proof.
  unfold bump_vals. rewrite app_length, map_length, combine_length, skipn_length. lia.
Qed.

Lemma s_write_arch w q d ai r : pi (write_arch w q d ai r) = pi w.
Proof.
  unfold write_arch. destruct (slab_get (w_archs w) ai) as [a|] eqn:Ha; [|reflexivity].
  destruct (arch_state (has_of a) q) as [st|]; [|reflexivity].
  unfold structure, slab_get in *. cbn. destruct (nget (sl_entries (w_archs w)) ai) as [[a0|]|] eqn:Hg; try discriminate.
  inversion Ha; subst a0. f_equal. f_equal. f_equal.
  eapply map_ashape_nset; [exact Hg|]. cbn [ashape a_comps a_ins a_rem a_rows set_rows]. f_equal. f_equal. f_equal. f_equal.
  destruct r as [r|].
  - destruct (nget (a_rows a) r) as [[e vals]|] eqn:Hr; [|reflexivity].
    generalize (bump_vals (fun c => ctag_zst (comp_tag w c)) (a_comps a) (amuts st) d vals) (bump_vals_length (fun c => ctag_zst (comp_tag w c)) (a_comps a) (amuts st) d vals).
    intros vals' Hlen. clear -Hr Hlen. revert r Hr. induction (a_rows a) as [|x t IH]; intros r Hr; cbn in *; [discriminate|].
    destruct (r =? 0); [inversion Hr; subst; cbn; unfold rshape; cbn; now rewrite Hlen|]. cbn. f_equal. eapply IH; eauto.
  - rewrite map_map. apply map_ext. intros [e vals]. unfold rshape. cbn [fst snd]. now rewrite bump_vals_length.
Qed.

Lemma s_reserve w : pi (res_world (reserve w)) = pi w.
Proof. unfold reserve. repeat break_match; reflexivity. Qed.
Lemma s_use_fuel w : pi (snd (use_fuel w)) = pi w. Proof. unfold use_fuel. break_match; reflexivity. Qed.
Lemma s_fresh_serial w : pi (snd (fresh_serial w)) = pi w. Proof. reflexivity. Qed.
Lemma s_new_cval w k : pi (snd (new_cval w k)) = pi w. Proof. unfold new_cval. break_match; reflexivity. Qed.
Lemma s_push_known w k : pi (push_known w k) = pi w. Proof. reflexivity. Qed.

Lemma s_run_actions acts : forall ps t fresh sent w, pi (snd (fst (run_actions acts ps t fresh sent w))) = pi w.
Proof.
  induction acts as [|a acts IH]; intros ps t fresh sent w; cbn [run_actions]; [reflexivity|].
  pose proof (s_use_fuel w) as Hf. destruct (use_fuel w) as [ok w0]. cbn [snd] in Hf.
  destruct ok; cbn [negb]; [|apply IH].
  destruct a; repeat (break_match; cbn [fst snd]); rewrite ?IH, ?s_ev_drop, ?s_push_known;
    repeat match goal with
    | H : fresh_serial ?x = (_, ?y) |- _ => let E := fresh in pose proof (s_fresh_serial x) as E; rewrite H in E; cbn [snd] in E; clear H
    | H : new_cval ?x ?k = (_, ?y) |- _ => let E := fresh in pose proof (s_new_cval x k) as E; rewrite H in E; cbn [snd] in E; clear H
    | H : reserve ?x = _ |- _ => let E := fresh in pose proof (s_reserve x) as E; rewrite H in E; cbn [res_world] in E; clear H
    end; try congruence.
Qed.

Section WithBeh.
Variable beh : hinfo -> logent -> N -> script.

Lemma s_apply_writes w ps loc d : pi (apply_writes w ps loc d) = pi w.
Proof.
  unfold apply_writes. break_match; [reflexivity|]. apply (fold_left_pres pi). intros w' p.
  destruct p; try reflexivity; [apply s_write_arch|].
  destruct k; try reflexivity. apply (fold_left_pres pi). intros; apply s_write_arch.
Qed.

Lemma s_run_handler w h it tag loc : pi (snd (run_handler beh w h it tag loc)) = pi w.
Proof.
  unfold run_handler. destruct (param_views w (h_params h) loc) as [f|[ritems views]]; [reflexivity|].
  match goal with |- context [run_actions ?a ?b ?c ?d ?e ?x] =>
    pose proof (s_run_actions a b c d e x) as Hra; destruct (run_actions a b c d e x) as [[sent w3] fl] end.
  cbn [fst snd] in Hra. rewrite s_apply_writes in Hra. cbn in Hra.
  repeat break_match; cbn [snd]; exact Hra.
Qed.

(* C09: all handlers of one delivery run on an unchanged structure: none of them can make the
   built-in change (or any other structural change) happen early *)
Theorem handlers_preserve_structure hl : forall w it tag loc sent,
  pi (fst (fst (fst (fst (run_handlers beh hl w it tag loc sent))))) = pi w.
Proof.
  induction hl as [|hk hl IH]; intros w it tag loc sent; cbn [run_handlers]; [reflexivity|].
  destruct (sm_get hk (w_hs w)) as [h|]; [|reflexivity].
  pose proof (s_run_handler w h it tag loc) as Hh. destruct (run_handler beh w h it tag loc) as [r w1]. cbn [snd] in Hh.
  repeat break_match; cbn [fst]; rewrite ?IH, ?s_ev_drop; exact Hh.
Qed.

(* a consumed event has no built-in effect, and neither has an event whose target is dead *)
Theorem consumed_event_has_no_effect it w hl tag loc :
  forall w1 ev sent, run_handlers beh hl w it tag loc [] = (w1, ev, sent, true, None) -> pi w1 = pi w.
Proof. intros w1 ev sent H. pose proof (handlers_preserve_structure hl w it tag loc []) as Hs. rewrite H in Hs. exact Hs. Qed.

Theorem dead_target_has_no_effect it w k info :
  qi_targeted it = true -> get_by_index (w_tev w) (qi_idx it) = Some (k, info) -> sm_get (qi_target it) (w_ents w) = None ->
  pi (snd (fst (deliver_one beh it w))) = pi w /\ fst (fst (deliver_one beh it w)) = [] /\ k_log (w_h (snd (fst (deliver_one beh it w)))) = k_log (w_h w).
Proof.
  intros Ht Hg Hn. unfold deliver_one. rewrite Ht, Hg, Hn. cbn [fst snd]. rewrite s_ev_drop. split; [reflexivity|split; [reflexivity|]].
  unfold ev_drop, drop_cval. repeat break_match; reflexivity.
Qed.
End WithBeh.
End Structure.

(* the same with the handler registry and the per-archetype refresh / listener tables included:
   handler bodies cannot change which handlers exist or who listens where (C08, C15) *)
Definition ashapeL (e : sentry) : (N * N * N * list N * list (key * nat) * list (N * N) * list (N * N) * list key * list (N * hlist key)) + N :=
  match e with SOcc a => inl (a_uid a, a_cap a, a_epoch a, a_comps a, map rshape (a_rows a), a_ins a, a_rem a, a_refresh a, a_listeners a) | SVac v => inr v end.
Definition structureL (w : world) :=
  (w_hs w, w_horder w, w_hctr w, w_glists w, w_hby w, w_cby w, w_ents w, w_comps w, map ashapeL (sl_entries (w_archs w)), sl_next (w_archs w), w_aby w).

Section StructureL.
Notation pi := structureL.

Lemma sl_set_res w a b : pi (set_res w a b) = pi w. Proof. reflexivity. Qed.
Lemma sl_set_drops w x : pi (set_drops w x) = pi w. Proof. reflexivity. Qed.
Lemma sl_set_h w x : pi (set_h w x) = pi w. Proof. reflexivity. Qed.
Lemma sl_log_drop w c s : pi (log_drop w c s) = pi w. Proof. reflexivity. Qed.
Lemma sl_drop_cval w t v : pi (drop_cval w t v) = pi w. Proof. unfold drop_cval. break_match; reflexivity. Qed.
Lemma sl_ev_drop w t tag ev : pi (ev_drop w t tag ev) = pi w.
Proof. unfold ev_drop. repeat break_match; rewrite ?sl_drop_cval; reflexivity. Qed.

Lemma map_ashapeL_nset l : forall i a a',
  nget l i = Some (SOcc a) -> ashapeL (SOcc a') = ashapeL (SOcc a) ->
  map ashapeL (nset l i (SOcc a')) = map ashapeL l.
Proof.
  induction l as [|h t IH]; intros i a a' Hg Hc; cbn [nset map]; [reflexivity|].
  cbn [nget] in Hg. destruct (i =? 0).
  - inversion Hg; subst. cbn [map]. now rewrite Hc.
  - cbn [map]. f_equal. eapply IH; eauto.
Qed.


Lemma sl_write_arch w q d ai r : pi (write_arch w q d ai r) = pi w.
Proof.
  unfold write_arch. destruct (slab_get (w_archs w) ai) as [a|] eqn:Ha; [|reflexivity].
  destruct (arch_state (has_of a) q) as [st|]; [|reflexivity].
  unfold structureL, slab_get in *. cbn. destruct (nget (sl_entries (w_archs w)) ai) as [[a0|]|] eqn:Hg; try discriminate.
  inversion Ha; subst a0. f_equal. f_equal. f_equal.
  eapply map_ashapeL_nset; [exact Hg|]. cbn [ashapeL a_uid a_cap a_epoch a_comps a_ins a_rem a_rows a_refresh a_listeners set_rows]. f_equal. f_equal. f_equal. f_equal. f_equal. f_equal.
  destruct r as [r|].
  - destruct (nget (a_rows a) r) as [[e vals]|] eqn:Hr; [|reflexivity].
    generalize (bump_vals (fun c => ctag_zst (comp_tag w c)) (a_comps a) (amuts st) d vals) (bump_vals_length (fun c => ctag_zst (comp_tag w c)) (a_comps a) (amuts st) d vals).
    intros vals' Hlen. clear -Hr Hlen. revert r Hr. induction (a_rows a) as [|x t IH]; intros r Hr; cbn in *; [discriminate|].
    destruct (r =? 0); [inversion Hr; subst; cbn; unfold rshape; cbn; now rewrite Hlen|]. cbn. f_equal. eapply IH; eauto.
  - rewrite map_map. apply map_ext. intros [e vals]. unfold rshape. cbn [fst snd]. now rewrite bump_vals_length.
Qed.

Lemma sl_reserve w : pi (res_world (reserve w)) = pi w.
Proof. unfold reserve. repeat break_match; reflexivity. Qed.
Lemma sl_use_fuel w : pi (snd (use_fuel w)) = pi w. Proof. unfold use_fuel. break_match; reflexivity. Qed.
Lemma sl_fresh_serial w : pi (snd (fresh_serial w)) = pi w. Proof. reflexivity. Qed.
Lemma sl_new_cval w k : pi (snd (new_cval w k)) = pi w. Proof. unfold new_cval. break_match; reflexivity. Qed.
Lemma sl_push_known w k : pi (push_known w k) = pi w. Proof. reflexivity. Qed.

Lemma sl_run_actions acts : forall ps t fresh sent w, pi (snd (fst (run_actions acts ps t fresh sent w))) = pi w.
Proof.
  induction acts as [|a acts IH]; intros ps t fresh sent w; cbn [run_actions]; [reflexivity|].
  pose proof (sl_use_fuel w) as Hf. destruct (use_fuel w) as [ok w0]. cbn [snd] in Hf.
  destruct ok; cbn [negb]; [|apply IH].
  destruct a; repeat (break_match; cbn [fst snd]); rewrite ?IH, ?sl_ev_drop, ?sl_push_known;
    repeat match goal with
    | H : fresh_serial ?x = (_, ?y) |- _ => let E := fresh in pose proof (sl_fresh_serial x) as E; rewrite H in E; cbn [snd] in E; clear H
    | H : new_cval ?x ?k = (_, ?y) |- _ => let E := fresh in pose proof (sl_new_cval x k) as E; rewrite H in E; cbn [snd] in E; clear H
    | H : reserve ?x = _ |- _ => let E := fresh in pose proof (sl_reserve x) as E; rewrite H in E; cbn [res_world] in E; clear H
    end; try congruence.
Qed.

Section WithBeh.
Variable beh : hinfo -> logent -> N -> script.

Lemma sl_apply_writes w ps loc d : pi (apply_writes w ps loc d) = pi w.
Proof.
  unfold apply_writes. break_match; [reflexivity|]. apply (fold_left_pres pi). intros w' p.
  destruct p; try reflexivity; [apply sl_write_arch|].
  destruct k; try reflexivity. apply (fold_left_pres pi). intros; apply sl_write_arch.
Qed.

Lemma sl_run_handler w h it tag loc : pi (snd (run_handler beh w h it tag loc)) = pi w.
Proof.
  unfold run_handler. destruct (param_views w (h_params h) loc) as [f|[ritems views]]; [reflexivity|].
  match goal with |- context [run_actions ?a ?b ?c ?d ?e ?x] =>
    pose proof (sl_run_actions a b c d e x) as Hra; destruct (run_actions a b c d e x) as [[sent w3] fl] end.
  cbn [fst snd] in Hra. rewrite sl_apply_writes in Hra. cbn in Hra.
  repeat break_match; cbn [snd]; exact Hra.
Qed.

(* C09: all handlers of one delivery run on an unchanged structure: none of them can make the
   built-in change (or any other structural change) happen early *)
Theorem handlers_preserve_structureL hl : forall w it tag loc sent,
  pi (fst (fst (fst (fst (run_handlers beh hl w it tag loc sent))))) = pi w.
Proof.
  induction hl as [|hk hl IH]; intros w it tag loc sent; cbn [run_handlers]; [reflexivity|].
  destruct (sm_get hk (w_hs w)) as [h|]; [|reflexivity].
  pose proof (sl_run_handler w h it tag loc) as Hh. destruct (run_handler beh w h it tag loc) as [r w1]. cbn [snd] in Hh.
  repeat break_match; cbn [fst]; rewrite ?IH, ?sl_ev_drop; exact Hh.
Qed.

(* a consumed event has no built-in effect, and neither has an event whose target is dead *)
Theorem consumed_event_has_no_effectL it w hl tag loc :
  forall w1 ev sent, run_handlers beh hl w it tag loc [] = (w1, ev, sent, true, None) -> pi w1 = pi w.
Proof. intros w1 ev sent H. pose proof (handlers_preserve_structureL hl w it tag loc []) as Hs. rewrite H in Hs. exact Hs. Qed.

Theorem dead_target_has_no_effectL it w k info :
  qi_targeted it = true -> get_by_index (w_tev w) (qi_idx it) = Some (k, info) -> sm_get (qi_target it) (w_ents w) = None ->
  pi (snd (fst (deliver_one beh it w))) = pi w /\ fst (fst (deliver_one beh it w)) = [] /\ k_log (w_h (snd (fst (deliver_one beh it w)))) = k_log (w_h w).
Proof.
  intros Ht Hg Hn. unfold deliver_one. rewrite Ht, Hg, Hn. cbn [fst snd]. rewrite sl_ev_drop. split; [reflexivity|split; [reflexivity|]].
  unfold ev_drop, drop_cval. repeat break_match; reflexivity.
Qed.
End WithBeh.
End StructureL.
