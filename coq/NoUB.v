(* NoUB.v : evaluating the parameters of a handler never hits an unchecked failure (C01, C10).
   On a world satisfying the storage and cache invariants, [param_views] - HandlerParam::get of every
   parameter: the Fetcher / Single views with their random-access probes, and the targeted
   receiver's item - either succeeds or raises the documented Single panic; it never reaches a stale
   cache entry, a freed archetype, a wrong column or a missing row (the model's FUB sites 0, 103-105,
   660-664). *)
From Coq Require Import List NArith Bool Lia Sorted Permutation.
Import ListNotations.
Require Import EV.Base EV.ListN EV.Access EV.Query EV.SlotMap EV.Reserve EV.HList EV.Loop EV.World EV.SlotMapGet
  EV.AccessProofs EV.ArchProofs EV.QueryProofs EV.WorldFrame EV.Store EV.Graph EV.Effects EV.Reach EV.RemoveComp EV.Member EV.Listen EV.Order EV.Fetch.
Open Scope N_scope.

Definition is_ub {A} (r : fail + A) : Prop := match r with inl (FUB _) => True | _ => False end.

(* random access through a fetcher *)
Lemma fetch_get_ok w q c e : StoreInv w -> CI w q c -> ~ is_ub (fetch_get w q c e).
Proof.
  intros (_ & Hl & _) HC. unfold fetch_get. destruct (sm_get e (w_ents w)) as [[ai row]|] eqn:He; [|cbn; tauto].
  destruct (find (fun ce => ce_idx ce =? fst (ai, row)) c) as [[[j u] ep]|] eqn:Ef; [|cbn; tauto].
  apply find_some in Ef as [Hin Ej]. cbn [ce_idx fst] in Ej. apply N.eqb_eq in Ej. subst j.
  destruct HC as [Hnd Hg]. pose proof Hin as Hin'. apply (Hg ai) in Hin' as (a & Ha & _ & Hm & _ & _).
  destruct (Hl _ _ _ He) as (a0 & vals & Ha0 & Hrow). rewrite Ha in Ha0. inversion Ha0; subst a0.
  destruct (recv_item_ok w q c (ai, row) a e vals (conj Hnd Hg) Ha Hm Hrow) as (st & _ & ->). cbn. tauto.
Qed.

Lemma fetch_get_all_ok w q c es : StoreInv w -> CI w q c -> ~ is_ub (fetch_get_all w q c es).
Proof.
  intros Hst HC. induction es as [|e t IH]; cbn [fetch_get_all]; [cbn; tauto|].
  pose proof (fetch_get_ok w q c e Hst HC) as H1. destruct (fetch_get w q c e) as [f|[code its]]; [exact H1|].
  destruct code as [|p]; [cbn; tauto|]. (* codes are small numerals: inspect them *)
  destruct (fetch_get_all w q c t) as [f|[code2 r]] eqn:E2.
  - repeat (destruct p as [p|p|]; try (cbn; tauto)); exact IH.
  - repeat (destruct p as [p|p|]; try (cbn; tauto)); destruct code2 as [|p2]; try (cbn; tauto); repeat (destruct p2 as [p2|p2|]; try (cbn; tauto)).
Qed.

Lemma fetch_get_many_ok w q c es : StoreInv w -> CI w q c -> ~ is_ub (fetch_get_many w q c es).
Proof. intros Hst HC. unfold fetch_get_many. destruct (has_dup es); [cbn; tauto|now apply fetch_get_all_ok]. Qed.

Lemma run_probes_ok w q c ps : StoreInv w -> CI w q c -> ~ is_ub (run_probes w q c ps).
Proof.
  intros Hst HC. induction ps as [|[many es] t IH]; cbn [run_probes]; [cbn; tauto|].
  set (r := if many then _ else _).
  assert (Hr : ~ is_ub r).
  { unfold r. destruct many; [now apply fetch_get_many_ok|]. destruct es as [|e es']; [cbn; tauto|now apply fetch_get_ok]. }
  destruct r as [f|x]; [exact Hr|]. destruct (run_probes w q c t) as [f|xs]; [exact IH|cbn; tauto].
Qed.

(* the conditions under which a handler's parameters can be evaluated at location [loc] *)
Definition params_ready (w : world) (ps : list rparam) (loc : eloc) : Prop :=
  forall p q c, In p ps -> pquery p = Some (q, c) -> CI w q c /\
    (forall m, p = RRecvT m q c -> exists a k vals, arch_at w (fst loc) = Some a /\ amatch a q = true /\ nget (a_rows a) (snd loc) = Some (k, vals)).

Theorem param_views_ok w ps loc : StoreInv w -> params_ready w ps loc -> ~ is_ub (param_views w ps loc).
Proof.
  intros Hst. induction ps as [|p t IH]; intros Hr; cbn [param_views]; [cbn; tauto|].
  assert (Hrt : params_ready w t loc) by (intros p0 q c Hin Hq; apply Hr; [now right|exact Hq]).
  specialize (IH Hrt). destruct p as [m|m q c|k q c|g tt0].
  - exact IH.
  - destruct (Hr (RRecvT m q c) q c (or_introl eq_refl) eq_refl) as [HC Hx]. destruct (Hx m eq_refl) as (a & k0 & vals & Ha & Hm & Hrow).
    destruct (recv_item_ok w q c loc a k0 vals HC Ha Hm Hrow) as (st & _ & ->). destruct (param_views w t loc) as [f|[r v]]; [exact IH|cbn; tauto].
  - destruct (Hr (RFetch k q c) q c (or_introl eq_refl) eq_refl) as [HC _]. destruct (cache_items_ok w q c HC) as (its & -> & _).
    destruct k.
    + pose proof (run_probes_ok w q c (probe_lists (k_ids (w_h w))) Hst HC) as Hp. destruct (run_probes w q c _) as [f|probes]; [exact Hp|].
      destruct (param_views w t loc) as [f|[r v]]; [exact IH|cbn; tauto].
    + destruct (negb (nlen (map snd its) =? 1)); [cbn; tauto|]. destruct (param_views w t loc) as [f|[r v]]; [exact IH|cbn; tauto].
    + destruct (param_views w t loc) as [f|[r v]]; [exact IH|cbn; tauto].
  - exact IH.
Qed.

(* for the handlers of a world satisfying the cache invariant, the Fetcher / Single parameters are always ready *)
Lemma fetch_params_ready w hk h loc : XI w -> hlive w hk h -> (forall m q c, ~ In (RRecvT m q c) (h_params h)) -> params_ready w (h_params h) loc.
Proof.
  intros (HF & _) Hl Hno p q c Hin Hq. destruct (HF hk h p q c Hl Hin Hq) as [A B]. split; [split; [exact A|intros j; apply B; tauto]|].
  intros m ->. exfalso. eapply Hno; eauto.
Qed.
