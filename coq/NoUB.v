(* NoUB.v : evaluating the parameters of a handler never hits an unchecked failure (C01, C10).
   On a world satisfying the storage and cache invariants, [param_views] - HandlerParam::get of every
   parameter: the Fetcher / Single views with their random-access probes, and the targeted
   receiver's item - either succeeds or raises the documented Single panic; it never reaches a stale
   cache entry, a freed archetype, a wrong column or a missing row (the model's FUB sites 0, 103-105,
   660-664). *)
From Coq Require Import List NArith Bool Lia Sorted Permutation.
Import ListNotations.
Require Import EV.Base EV.ListN EV.Access EV.Query EV.SlotMap EV.Reserve EV.HList EV.Loop EV.World EV.SlotMapGet
  EV.AccessProofs EV.ArchProofs EV.QueryProofs EV.WorldFrame EV.Store EV.Graph EV.Effects EV.Reach EV.RemoveComp EV.Member EV.Listen EV.Order EV.Fetch.
Open Scope N_scope.

Definition is_ub {A} (r : fail + A) : Prop := match r with inl (FUB _) => True | _ => False end.

(* random access through a fetcher *)
Lemma fetch_get_ok w q c e : StoreInv w -> CI w q c -> ~ is_ub (fetch_get w q c e).
Proof.
  intros (_ & Hl & _) HC. unfold fetch_get. destruct (sm_get e (w_ents w)) as [[ai row]|] eqn:He; [|cbn; tauto].
  destruct (find (fun ce => ce_idx ce =? fst (ai, row)) c) as [[[j u] ep]|] eqn:Ef; [|cbn; tauto].
  apply find_some in Ef as [Hin Ej]. cbn [ce_idx fst] in Ej. apply N.eqb_eq in Ej. subst j.
  destruct HC as [Hnd Hg]. pose proof Hin as Hin'. apply (Hg ai) in Hin' as (a & Ha & _ & Hm & _ & _).
  destruct (Hl _ _ _ He) as (a0 & vals & Ha0 & Hrow). rewrite Ha in Ha0. inversion Ha0; subst a0.
  destruct (recv_item_ok w q c (ai, row) a e vals (conj Hnd Hg) Ha Hm Hrow) as (st & _ & ->). cbn. tauto.
Qed.

Lemma fetch_get_all_ok w q c es : StoreInv w -> CI w q c -> ~ is_ub (fetch_get_all w q c es).
Proof.
  intros Hst HC. induction es as [|e t IH]; cbn [fetch_get_all]; [cbn; tauto|].
  pose proof (fetch_get_ok w q c e Hst HC) as H1. destruct (fetch_get w q c e) as [f|[code its]]; [exact H1|].
  destruct code as [|p]; [cbn; tauto|]. (* codes are small numerals: inspect them *)
  destruct (fetch_get_all w q c t) as [f|[code2 r]] eqn:E2.
  - repeat (destruct p as [p|p|]; try (cbn; tauto)); exact IH.
  - repeat (destruct p as [p|p|]; try (cbn; tauto)); destruct code2 as [|p2]; try (cbn; tauto); repeat (destruct p2 as [p2|p2|]; try (cbn; tauto)).
Qed.

Lemma fetch_get_many_ok w q c es : StoreInv w -> CI w q c -> ~ is_ub (fetch_get_many w q c es).
Proof. intros Hst HC. unfold fetch_get_many. destruct (has_dup es); [cbn; tauto|now apply fetch_get_all_ok]. Qed.

Lemma run_probes_ok w q c ps : StoreInv w -> CI w q c -> ~ is_ub (run_probes w q c ps).
Proof.
  intros Hst HC. induction ps as [|[many es] t IH]; cbn [run_probes]; [cbn; tauto|].
  set (r := if many then _ else _).
  assert (Hr : ~ is_ub r).
  { unfold r. destruct many; [now apply fetch_get_many_ok|]. destruct es as [|e es']; [cbn; tauto|now apply fetch_get_ok]. }
  destruct r as [f|x]; [exact Hr|]. destruct (run_probes w q c t) as [f|xs]; [exact IH|cbn; tauto].
Qed.

(* the conditions under which a handler's parameters can be evaluated at location [loc] *)
Definition params_ready (w : world) (ps : list rparam) (loc : eloc) : Prop :=
  forall p q c, In p ps -> pquery p = Some (q, c) -> CI w q c /\
    (forall m, p = RRecvT m q c -> exists a k vals, arch_at w (fst loc) = Some a /\ amatch a q = true /\ nget (a_rows a) (snd loc) = Some (k, vals)).

Theorem param_views_ok w ps loc : StoreInv w -> params_ready w ps loc -> ~ is_ub (param_views w ps loc).
Proof.
  intros Hst. induction ps as [|p t IH]; intros Hr; cbn [param_views]; [cbn; tauto|].
  assert (Hrt : params_ready w t loc) by (intros p0 q c Hin Hq; apply Hr; [now right|exact Hq]).
  specialize (IH Hrt). destruct p as [m|m q c|k q c|g tt0].
  - exact IH.
  - destruct (Hr (RRecvT m q c) q c (or_introl eq_refl) eq_refl) as [HC Hx]. destruct (Hx m eq_refl) as (a & k0 & vals & Ha & Hm & Hrow).
    destruct (recv_item_ok w q c loc a k0 vals HC Ha Hm Hrow) as (st & _ & ->). destruct (param_views w t loc) as [f|[r v]]; [exact IH|cbn; tauto].
  - destruct (Hr (RFetch k q c) q c (or_introl eq_refl) eq_refl) as [HC _]. destruct (cache_items_ok w q c HC) as (its & -> & _).
    destruct k.
    + pose proof (run_probes_ok w q c (probe_lists (k_ids (w_h w))) Hst HC) as Hp. destruct (run_probes w q c _) as [f|probes]; [exact Hp|].
      destruct (param_views w t loc) as [f|[r v]]; [exact IH|cbn; tauto].
    + destruct (negb (nlen (map snd its) =? 1)); [cbn; tauto|]. destruct (param_views w t loc) as [f|[r v]]; [exact IH|cbn; tauto].
    + destruct (param_views w t loc) as [f|[r v]]; [exact IH|cbn; tauto].
  - exact IH.
Qed.

(* for the handlers of a world satisfying the cache invariant, the Fetcher / Single parameters are always ready *)
Lemma fetch_params_ready w hk h loc : XI w -> hlive w hk h -> (forall m q c, ~ In (RRecvT m q c) (h_params h)) -> params_ready w (h_params h) loc.
Proof.
  intros (HF & _) Hl Hno p q c Hin Hq. destruct (HF hk h p q c Hl Hin Hq) as [A B]. split; [split; [exact A|intros j; apply B; tauto]|].
  intros m ->. exfalso. eapply Hno; eauto.
Qed.

(* ---------- static facts about handlers ---------- *)
Definition pkind (p : rparam) : option (bool * query) := match p with RRecvT _ q _ => Some (true, q) | RFetch _ q _ => Some (false, q) | _ => None end.
Definition pks (h : hinfo) : list (option (bool * query)) := map pkind (h_params h).
Definition psend (p : rparam) : option (list (N * N) * list (N * N)) := match p with RSender g t => Some (g, t) | _ => None end.
Definition pss (h : hinfo) := map psend (h_params h).
Definition hview3 (h : hinfo) := (hstat h, pks h, pss h).
Definition hv3 (w : world) := sview hview3 (w_hs w).

(* the filter of a handler implies each of its targeted-receiver queries; a handler of a global event has no targeted receiver *)
Definition Phi (h : hinfo) : Prop :=
  (forall q, In (Some (true, q)) (pks h) -> forall has, ca_matches has (h_filter h) = true -> ca_matches has (access_of q) = true) /\
  (forall ek, h_recv h = RvGlobal ek -> forall q, ~ In (Some (true, q)) (pks h)).
Definition SInv (w : world) : Prop := forall hk h, hlive w hk h -> Phi h.

Lemma Phi_view h h' : hview3 h' = hview3 h -> Phi h -> Phi h'.
Proof.
  unfold hview3. intros E [A B]. assert (Es : hstat h' = hstat h) by congruence. assert (Ep : pks h' = pks h) by congruence.
  assert (Ef : h_filter h' = h_filter h) by exact (f_equal h_filter Es). assert (Er : h_recv h' = h_recv h) by exact (f_equal h_recv Es).
  split; [intros q Hin has Hm; rewrite Ep in Hin; rewrite Ef in Hm; eauto|]. intros ek Hr q Hin. rewrite Ep in Hin. rewrite Er in Hr. eapply B; eauto.
Qed.

Definition hs_le (w' w : world) : Prop := forall hk h', hlive w' hk h' -> exists h, hlive w hk h /\ hview3 h' = hview3 h.
Lemma hs_le_refl w : hs_le w w. Proof. intros hk h H. eauto. Qed.
Lemma hs_le_trans a b c : hs_le a b -> hs_le b c -> hs_le a c.
Proof. intros H1 H2 hk h X. destruct (H1 hk h X) as (h1 & A & B). destruct (H2 hk h1 A) as (h2 & C & D). exists h2. split; [exact C|congruence]. Qed.
Lemma hs_le_hv3 w' w : hv3 w' = hv3 w -> hs_le w' w.
Proof.
  unfold hv3. intros Hv hk h' Hl. unfold hlive in *. pose proof (sview_get hview3 (w_hs w) (w_hs w') hk Hv) as E. rewrite Hl in E.
  destruct (sm_get hk (w_hs w)) as [h|]; cbn in E; [|discriminate]. exists h. split; [reflexivity|congruence].
Qed.
Lemma SInv_le w' w : hs_le w' w -> SInv w -> SInv w'.
Proof. intros Hle HS hk h' Hl. destruct (Hle hk h' Hl) as (h & A & B). eapply Phi_view; eauto. Qed.

Lemma pks_refresh ai a h : pks (h_refresh ai a h) = pks h.
Proof. unfold pks, h_refresh. cbn [h_params set_params]. rewrite map_map. apply map_ext. intros p. destruct p; cbn [param_refresh pkind]; try reflexivity; destruct (arch_state (arch_has a) q); reflexivity. Qed.
Lemma pks_remove ai h : pks (h_remove_arch ai h) = pks h.
Proof. unfold pks, h_remove_arch. cbn [h_params set_params]. rewrite map_map. apply map_ext. intros p. destruct p; reflexivity. Qed.
Lemma pss_refresh ai a h : pss (h_refresh ai a h) = pss h.
Proof. unfold pss, h_refresh. cbn [h_params set_params]. rewrite map_map. apply map_ext. intros p. destruct p; cbn [param_refresh psend]; try reflexivity; destruct (arch_state (arch_has a) q); reflexivity. Qed.
Lemma pss_remove ai h : pss (h_remove_arch ai h) = pss h.
Proof. unfold pss, h_remove_arch. cbn [h_params set_params]. rewrite map_map. apply map_ext. intros p. destruct p; reflexivity. Qed.
Lemma hview3_register ai a h : hview3 (snd (register_handler ai a h)) = hview3 h.
Proof.
  unfold hview3. rewrite hstat_register. f_equal; [f_equal|]; unfold pks, pss; rewrite reg_params; (destruct (_ && _); [|reflexivity]);
  rewrite map_map; apply map_ext; intros p; destruct p; cbn [param_refresh pkind psend]; try reflexivity; destruct (arch_state (arch_has a) q); reflexivity.
Qed.

Lemma hv3_notify_refresh w ai : hv3 (notify_refresh w ai) = hv3 w.
Proof.
  unfold hv3, notify_refresh. destruct (slab_get (w_archs w) ai) as [a|]; [|reflexivity]. cbn [w_hs set_hs].
  apply (sview_fold_upd_key hview3 (fun _ => h_refresh ai a)). intros k v. unfold hview3. now rewrite hstat_refresh, pks_refresh, pss_refresh.
Qed.
Lemma hv3_notify_remove_with w ai a : hv3 (notify_remove_with w ai a) = hv3 w.
Proof.
  unfold hv3, notify_remove_with. cbn [w_hs set_hs]. apply (sview_fold_upd_key hview3 (fun _ => h_remove_arch ai)). intros k v. unfold hview3. now rewrite hstat_remove_arch, pks_remove, pss_remove.
Qed.
Lemma hv3_reg_fold ai l : forall a hs, sview hview3 (snd (fold_left (reg_step ai) l (a, hs))) = sview hview3 hs.
Proof.
  induction l as [|[o hk] l IH]; intros a hs; cbn [fold_left]; [reflexivity|].
  change (reg_step ai (a, hs) (o, hk)) with (match sm_get hk hs with Some h => let '(a', h') := register_handler ai a h in (a', upd_by_key hs hk (fun _ => h')) | None => (a, hs) end).
  destruct (sm_get hk hs) as [h|] eqn:E; [|apply IH]. pose proof (hview3_register ai a h) as Hs. destruct (register_handler ai a h) as [a' h']. cbn [snd] in Hs.
  rewrite IH. eapply sview_upd_key_at; [exact E|exact Hs].
Qed.
Lemma hv3_create_arch w cs ins rem : hv3 (snd (create_arch w cs ins rem)) = hv3 w.
Proof. destruct (create_arch_reg w cs ins rem) as (A & _). unfold hv3. rewrite A. apply hv3_reg_fold. Qed.

Ltac h3fr := intros; first [reflexivity | apply hv3_notify_refresh | apply hv3_notify_remove_with | apply hv3_create_arch].

Section H3.
Variable beh : hinfo -> logent -> N -> script.

Lemma hv3_flush q w : hv3 (res_world (flush beh q w)) = hv3 w.
Proof.
  unfold flush, flush_loop. destruct (Loop.flush wst qitem (run_w beh) unwind_w FUEL q (w, None) []) as [[[tr [w1 fl]] oc]|] eqn:E; [|reflexivity].
  pose proof (flush_frame hv3 ltac:(h3fr) ltac:(h3fr) ltac:(h3fr) ltac:(h3fr) ltac:(h3fr) ltac:(h3fr) ltac:(h3fr) ltac:(h3fr) beh _ _ _ _ _ _ E) as H. cbn [fst] in H.
  destruct oc; [exact H|destruct fl; exact H].
Qed.
End H3.

Lemma hs_le_hs w' w : w_hs w' = w_hs w -> hs_le w' w.
Proof. intros E. apply hs_le_hv3. unfold hv3. now rewrite E. Qed.

Lemma rbind_le {A B} (r : res A) (f : A -> world -> res B) w :
  hs_le (res_world r) w -> (forall a w1, hs_le (res_world (f a w1)) w1) -> hs_le (res_world (rbind r f)) w.
Proof. intros H1 H2. destruct r as [a w1|e w1]; cbn [rbind res_world] in *; [eapply hs_le_trans; eauto|exact H1]. Qed.

Lemma sm_remove_le {V} (m m' : smap V) k v x y : sm_remove k m = Some (v, m') -> sm_get x m' = Some y -> sm_get x m = Some y.
Proof.
  unfold sm_remove, sm_get. destruct (sget (slots m) (fst k)) as [s|] eqn:Es; [|discriminate]. destruct (gen s =? snd k); [|discriminate]. destruct (val s) as [v0|]; [|discriminate].
  intros H. destruct (N.eq_dec (fst x) (fst k)) as [E|E].
  - rewrite E. destruct (wrap_succ (gen s) =? 0); inversion H; subst; cbn [slots]; erewrite sget_supd_eq by eauto; cbn [gen val]; destruct (_ =? snd x); discriminate.
  - destruct (wrap_succ (gen s) =? 0); inversion H; subst; cbn [slots]; now rewrite sget_supd_neq by auto.
Qed.

Section LeOps.
Variable beh : hinfo -> logent -> N -> script.

Lemma hs_le_flush q w : hs_le (res_world (flush beh q w)) w.
Proof. apply hs_le_hv3, hv3_flush. Qed.

Lemma hs_le_gev fuel : forall tag w,
  hs_le (res_world (add_global_event beh fuel tag w)) w /\ forall ev, hs_le (res_world (send_global beh fuel tag ev w)) w.
Proof.
  induction fuel as [|f IH]; intros tag w; [split; [apply hs_le_refl|intros; apply hs_le_refl]|].
  assert (Hadd : hs_le (res_world (add_global_event beh (S f) tag w)) w).
  { rewrite add_global_event_S. destruct (alookup tag (w_gby w)); [apply hs_le_refl|].
    destruct (insert_with (fun _ => mkE tag (gkind tag)) (w_gev w)) as [[k m]|]; [|apply hs_le_refl]. cbn zeta.
    set (w2 := set_glists _ _). destruct (IH G_ADDGE w2) as [_ Hs]. specialize (Hs (mkEv 0 0 k)).
    destruct (send_global beh f G_ADDGE (mkEv 0 0 k) w2); cbn [rbind res_world] in *; (eapply hs_le_trans; [exact Hs|now apply hs_le_hs]). }
  split; [exact Hadd|]. intros ev. rewrite send_global_S. destruct (IH tag w) as [Ha _].
  destruct (add_global_event beh f tag w) as [k w1|e w1]; cbn [res_world] in *.
  - eapply hs_le_trans; [apply hs_le_flush|]. destruct (10 <? tag); [eapply hs_le_trans; [|exact Ha]; now apply hs_le_hs|exact Ha].
  - eapply hs_le_trans; [|exact Ha]. apply hs_le_hs. unfold ev_drop, drop_cval. repeat break_match; reflexivity.
Qed.
Lemma hs_le_send_global tag ev w : hs_le (res_world (send_global beh RFUEL tag ev w)) w.
Proof. exact (proj2 (hs_le_gev RFUEL tag w) ev). Qed.
Lemma hs_le_add_global_event tag w : hs_le (res_world (add_global_event beh RFUEL tag w)) w.
Proof. exact (proj1 (hs_le_gev RFUEL tag w)). Qed.

Lemma hs_le_add_component tag w : hs_le (res_world (add_component beh tag w)) w.
Proof.
  unfold add_component. destruct (alookup tag (w_cby w)); [apply hs_le_refl|]. destruct (insert_with _ (w_comps w)) as [[k m]|]; [|apply hs_le_refl].
  apply rbind_le; [|intros; apply hs_le_refl]. eapply hs_le_trans; [apply hs_le_send_global|now apply hs_le_hs].
Qed.
Lemma hs_le_tev_stage1 tag w : hs_le (res_world (tev_stage1 beh tag w)) w.
Proof.
  unfold tev_stage1. destruct ((20 <=? tag) && (tag <? 40)); [apply rbind_le; [apply hs_le_add_component|intros; apply hs_le_refl]|].
  destruct ((40 <=? tag) && (tag <? 60)); [apply rbind_le; [apply hs_le_add_component|intros; apply hs_le_refl]|]. destruct (tag =? T_DESPAWN); apply hs_le_refl.
Qed.
Lemma hs_le_add_targeted_event tag w : hs_le (res_world (add_targeted_event beh tag w)) w.
Proof.
  rewrite add_targeted_event_unfold. apply rbind_le; [apply hs_le_tev_stage1|]. intros kind w0.
  destruct (alookup tag (w_tby w0)); [apply hs_le_refl|]. destruct (insert_with _ (w_tev w0)) as [[k m]|]; [|apply hs_le_refl].
  apply rbind_le; [|intros; apply hs_le_refl]. eapply hs_le_trans; [apply hs_le_send_global|]. apply hs_le_hs. unfold tev_entry_world. destruct kind; reflexivity.
Qed.
Lemma hs_le_send_to tag target ev w : hs_le (res_world (send_to beh tag target ev w)) w.
Proof.
  unfold send_to. pose proof (hs_le_add_targeted_event tag w) as H. destruct (add_targeted_event beh tag w) as [k w1|e w1]; cbn [res_world] in *.
  - eapply hs_le_trans; [apply hs_le_flush|exact H].
  - eapply hs_le_trans; [|exact H]. apply hs_le_hs. unfold ev_drop, drop_cval. repeat break_match; reflexivity.
Qed.
Lemma hs_le_resolve_query q : forall w, hs_le (res_world (resolve_query beh q w)) w.
Proof.
  induction q as [c|c|qs IH|q IH|l r IHl IHr|l r IHl IHr|q IH|q IH|q IH|] using query_ind'; intros w; cbn [resolve_query];
    try (apply rbind_le; [apply hs_le_add_component|intros; apply hs_le_refl]);
    try (apply rbind_le; [apply IH|intros; apply hs_le_refl]);
    try (apply rbind_le; [apply IHl|intros ? w1; apply rbind_le; [apply IHr|intros; apply hs_le_refl]]);
    try apply hs_le_refl.
  apply rbind_le; [|intros; apply hs_le_refl].
  revert w. induction IH as [|x t Hx _ IHt]; intros w; [apply hs_le_refl|].
  apply rbind_le; [apply Hx|]. intros x' w1. apply rbind_le; [apply IHt|intros; apply hs_le_refl].
Qed.
Lemma hs_le_register_set evs : forall w, hs_le (res_world (register_set beh evs w)) w.
Proof.
  induction evs as [|[t tag] rest IH]; intros w; cbn [register_set]; [apply hs_le_refl|].
  apply rbind_le; [destruct t; [apply hs_le_add_targeted_event|apply hs_le_add_global_event]|]. intros k w1. apply rbind_le; [apply IH|intros; apply hs_le_refl].
Qed.
Lemma hs_le_init_param p c w : hs_le (res_world (init_param beh p c w)) w.
Proof.
  destruct p; cbn [init_param].
  - apply rbind_le; [apply hs_le_add_global_event|intros; apply hs_le_refl].
  - apply rbind_le; [apply hs_le_add_targeted_event|]. intros k w1. apply rbind_le; [apply hs_le_resolve_query|intros; apply hs_le_refl].
  - apply rbind_le; [apply hs_le_resolve_query|intros; apply hs_le_refl].
  - apply rbind_le; [apply hs_le_register_set|intros; apply hs_le_refl].
Qed.
Lemma hs_le_init_params ps : forall c w, hs_le (res_world (init_params beh ps c w)) w.
Proof.
  induction ps as [|p t IH]; intros c w; cbn [init_params]; [apply hs_le_refl|]. apply rbind_le; [apply hs_le_init_param|]. intros c1 w1. apply IH.
Qed.

Lemma hs_le_remove_handler k w : hs_le (res_world (remove_handler beh k w)) w.
Proof.
  unfold remove_handler. destruct (sm_get k (w_hs w)) as [h0|]; [|apply hs_le_refl]. apply rbind_le; [apply hs_le_send_global|]. intros [] w1.
  unfold handlers_remove. destruct (sm_remove k (w_hs w1)) as [[h1 hs]|] eqn:Er; [|apply hs_le_refl]. cbn [res_world].
  intros hk h' Hl. unfold hlive in *. change (w_hs (archs_remove_handler _ h1)) with hs in Hl. exists h'. split; [eapply sm_remove_le; eauto|reflexivity].
Qed.
Lemma hs_le_remove_handlers ks : forall w, hs_le (res_world (remove_handlers beh ks w)) w.
Proof. induction ks as [|k t IH]; intros w; cbn [remove_handlers]; [apply hs_le_refl|]. apply rbind_le; [apply hs_le_remove_handler|]. intros b w1. apply IH. Qed.
Lemma hs_le_remove_global_event k w : hs_le (res_world (remove_global_event beh k w)) w.
Proof.
  unfold remove_global_event. destruct (sm_get k (w_gev w)); [|apply hs_le_refl]. apply rbind_le; [apply hs_le_send_global|]. intros [] w1.
  apply rbind_le; [apply hs_le_remove_handlers|]. intros [] w2. destruct (sm_remove k (w_gev w2)) as [[info m]|]; [|apply hs_le_refl]. now apply hs_le_hs.
Qed.
Lemma hs_le_remove_targeted_event k w : hs_le (res_world (remove_targeted_event beh k w)) w.
Proof.
  unfold remove_targeted_event. destruct (sm_get k (w_tev w)); [|apply hs_le_refl]. apply rbind_le; [apply hs_le_send_global|]. intros [] w1.
  apply rbind_le; [apply hs_le_remove_handlers|]. intros [] w2. destruct (sm_remove k (w_tev w2)) as [[info m]|]; [|apply hs_le_refl]. apply hs_le_hs. destruct (e_kind info); reflexivity.
Qed.
Lemma hs_le_remove_tevents ks : forall w, hs_le (res_world (remove_tevents beh ks w)) w.
Proof. induction ks as [|k t IH]; intros w; cbn [remove_tevents]; [apply hs_le_refl|]. apply rbind_le; [apply hs_le_remove_targeted_event|]. intros b w1. apply IH. Qed.

Lemma hv3_rc_step cidx ctag w ai : hv3 (rc_step cidx ctag w ai) = hv3 w.
Proof.
  destruct (slab_get (w_archs w) ai) as [a|] eqn:Ha; [|unfold rc_step; now rewrite Ha]. unfold hv3. rewrite (rc_step_hs cidx ctag w ai a Ha).
  exact (hv3_notify_remove_with (set_archs w (slab_remove (w_archs w) ai)) ai a).
Qed.
Lemma hs_le_archs_remove_component cidx ctag w l : hs_le (archs_remove_component w cidx ctag l) w.
Proof.
  rewrite archs_remove_component_unfold. apply hs_le_hv3. change (hv3 (strip cidx (fold_left (rc_step cidx ctag) l w))) with (hv3 (fold_left (rc_step cidx ctag) l w)).
  apply (fold_left_pres hv3). intros w0 ai. apply hv3_rc_step.
Qed.
Lemma hs_le_remove_component k w : hs_le (res_world (remove_component beh k w)) w.
Proof.
  unfold remove_component. destruct (sm_get k (w_comps w)); [|apply hs_le_refl]. apply rbind_le; [apply hs_le_send_global|]. intros [] w1.
  apply rbind_le; [apply hs_le_add_targeted_event|]. intros dk w2. apply rbind_le; [apply hs_le_flush|]. intros [] w3. apply rbind_le; [apply hs_le_remove_handlers|]. intros [] w4.
  destruct (sm_get k (w_comps w4)) as [ci|]; [|apply hs_le_refl]. apply rbind_le; [apply hs_le_remove_tevents|]. intros [] w5.
  destruct (sm_remove k (w_comps w5)) as [[ci' m]|]; [|apply hs_le_refl]. cbn [res_world].
  eapply hs_le_trans; [|apply (hs_le_hs (set_comps w5 m (aremove (c_tag ci') (w_cby w5))) w5 eq_refl)].
  change (hs_le (archs_remove_component (set_comps w5 m (aremove (c_tag ci') (w_cby w5))) (fst k) (c_tag ci') (c_member_of ci')) (set_comps w5 m (aremove (c_tag ci') (w_cby w5)))).
  apply hs_le_archs_remove_component.
Qed.
End LeOps.

(* ---------- the configuration collected by init_params: filter implies each targeted query; targeted receivers fix the receiver kind ---------- *)
Definition CfInv2 (c : hconfig) : Prop :=
  (forall q, In (Some (true, q)) (map pkind (cf_params c)) -> forall has, ca_matches has (cf_filter c) = true -> ca_matches has (access_of q) = true) /\
  ((exists q, In (Some (true, q)) (map pkind (cf_params c))) -> match cf_recv c with RcOk (RvTargeted _) | RcInvalid => True | _ => False end).

Lemma CfInv2_cfg0 : CfInv2 cfg0.
Proof. split; [intros q []|intros (q & [])]. Qed.

Lemma in_pk_app ps p x : In x (map pkind (ps ++ [p])) -> In x (map pkind ps) \/ x = pkind p.
Proof. rewrite map_app. intros H. apply in_app_or in H as [H|[H|[]]]; auto. Qed.

Section Init2.
Variable beh : hinfo -> logent -> N -> script.

Lemma init_param_CfInv2 p c w : CfInv2 c -> match init_param beh p c w with ROk c' _ => CfInv2 c' | RFail _ _ => True end.
Proof.
  intros [HA HB]. destruct p as [tag m|tag m q|k q|evs]; cbn [init_param].
  - destruct (add_global_event beh RFUEL tag w) as [k w1|f w1]; cbn [rbind]; [|exact I]. split; cbn [cf_params cf_filter cf_recv].
    + intros q Hin. apply in_pk_app in Hin as [Hin|Hin]; [now apply HA|discriminate].
    + intros (q & Hin). apply in_pk_app in Hin as [Hin|Hin]; [|discriminate]. specialize (HB (ex_intro _ q Hin)). unfold cfg_set_recv.
      destruct (cf_recv c) as [|[ek|ek]|]; try contradiction; cbn [recvid_eqb]; exact I.
  - destruct (add_targeted_event beh tag w) as [k w1|f w1]; cbn [rbind]; [|exact I]. destruct (resolve_query beh q w1) as [q' w2|f w2]; cbn [rbind]; [|exact I].
    split; cbn [cf_params cf_filter cf_recv].
    + intros q0 Hin has Hm. apply in_pk_app in Hin as [Hin|Hin].
      * specialize (HB (ex_intro _ q0 Hin)). destruct (cf_recv c) as [|rv|]; [contradiction| |]; rewrite ca_and_matches in Hm; apply andb_true_iff in Hm as [Hm _]; eapply HA; eauto.
      * cbn [pkind] in Hin. inversion Hin; subst q0. destruct (cf_recv c) as [|rv|]; [exact Hm| |]; rewrite ca_and_matches in Hm; apply andb_true_iff in Hm as [_ Hm]; exact Hm.
    + intros _. unfold cfg_set_recv. destruct (cf_recv c) as [|rv|]; [exact I| |exact I]. destruct (recvid_eqb rv (RvTargeted k)); exact I.
  - destruct (resolve_query beh q w) as [q' w1|f w1]; cbn [rbind]; [|exact I]. split; cbn [cf_params cf_filter cf_recv].
    + intros q0 Hin. apply in_pk_app in Hin as [Hin|Hin]; [now apply HA|discriminate].
    + intros (q0 & Hin). apply in_pk_app in Hin as [Hin|Hin]; [|discriminate]. exact (HB (ex_intro _ q0 Hin)).
  - destruct (register_set beh evs w) as [r w1|f w1]; cbn [rbind]; [|exact I]. split; cbn [cf_params cf_filter cf_recv].
    + intros q0 Hin. apply in_pk_app in Hin as [Hin|Hin]; [now apply HA|discriminate].
    + intros (q0 & Hin). apply in_pk_app in Hin as [Hin|Hin]; [|discriminate]. exact (HB (ex_intro _ q0 Hin)).
Qed.
Lemma init_params_CfInv2 ps : forall c w, CfInv2 c -> match init_params beh ps c w with ROk c' _ => CfInv2 c' | RFail _ _ => True end.
Proof.
  induction ps as [|p t IH]; intros c w HC; cbn [init_params]; [exact HC|].
  pose proof (init_param_CfInv2 p c w HC) as H. destruct (init_param beh p c w) as [c1 w1|f w1]; cbn [rbind]; [|exact I]. now apply IH.
Qed.

Lemma hv3_arh_step hk w x : hv3 (arh_step hk w x) = hv3 w.
Proof.
  destruct x as [ai x].
  change (arh_step hk w (ai, x)) with (match slab_get (w_archs w) ai, sm_get hk (w_hs w) with
      | Some a, Some h => let '(a', h') := register_handler ai a h in set_hs (set_archs w (slab_set (w_archs w) ai a')) (upd_by_key (w_hs w) hk (fun _ => h'))
      | _, _ => w end).
  destruct (slab_get (w_archs w) ai) as [a|]; [|reflexivity]. destruct (sm_get hk (w_hs w)) as [h|] eqn:E; [|reflexivity].
  pose proof (hview3_register ai a h) as Hs. destruct (register_handler ai a h) as [a' h']. cbn [snd] in Hs.
  unfold hv3. cbn [w_hs set_hs]. eapply sview_upd_key_at; [exact E|exact Hs].
Qed.
Lemma hv3_archs_register_handler w hk : hv3 (archs_register_handler w hk) = hv3 w.
Proof. rewrite archs_register_handler_unfold. apply (fold_left_pres hv3). intros w0 x. apply hv3_arh_step. Qed.

Theorem add_handler_SInv sh w : DI w -> SInv w -> SInv (res_world (add_handler beh sh w)).
Proof.
  intros HD HS. unfold add_handler.
  destruct (match sh_tid sh with Some t => alookup t (w_hby w) | None => None end); [exact HS|].
  pose proof (init_params_DI beh (sh_params sh) cfg0 w HD) as HD1. pose proof (init_params_CfInv2 (sh_params sh) cfg0 w CfInv2_cfg0) as HC.
  pose proof (SInv_le _ _ (hs_le_init_params beh (sh_params sh) cfg0 w) HS) as HS1.
  destruct (init_params beh (sh_params sh) cfg0 w) as [c w1|f w1]; cbn [rbind res_world] in *; [|exact HS1].
  destruct (cf_recv c) as [|rv|] eqn:Erv; try exact HS1. destruct (cf_access c) as [acc|]; [|exact HS1].
  destruct (handler_conflicts (cf_cas c)); [|exact HS1].
  destruct (insert_with _ (w_hs w1)) as [[k hs]|] eqn:Ei; [|exact HS1].
  destruct (DI_parts _ HD1) as (_ & ((S & _) & _) & _ & _).
  match goal with |- context [archs_register_handler ?w2 k] => assert (HS3 : SInv (archs_register_handler w2 k)) end.
  { eapply SInv_le; [apply hs_le_hv3, hv3_archs_register_handler|]. intros hk h Hl. unfold hlive in Hl. cbn [w_hs set_hreg] in Hl.
    destruct (key_eq_dec hk k) as [->|Hne].
    - erewrite insert_get_new in Hl by eauto. inversion Hl; subst h. destruct HC as [HA HB]. split; cbn [pks h_params h_filter h_recv].
      + exact HA.
      + intros ek -> q Hin. specialize (HB (ex_intro _ q Hin)). rewrite Erv in HB. exact HB.
    - erewrite insert_get_other in Hl by eauto. exact (HS1 hk h Hl). }
  eapply SInv_le; [|exact HS3]. apply rbind_le; [apply hs_le_send_global|intros; apply hs_le_refl].
Qed.

Lemma hs_le_op_spawn w : hs_le (res_world (op_spawn beh w)) w.
Proof.
  unfold op_spawn. apply rbind_le.
  - unfold reserve. repeat break_match; cbn [res_world]; now apply hs_le_hs.
  - intros id w1. apply rbind_le; [apply hs_le_send_global|intros; now apply hs_le_hs].
Qed.
Lemma hs_le_fresh_serial w : hs_le (snd (fresh_serial w)) w. Proof. now apply hs_le_hs. Qed.
Lemma hs_le_op_insert e ktag w : hs_le (res_world (op_insert beh e ktag w)) w.
Proof.
  unfold op_insert. destruct (new_cval w ktag) as [v w1] eqn:E. eapply hs_le_trans; [apply hs_le_send_to|]. unfold new_cval in E.
  destruct (ctag_zst ktag); inversion E; subst; [apply hs_le_refl|now apply hs_le_hs].
Qed.
Lemma hs_le_op_send gtag w : hs_le (res_world (op_send beh gtag w)) w.
Proof. unfold op_send. destruct (fresh_serial w) as [s w1] eqn:E. eapply hs_le_trans; [apply hs_le_send_global|]. inversion E; subst. now apply hs_le_hs. Qed.
Lemma hs_le_op_send_to e ttag w : hs_le (res_world (op_send_to beh e ttag w)) w.
Proof. unfold op_send_to. destruct (fresh_serial w) as [s w1] eqn:E. eapply hs_le_trans; [apply hs_le_send_to|]. inversion E; subst. now apply hs_le_hs. Qed.
End Init2.

Definition EI (w : world) : Prop := DI w /\ SInv w.
Lemma SInv_world0 fuel p : SInv (world0 fuel p).
Proof. intros hk h H. unfold hlive, world0 in H. cbn [w_hs] in H. discriminate. Qed.
Lemma run_top_all_EI beh w o : EI w -> EI (run_top_all beh w o).
Proof.
  intros [HD HS]. split; [now apply run_top_all_DI|]. destruct o as [o|k]; cbn [run_top_all]; [|eapply SInv_le; [apply hs_le_remove_component|exact HS]].
  destruct o; cbn [run_top]; try (now apply add_handler_SInv); (eapply SInv_le; [|exact HS]).
  - apply hs_le_op_spawn. - apply hs_le_op_insert. - apply hs_le_send_to. - apply hs_le_send_to.
  - apply hs_le_op_send. - apply hs_le_op_send_to. - apply hs_le_remove_handler.
  - apply hs_le_add_component. - apply hs_le_add_global_event. - apply hs_le_add_targeted_event.
  - apply hs_le_remove_global_event. - apply hs_le_remove_targeted_event.
Qed.
Theorem reachable_EI beh fuel p ops : EI (fold_left (run_top_all beh) ops (world0 fuel p)).
Proof. apply fold_left_invariant; [split; [apply DI_world0|apply SInv_world0]|]. intros w o. apply run_top_all_EI. Qed.

(* ---------- no handler of a delivery hits an unchecked failure ---------- *)
Definition ubf (f : option fail) : Prop := match f with Some (FUB _) => True | _ => False end.

Lemma reserve_no_ub w f w1 : reserve w = RFail f w1 -> ~ ubf (Some f).
Proof. unfold reserve. repeat break_match; intros H; inversion H; subst; cbn; tauto. Qed.

Lemma run_actions_no_ub acts : forall ps t fresh sent w, ~ ubf (snd (run_actions acts ps t fresh sent w)).
Proof.
  induction acts as [|a rest IH]; intros ps t fresh sent w; cbn [run_actions]; [cbn; tauto|].
  destruct (use_fuel w) as [ok w0]. destruct (negb ok); [apply IH|].
  destruct a; repeat (break_match; try apply IH; try (cbn; tauto));
    match goal with H : reserve _ = RFail _ _ |- _ => exact (reserve_no_ub _ _ _ H) end.
Qed.

Lemma params_ready_sl w w' ps loc : structureL w' = structureL w -> params_ready w ps loc -> params_ready w' ps loc.
Proof.
  intros Hs Hr p q c Hin Hq. destruct (Hr p q c Hin Hq) as [[Hnd Hg] Hx]. destruct (structureL_arch w w' Hs) as (_ & B & _).
  destruct (structureL_views w w' Hs) as (_ & _ & C). split.
  - split; [exact Hnd|]. intros j. apply (good_ext w); [apply B|apply Hg].
  - intros m Hp. destruct (Hx m Hp) as (a & k & vals & Ha & Hm & Hrow).
    destruct (arch_at_structure w w' C _ _ Ha) as (a' & Ha' & Ec & Er & _).
    assert (Hn : option_map rshape (nget (a_rows a') (snd loc)) = option_map rshape (nget (a_rows a) (snd loc))) by (rewrite <- !nget_map; now rewrite Er).
    rewrite Hrow in Hn. destruct (nget (a_rows a') (snd loc)) as [[k' vals']|] eqn:Hrow'; cbn in Hn; [|discriminate].
    exists a', k', vals'. split; [exact Ha'|]. split; [now rewrite (amatch_comps a a' q Ec)|exact Hrow'].
Qed.

Lemma access_amatch a q : ca_matches (arch_has a) (access_of q) = true -> amatch a q = true.
Proof. unfold amatch. rewrite access_matches_qmatch, <- arch_state_iff_qmatch. destruct (arch_state (arch_has a) q); auto. Qed.

Section Deliver.
Variable beh : hinfo -> logent -> N -> script.

Lemma run_handler_no_ub w h it tag loc : StoreInv w -> params_ready w (h_params h) loc -> ~ ubf (hr_fail (fst (run_handler beh w h it tag loc))).
Proof.
  intros Hst Hr. unfold run_handler. pose proof (param_views_ok w (h_params h) loc Hst Hr) as Hp.
  destruct (param_views w (h_params h) loc) as [f|[ritems views]]; [cbn [fst hr_fail]; destruct f; cbn in *; tauto|].
  match goal with |- context [run_actions ?a ?b ?c ?d ?e ?x] =>
    pose proof (run_actions_no_ub a b c d e x) as Hra; destruct (run_actions a b c d e x) as [[sent w3] fl] end.
  cbn [snd] in Hra. destruct fl as [f|]; [exact Hra|]. destruct (_ =? _); cbn; tauto.
Qed.

Definition ready_list (w : world) (hl : list key) (loc : eloc) : Prop :=
  forall hk, In hk hl -> exists h, hlive w hk h /\ params_ready w (h_params h) loc.

Theorem run_handlers_no_ub hl : forall w it tag loc sent, WInv w -> ready_list w hl loc ->
  ~ ubf (snd (run_handlers beh hl w it tag loc sent)).
Proof.
  induction hl as [|hk rest IH]; intros w it tag loc sent HW Hrl; cbn [run_handlers]; [cbn; tauto|].
  destruct (Hrl hk (or_introl eq_refl)) as (h & Hl & Hr). unfold hlive in Hl. rewrite Hl.
  pose proof (run_handler_no_ub w h it tag loc (proj1 HW) Hr) as Hh. pose proof (sl_run_handler beh w h it tag loc) as Hs.
  destruct (run_handler beh w h it tag loc) as [r w1]. cbn [fst snd] in *.
  destruct (hr_fail r) as [f|]; [exact Hh|]. destruct (hr_taken r); [cbn; tauto|].
  destruct (structureL_arch w w1 Hs) as (A & _ & _). destruct (structureL_views w w1 Hs) as (_ & _ & C).
  apply IH; [eapply WInv_structure; eauto|]. intros hk' Hin. destruct (Hrl hk' (or_intror Hin)) as (h' & Hl' & Hr').
  exists h'. split; [unfold hlive in *; now rewrite A|eapply params_ready_sl; eauto].
Qed.

(* the handlers a delivery runs can all evaluate their parameters *)
Theorem delivered_ready w it loc : DI w -> SInv w ->
  (qi_targeted it = true -> sm_get (qi_target it) (w_ents w) = Some loc) -> ready_list w (delivered_to w it) loc.
Proof.
  intros HD HS Hloc hk Hin. destruct (DI_parts _ HD) as (HF & HH & _ & (HFI & _)). destruct HF as [[HW _] _]. destruct HW as (Hst & _).
  apply (proj2 (delivered_to_exact w it HH)) in Hin. destruct (qi_targeted it).
  - destruct Hin as (loc' & a & h & ek & He & Ha & Hl & Hrv & _ & Hm). rewrite (Hloc eq_refl) in He. inversion He; subst loc'.
    exists h. split; [exact Hl|]. intros p q c Hp Hq. destruct (HFI hk h p q c Hl Hp Hq) as [Hnd Hg]. split; [split; [exact Hnd|intros j; apply Hg; tauto]|].
    intros m ->. destruct (HS hk h Hl) as [P1 _].
    assert (Hpk : In (Some (true, q)) (pks h)) by (unfold pks; apply in_map_iff; exists (RRecvT m q c); split; [reflexivity|exact Hp]).
    pose proof (P1 q Hpk _ Hm) as Hma. destruct Hst as (_ & Hlk & _). destruct loc as [ai row]. destruct (Hlk _ _ _ (Hloc eq_refl)) as (a0 & vals & Ha0 & Hrow).
    cbn [fst snd] in *. rewrite Ha in Ha0. inversion Ha0; subst a0. exists a, (qi_target it), vals. split; [exact Ha|]. split; [now apply access_amatch|exact Hrow].
  - destruct Hin as (h & ek & Hl & Hrv & _). exists h. split; [exact Hl|]. intros p q c Hp Hq. destruct (HFI hk h p q c Hl Hp Hq) as [Hnd Hg]. split; [split; [exact Hnd|intros j; apply Hg; tauto]|].
    intros m ->. destruct (HS hk h Hl) as [_ P2]. exfalso. apply (P2 ek Hrv q). unfold pks. apply in_map_iff. exists (RRecvT m q c). split; [reflexivity|exact Hp].
Qed.

(* a whole delivery: given that the event kind of the queued item is registered (the look-ups at
   world.rs:1045/1048/1056), nothing in it - archetype look-up, parameter evaluation of every handler,
   handler actions, the built-in effect - hits an unchecked failure *)
Theorem deliver_one_no_ub it w : DI w -> SInv w ->
  (if qi_targeted it then get_by_index (w_tev w) (qi_idx it) <> None
   else get_by_index (w_gev w) (qi_idx it) <> None /\ nget (w_glists w) (qi_idx it) <> None) ->
  ~ ubf (snd (deliver_one beh it w)).
Proof.
  intros HD HS Hreg. destruct (DI_parts _ HD) as (HF & HH & _ & _). destruct HF as [[HW HG] _].
  assert (Hfin : forall tag kind loc, (targeted_kind kind = true -> sm_get (qi_target it) (w_ents w) = Some loc) ->
            (qi_targeted it = true -> sm_get (qi_target it) (w_ents w) = Some loc) ->
            ~ ubf (snd (let '(w1, ev, sent, taken, fl) := run_handlers beh (delivered_to w it) w it tag loc [] in
              match fl with
              | Some f => (sent, (if taken then w1 else ev_drop w1 (qi_targeted it) tag ev), Some f)
              | None => if taken then (sent, w1, None) else
                  match kind with
                  | KNormal => (sent, ev_drop w1 (qi_targeted it) tag ev, None)
                  | _ => let '(w3, f) := fail_of (builtin_effect kind ev loc w1) in (sent, w3, f)
                  end
              end))).
  { intros tag kind loc Hk Hloc. pose proof (run_handlers_no_ub (delivered_to w it) w it tag loc [] HW (delivered_ready w it loc HD HS Hloc)) as Hn.
    pose proof (handlers_preserve_structureL beh (delivered_to w it) w it tag loc []) as Hs.
    destruct (run_handlers beh (delivered_to w it) w it tag loc []) as [[[[w1 ev] sent] taken] fl]. cbn [fst snd] in Hs, Hn.
    destruct fl as [f|]; [exact Hn|]. destruct taken; [cbn; tauto|].
    destruct (structureL_views w w1 Hs) as (_ & _ & C). assert (HW1 : WInv w1) by (eapply WInv_structure; eauto).
    pose proof (builtin_effect_ok kind ev loc w1 (qi_target it) HW1) as Hb. rewrite (structure_ents _ _ C) in Hb. specialize (Hb Hk).
    destruct kind; try (cbn; tauto); destruct (builtin_effect _ ev loc w1) as [u w3|f w3]; cbn [fail_of snd]; try (cbn; tauto); destruct Hb as [-> _]; cbn; tauto. }
  unfold deliver_one. fold (delivered_to w it).
  destruct (qi_targeted it) eqn:Et.
  - destruct (get_by_index (w_tev w) (qi_idx it)) as [[k info]|]; [|congruence].
    destruct (sm_get (qi_target it) (w_ents w)) as [loc|] eqn:Hl; [|cbn; tauto].
    destruct HW as ((_ & Hlk & _) & _). destruct loc as [ai row]. destruct (Hlk _ _ _ Hl) as (a & vals & Ha & _). unfold arch_at in Ha. cbn [fst]. rewrite Ha.
    pose proof (Hfin (e_tag info) (e_kind info) (ai, row) (fun _ => eq_refl) (fun _ => eq_refl)) as H.
    unfold delivered_to in H. rewrite Et, Hl in H. cbn [fst] in H. rewrite Ha in H. exact H.
  - destruct Hreg as [A B]. destruct (get_by_index (w_gev w) (qi_idx it)) as [[k info]|] eqn:Hg; [|congruence].
    destruct (nget (w_glists w) (qi_idx it)) as [l|] eqn:Hn; [|congruence].
    assert (Hk : targeted_kind (e_kind info) = true -> sm_get (qi_target it) (w_ents w) = Some (U32MAX, U32MAX)) by (intros X; rewrite (HG _ _ _ Hg) in X; discriminate).
    pose proof (Hfin (e_tag info) (e_kind info) (U32MAX, U32MAX) Hk ltac:(discriminate)) as H.
    unfold delivered_to, glist_of in H. rewrite Et, Hn in H. exact H.
Qed.
End Deliver.
