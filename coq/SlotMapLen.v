(* SlotMapLen.v : SlotMap::len (the live-entity count of C03) is the number of occupied slots, and over every
   operation sequence it equals the number of successful insertions minus the number of successful removals. *)
From Coq Require Import List NArith Bool Lia.
Import ListNotations.
Require Import EV.Base EV.SlotMap.
Open Scope N_scope.

Section Len.
Context {V : Type}.
Notation slot := (@slot V).
Notation smap := (@smap V).

Definition occb (s : slot) : nat := match val s with Some _ => 1%nat | None => 0%nat end.
Fixpoint occ (l : list slot) : nat := match l with [] => 0%nat | s :: t => (occb s + occ t)%nat end.
Definition LenInv (m : smap) : Prop := sm_len m = N.of_nat (occ (slots m)).

Lemma occ_app l1 l2 : occ (l1 ++ l2) = (occ l1 + occ l2)%nat.
Proof. induction l1 as [|x t IH]; cbn [occ app]; [reflexivity|]. rewrite IH. lia. Qed.

Lemma occ_upd l : forall n s s', nth_error l n = Some s -> (occ (upd l n s') + occb s = occ l + occb s')%nat.
Proof.
  induction l as [|x t IH]; intros [|n] s s' H; cbn in H; try discriminate.
  - inversion H; subst. cbn [upd occ]. lia.
  - cbn [upd occ]. specialize (IH n s s' H). lia.
Qed.
Lemma occ_supd l i s s' : sget l i = Some s -> (occ (supd l i s') + occb s = occ l + occb s')%nat.
Proof. intros H. rewrite supd_upd. apply occ_upd. now rewrite <- sget_nth. Qed.

(* a slot at the head of the free chain is vacant *)
Lemma free_head_vacant (m : smap) s : SmInv m -> sget (slots m) (next_free m) = Some s -> val s = None.
Proof.
  intros ((c & Hc & _) & Hok & Hb) Hs. destruct (Hok _ _ Hs) as [_ Hiff].
  inversion Hc as [Hn|i s0 rest Hg He Hnz Hr Hi]; subst.
  - (* next_free = U32MAX: no such slot exists within the length bound *)
    rewrite <- Hn in Hs. apply sget_lt in Hs. lia.
  - rewrite Hs in Hg. inversion Hg; subst s0. destruct (val s) eqn:E; [|reflexivity].
    assert (X : N.odd (gen s) = true) by (apply Hiff; congruence). rewrite <- N.negb_even, He in X. discriminate.
Qed.

Lemma insert_len f (m : smap) k m' : SmInv m -> LenInv m -> insert_with f m = Some (k, m') -> LenInv m' /\ sm_len m' = sm_len m + 1.
Proof.
  intros HI HL H. unfold insert_with in H. destruct (sget (slots m) (next_free m)) as [s|] eqn:Es.
  - pose proof (free_head_vacant m s HI Es) as Hv. inversion H; subst. unfold LenInv. cbn [slots sm_len]. split; [|reflexivity].
    pose proof (occ_supd (slots m) (next_free m) s (mkSlot (gen s + 1) (link s) (Some (f (next_free m, gen s + 1)))) Es) as Ho.
    unfold occb in Ho. rewrite Hv in Ho. cbn [val] in Ho. rewrite HL. lia.
  - destruct (_ =? U32MAX); [discriminate|]. inversion H; subst. unfold LenInv. cbn [slots sm_len]. split; [|reflexivity].
    rewrite occ_app. cbn [occ occb val]. rewrite HL. lia.
Qed.

Lemma remove_len k (m : smap) v m' : LenInv m -> sm_remove k m = Some (v, m') -> LenInv m' /\ sm_len m' + 1 = sm_len m.
Proof.
  intros HL H. unfold sm_remove in H. destruct (sget (slots m) (fst k)) as [s|] eqn:Es; [|discriminate].
  destruct (gen s =? snd k); [|discriminate]. destruct (val s) as [v0|] eqn:Ev; [|discriminate].
  assert (Hpos : (1 <= occ (slots m))%nat).
  { pose proof (occ_supd (slots m) (fst k) s s Es). clear H0. revert Es. rewrite sget_nth. generalize (N.to_nat (fst k)). generalize (slots m).
    induction l as [|x t IH]; intros [|n] E; cbn in E; try discriminate.
    - inversion E; subst. cbn [occ]. unfold occb. rewrite Ev. lia.
    - cbn [occ]. specialize (IH n E). lia. }
  destruct (wrap_succ (gen s) =? 0); inversion H; subst; unfold LenInv; cbn [slots sm_len];
    match goal with |- context [supd (slots m) (fst k) ?s'] => pose proof (occ_supd (slots m) (fst k) s s' Es) as Ho end;
    unfold occb in Ho; rewrite Ev in Ho; cbn [val] in Ho; rewrite HL; lia.
Qed.

(* over every operation sequence: len = insertions - removals, counting the successful ones *)
Definition sm_stepc (st : smap * N * N) (o : sm_op) : smap * N * N :=
  let '(m, i, r) := st in
  match o with
  | OIns f => match insert_with f m with Some (_, m') => (m', i + 1, r) | None => st end
  | ORem k => match sm_remove k m with Some (_, m') => (m', i, r + 1) | None => st end
  end.

Theorem sm_len_counts ops : let '(m, i, r) := fold_left sm_stepc ops (sm_empty, 0, 0) in
  SmInv m /\ LenInv m /\ sm_len m + r = i.
Proof.
  assert (G : forall ops m i r, SmInv m -> LenInv m -> sm_len m + r = i ->
     let '(m', i', r') := fold_left sm_stepc ops (m, i, r) in SmInv m' /\ LenInv m' /\ sm_len m' + r' = i').
  { clear. induction ops as [|o t IH]; intros m i r HI HL He; cbn [fold_left]; [auto|].
    destruct o as [f|k]; cbn [sm_stepc].
    - destruct (insert_with f m) as [[k m']|] eqn:E; [|now apply IH].
      destruct (insert_len f m k m' HI HL E) as [A B]. apply IH; [eapply insert_inv; eauto|exact A|lia].
    - destruct (sm_remove k m) as [[v m']|] eqn:E; [|now apply IH].
      destruct (remove_len k m v m' HL E) as [A B]. apply IH; [eapply remove_inv; eauto|exact A|lia]. }
  apply G; [apply empty_inv|reflexivity|reflexivity].
Qed.
End Len.
