(* WorldProofs.v : theorems about the world model that do not need the global invariant. *)
From Coq Require Import List NArith Bool Lia.
Import ListNotations.
Require Import EV.Base EV.Access EV.Query EV.SlotMap EV.Reserve EV.HList EV.Loop EV.World.
Open Scope N_scope.

Section WithBeh.
Variable beh : hinfo -> logent -> N -> script.

(* ---- C16: registration of something already registered returns the existing id, changes
        nothing and delivers nothing (the world is returned unchanged, so in particular no
        handler ran and no notification was recorded) ---- *)
Lemma add_component_idem tag k w :
  alookup tag (w_cby w) = Some k -> add_component beh tag w = ROk k w.
Proof. intros H. unfold add_component. now rewrite H. Qed.

Lemma add_global_event_idem f tag k w :
  alookup tag (w_gby w) = Some k -> add_global_event beh (S f) tag w = ROk k w.
Proof. intros H. cbn [add_global_event]. now rewrite H. Qed.

Lemma add_targeted_event_idem tag k w :
  tag < 20 -> alookup tag (w_tby w) = Some k -> add_targeted_event beh tag w = ROk k w.
Proof.
  intros Hlt H. unfold add_targeted_event.
  assert ((20 <=? tag) = false) as -> by (apply N.leb_gt; lia). cbn [andb].
  assert ((40 <=? tag) = false) as -> by (apply N.leb_gt; lia). cbn [andb].
  destruct (tag =? T_DESPAWN); cbn [rbind]; now rewrite H.
Qed.

Lemma add_insert_event_idem c ck k w :
  c < 20 -> alookup c (w_cby w) = Some ck -> alookup (T_INSERT c) (w_tby w) = Some k ->
  add_targeted_event beh (T_INSERT c) w = ROk k w.
Proof.
  intros Hlt Hc H. unfold add_targeted_event, T_INSERT in *.
  assert ((20 <=? 20 + c) = true) as -> by (apply N.leb_le; lia).
  assert ((20 + c <? 40) = true) as -> by (apply N.ltb_lt; lia). cbn [andb].
  replace (20 + c - 20) with c by lia. rewrite (add_component_idem _ _ _ Hc). cbn [rbind]. now rewrite H.
Qed.

Lemma add_handler_idem sh t k w :
  sh_tid sh = Some t -> alookup t (w_hby w) = Some k -> add_handler beh sh w = ROk k w.
Proof. intros Ht H. unfold add_handler. now rewrite Ht, H. Qed.

(* removal of something that is not registered is a no-op *)
Lemma remove_handler_stale k w : sm_get k (w_hs w) = None -> remove_handler beh k w = ROk false w.
Proof. intros H. unfold remove_handler. now rewrite H. Qed.
Lemma remove_component_stale k w : sm_get k (w_comps w) = None -> remove_component beh k w = ROk false w.
Proof. intros H. unfold remove_component. now rewrite H. Qed.
Lemma remove_global_event_stale k w : sm_get k (w_gev w) = None -> remove_global_event beh k w = ROk false w.
Proof. intros H. unfold remove_global_event. now rewrite H. Qed.
Lemma remove_targeted_event_stale k w : sm_get k (w_tev w) = None -> remove_targeted_event beh k w = ROk false w.
Proof. intros H. unfold remove_targeted_event. now rewrite H. Qed.

(* ---- C04 at world level: the trace of the world model's flush is depth-first ---- *)
Theorem world_flush_depth_first n q w tr s' :
  Loop.flush wst qitem (run_w beh) unwind_w n q (w, None) [] = Some (tr, s', Finished) ->
  deliver_list wst qitem (run_w beh) (rev q) (w, None) tr s'.
Proof.
  intros H. destruct (flush_sound _ _ _ _ _ _ _ _ _ _ H) as (tr0 & -> & Hd). exact Hd.
Qed.
End WithBeh.
