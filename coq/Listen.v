(* Listen.v : the listener tables (C08, C15, C17).
     LInv: in every archetype, the listener list of a targeted event index holds, without
           repetition, exactly the live handlers whose receiver is an event with that index and
           whose filter matches the archetype's component set; the global list of an event index
           holds exactly the live handlers receiving that global event;
     HInv: the handler registry is coherent (stored key, insertion order list, order counter).
   Both are invariants of every call of the driver, for every handler behaviour; hence the
   handlers a delivery runs are exactly the live handlers that should receive the event. *)
From Coq Require Import List NArith Bool Lia Sorted.
Import ListNotations.
Require Import EV.Base EV.ListN EV.Access EV.Query EV.QueryInd EV.SlotMap EV.Reserve EV.HList EV.Loop EV.World EV.SlotMapGet
  EV.ArchProofs EV.WorldFrame EV.Store EV.Graph EV.Effects EV.Reach EV.RemoveComp EV.Member.
Require EV.HListProofs.
Open Scope N_scope.

(* ---------- a view of the archetypes that row / capacity / transition updates do not change ---------- *)
Section GShape.
Context {T : Type} (g : arch -> T).
Hypothesis g_rows : forall a r, g (set_rows a r) = g a.
Hypothesis g_cap : forall a c e, g (set_cap a c e) = g a.
Hypothesis g_edges : forall a i r, g (set_edges a i r) = g a.

Definition gshape_entry (e : sentry) : option T := match e with SOcc a => Some (g a) | SVac _ => None end.
Definition gshape (s : slab) : list (option T) := map gshape_entry (sl_entries s).

Lemma gshape_arch_at w w' : gshape (w_archs w') = gshape (w_archs w) ->
  forall ai, option_map g (arch_at w' ai) = option_map g (arch_at w ai).
Proof.
  intros H ai. unfold arch_at, slab_get.
  assert (E : option_map gshape_entry (nget (sl_entries (w_archs w')) ai) = option_map gshape_entry (nget (sl_entries (w_archs w)) ai)).
  { rewrite <- !nget_map. unfold gshape in H. now rewrite H. }
  destruct (nget (sl_entries (w_archs w')) ai) as [[a'|n']|], (nget (sl_entries (w_archs w)) ai) as [[a|n]|]; cbn in *; congruence.
Qed.

Lemma gshape_set s i a0 a : slab_get s i = Some a0 -> g a = g a0 -> gshape (slab_set s i a) = gshape s.
Proof.
  unfold slab_get, slab_set, gshape. cbn [sl_entries]. intros Hg Hc. destruct (nget (sl_entries s) i) as [[a1|]|] eqn:E; try discriminate. inversion Hg; subst a1.
  revert i E. induction (sl_entries s) as [|h t IH]; intros i E; [discriminate|]. cbn [nget] in E. cbn [nset]. destruct (i =? 0).
  - inversion E; subst h. cbn [map gshape_entry]. now rewrite Hc.
  - cbn [map]. f_equal. eapply IH; eauto.
Qed.

Lemma gshape_upd_edges w ai i r : gshape (w_archs (upd_arch w ai (fun a => set_edges a (i a) (r a)))) = gshape (w_archs w).
Proof. unfold upd_arch. destruct (slab_get (w_archs w) ai) as [a|] eqn:E; [|reflexivity]. cbn [w_archs set_archs]. eapply gshape_set; eauto. Qed.

Lemma g_reserve_one a : g (fst (reserve_one a)) = g a.
Proof. unfold reserve_one. destruct (nlen (a_rows a) =? a_cap a); cbn [fst]; [apply g_cap|reflexivity]. Qed.

Lemma gshape_move_entity w src dst nw : gshape (w_archs (res_world (move_entity w src dst nw))) = gshape (w_archs w).
Proof.
  unfold move_entity. destruct src as [sai srow]. destruct (slab_get (w_archs w) sai) as [sa|] eqn:Hsa; [|reflexivity].
  destruct (sai =? dst) eqn:Esd.
  - destruct nw as [[c v]|]; [|reflexivity]. destruct (nget (a_rows sa) srow) as [[e vals]|]; [|reflexivity]. destruct (col_index (a_comps sa) c); [|reflexivity].
    cbn [res_world w_archs set_archs]. unfold drop_cval. destruct (ctag_has_drop _); cbn [w_archs log_drop set_drops]; (eapply gshape_set; [exact Hsa|apply g_rows]).
  - destruct (slab_get (w_archs w) dst) as [da|] eqn:Hda; [|reflexivity]. destruct (nget (a_rows sa) srow) as [[e vals]|]; [|reflexivity].
    destruct (reserve_one da) as [da1 re] eqn:Hres. destruct (merge_row _ _ _ _ _) as [[dvals killed]|]; [|reflexivity].
    set (w1 := fold_left _ killed w). assert (A1 : w_archs w1 = w_archs w) by apply drops_fold_archs.
    assert (Hc1 : g da1 = g da) by (pose proof (g_reserve_one da) as X; now rewrite Hres in X).
    set (w2 := set_archs w1 _).
    assert (C2 : gshape (w_archs w2) = gshape (w_archs w)).
    { unfold w2. cbn [w_archs set_archs]. rewrite A1. apply N.eqb_neq in Esd.
      erewrite gshape_set; [eapply gshape_set; [exact Hsa|apply g_rows]| |rewrite g_rows; exact Hc1].
      rewrite slab_get_set_neq by exact Esd. exact Hda. }
    assert (Hsl : forall w0 e0 l, w_archs (res_world (set_loc w0 e0 l)) = w_archs w0) by (intros; unfold set_loc; now destruct (sm_get _ _)).
    destruct (set_loc w2 e (dst, nlen (a_rows da1))) as [[] w3|f w3] eqn:E3; cbn [rbind]; [|cbn [res_world]; pose proof (Hsl w2 e (dst, nlen (a_rows da1))) as X; rewrite E3 in X; cbn in X; now rewrite X].
    assert (A3 : w_archs w3 = w_archs w2) by (pose proof (Hsl w2 e (dst, nlen (a_rows da1))) as X; rewrite E3 in X; exact X).
    set (r4 := match nget _ srow with Some _ => _ | None => _ end).
    assert (A4 : w_archs (res_world r4) = w_archs w3).
    { unfold r4. destruct (nget _ srow) as [[se sv]|]; [|reflexivity]. destruct (sm_get se (w_ents w3)); [apply Hsl|reflexivity]. }
    destruct r4 as [[] w4|f w4]; cbn [rbind res_world] in *; [|now rewrite A4, A3].
    destruct (_ || _); destruct (nlen _ =? 0); rewrite ?notify_refresh_archs, ?notify_remove_archs, A4, A3; exact C2.
Qed.

Lemma gshape_remove_entity w loc : gshape (w_archs (res_world (remove_entity w loc))) = gshape (w_archs w).
Proof.
  unfold remove_entity. destruct loc as [ai row]. destruct (slab_get (w_archs w) ai) as [a|] eqn:Ha; [|reflexivity].
  destruct (nget (a_rows a) row) as [[e vals]|]; [|reflexivity].
  set (w1 := fold_left _ (combine (a_comps a) vals) w). assert (A1 : w_archs w1 = w_archs w) by apply drops_fold_archs.
  set (w2 := set_archs w1 _).
  assert (C2 : gshape (w_archs w2) = gshape (w_archs w)) by (unfold w2; cbn [w_archs set_archs]; rewrite A1; eapply gshape_set; [exact Ha|apply g_rows]).
  destruct (sm_remove e (w_ents w2)) as [[v ents']|]; [|exact C2].
  assert (Hsl : forall w0 e0 l, w_archs (res_world (set_loc w0 e0 l)) = w_archs w0) by (intros; unfold set_loc; now destruct (sm_get _ _)).
  set (r4 := match nget _ row with Some _ => _ | None => _ end).
  assert (A4 : w_archs (res_world r4) = w_archs w2).
  { unfold r4. destruct (nget _ row) as [[de dv]|]; [|reflexivity]. destruct (sm_get de _); [rewrite Hsl; reflexivity|reflexivity]. }
  destruct r4 as [[] w4|f w4]; cbn [rbind res_world] in *; [|now rewrite A4].
  destruct (nlen _ =? 0); rewrite ?notify_remove_archs, A4; exact C2.
Qed.

Lemma gshape_arch_spawn w e : gshape (w_archs (snd (arch_spawn w e))) = gshape (w_archs w).
Proof.
  unfold arch_spawn. destruct (slab_get (w_archs w) 0) as [a0|] eqn:Ha; [|reflexivity].
  destruct (reserve_one a0) as [a1 re] eqn:Hres.
  assert (Hc1 : g a1 = g a0) by (pose proof (g_reserve_one a0) as X; now rewrite Hres in X).
  destruct (_ || re); cbn [snd]; rewrite ?notify_refresh_archs; cbn [w_archs set_archs]; (eapply gshape_set; [exact Ha|rewrite g_rows; exact Hc1]).
Qed.
Lemma gshape_spawn_all_n n : forall w, gshape (w_archs (res_world (spawn_all_n n w))) = gshape (w_archs w).
Proof.
  induction n as [|n IH]; intros w; cbn [spawn_all_n]; [reflexivity|].
  destruct (insert_with (fun _ => (0, 0)) (w_ents w)) as [[k m]|]; [|reflexivity].
  pose proof (gshape_arch_spawn w k) as Hs. destruct (arch_spawn w k) as [loc w1]. cbn [snd] in Hs.
  destruct (insert_with (fun _ => loc) (w_ents w1)) as [[k' ents']|]; [|exact Hs]. rewrite IH. exact Hs.
Qed.
Lemma gshape_spawn_all w : gshape (w_archs (res_world (spawn_all w))) = gshape (w_archs w).
Proof.
  unfold spawn_all. pose proof (gshape_spawn_all_n (N.to_nat (w_rcnt w)) w) as H.
  destruct (spawn_all_n _ w) as [[] w1|f w1]; exact H.
Qed.

(* handler bodies: write_arch replaces rows only *)
Lemma gshape_write_arch w q d ai r : gshape (w_archs (write_arch w q d ai r)) = gshape (w_archs w).
Proof.
  unfold write_arch. destruct (slab_get (w_archs w) ai) as [a|] eqn:Ha; [|reflexivity].
  destruct (arch_state (has_of a) q); [|reflexivity]. cbn [w_archs set_archs]. eapply gshape_set; [exact Ha|apply g_rows].
Qed.
End GShape.

(* ---------- views ---------- *)
Definition hstat (h : hinfo) : hinfo := set_params h [].
Definition lview (a : arch) := (a_comps a, a_listeners a).
Definition lshape := gshape lview.
Lemma lview_rows a r : lview (set_rows a r) = lview a. Proof. reflexivity. Qed.
Lemma lview_cap a c e : lview (set_cap a c e) = lview a. Proof. reflexivity. Qed.
Lemma lview_edges a i r : lview (set_edges a i r) = lview a. Proof. reflexivity. Qed.

Definition sview {V W} (f : V -> W) (m : smap V) := (map (fun s => (gen s, link s, option_map f (val s))) (slots m), next_free m).

Lemma sview_sget {V W} (f : V -> W) (m m' : smap V) i : sview f m' = sview f m ->
  option_map (fun s => (gen s, link s, option_map f (val s))) (sget (slots m') i) = option_map (fun s => (gen s, link s, option_map f (val s))) (sget (slots m) i).
Proof. unfold sview. intros H. injection H as Hm _. rewrite !sget_nth, <- !nth_error_map. now rewrite Hm. Qed.

Lemma sview_get {V W} (f : V -> W) (m m' : smap V) k : sview f m' = sview f m -> option_map f (sm_get k m') = option_map f (sm_get k m).
Proof.
  intros H. pose proof (sview_sget f m m' (fst k) H) as E. unfold sm_get.
  destruct (sget (slots m') (fst k)) as [s'|], (sget (slots m) (fst k)) as [s|]; cbn in E; try discriminate; [|reflexivity].
  injection E as Eg _ Ev. rewrite Eg. destruct (gen s =? snd k); [exact Ev|reflexivity].
Qed.

Lemma sview_inv {V W} (f : V -> W) (m m' : smap V) : sview f m' = sview f m -> SmInv m -> SmInv m'.
Proof.
  intros H ((c & Hc & Hnd) & Hok & Hb). pose proof H as H0. unfold sview in H0. injection H0 as Hm Hn.
  assert (Hlen : length (slots m') = length (slots m)) by (rewrite <- (map_length (fun s : slot V => (gen s, link s, option_map f (val s))) (slots m')), Hm; apply map_length).
  assert (Hs : forall i s', sget (slots m') i = Some s' -> exists s, sget (slots m) i = Some s /\ gen s' = gen s /\ link s' = link s /\ (val s' = None <-> val s = None)).
  { intros i s' Hi. pose proof (sview_sget f m m' i H) as E. rewrite Hi in E. destruct (sget (slots m) i) as [s|]; cbn in E; [|discriminate].
    injection E as Eg El Ev. exists s. repeat split; auto; intros X; rewrite X in Ev; cbn in Ev; [destruct (val s)|destruct (val s')]; cbn in Ev; congruence. }
  assert (Hs2 : forall i s, sget (slots m) i = Some s -> exists s', sget (slots m') i = Some s' /\ gen s' = gen s /\ link s' = link s).
  { intros i s Hi. pose proof (sview_sget f m m' i H) as E. rewrite Hi in E. destruct (sget (slots m') i) as [s'|]; cbn in E; [|discriminate].
    injection E as Eg El Ev. exists s'. repeat split; assumption. }
  split; [|split].
  - exists c. split; [|exact Hnd]. rewrite Hn.
    assert (Hch : forall h c0, chain (slots m) h c0 -> chain (slots m') h c0).
    { intros h c0 X. induction X as [|i s rest Hg He Hz Hc' IH]; [constructor|].
      destruct (Hs2 _ _ Hg) as (s' & Hg' & Eg & El). econstructor; [exact Hg'|now rewrite Eg|now rewrite Eg|rewrite El; exact IH]. }
    now apply Hch.
  - intros i s' Hi. destruct (Hs _ _ Hi) as (s & Hg & Eg & _ & Ev). destruct (Hok _ _ Hg) as [A B]. split; [now rewrite Eg|].
    rewrite Eg. rewrite B. split; intros X Y; apply X; tauto.
  - now rewrite Hlen.
Qed.

(* ---------- the invariants ---------- *)
Definition hlive (w : world) (hk : key) (h : hinfo) : Prop := sm_get hk (w_hs w) = Some h.
Definition glist_of (w : world) (idx : N) : list key := match nget (w_glists w) idx with Some l => hl_entries l | None => [] end.

Definition HInv (w : world) : Prop :=
  SmInv (w_hs w) /\
  (forall hk h, hlive w hk h -> h_key h = hk /\ In (h_order h, hk) (w_horder w) /\ h_order h < w_hctr w) /\
  (forall o hk, In (o, hk) (w_horder w) -> exists h, hlive w hk h /\ h_order h = o) /\
  NoDup (map snd (w_horder w)) /\ NoDup (map fst (w_horder w)).

Definition LInv (w : world) : Prop :=
  (forall ai a idx, arch_at w ai = Some a ->
     NoDup (listeners_of a idx) /\
     forall hk, In hk (listeners_of a idx) <->
       exists h ek, hlive w hk h /\ h_recv h = RvTargeted ek /\ fst ek = idx /\ ca_matches (arch_has a) (h_filter h) = true) /\
  (forall idx, NoDup (glist_of w idx) /\
     forall hk, In hk (glist_of w idx) <-> exists h ek, hlive w hk h /\ h_recv h = RvGlobal ek /\ fst ek = idx).

(* the receiver of a live handler is a live event *)
Definition RcvInv (w : world) : Prop :=
  forall hk h, hlive w hk h ->
    match h_recv h with
    | RvGlobal ek => sm_get ek (w_gev w) <> None
    | RvTargeted ek => sm_get ek (w_tev w) <> None
    end.

Definition HL (w : world) : Prop := HInv w /\ LInv w.

(* what HL depends on *)
Definition hreg (w : world) := (sview hstat (w_hs w), w_horder w, w_hctr w, w_glists w).
Definition ereg (w : world) := (sview (fun _ : einfo => tt) (w_gev w), sview (fun _ : einfo => tt) (w_tev w)).

Lemma hstat_fields h : h_key (hstat h) = h_key h /\ h_order (hstat h) = h_order h /\ h_recv (hstat h) = h_recv h /\ h_filter (hstat h) = h_filter h.
Proof. repeat split. Qed.

Lemma hreg_parts w w' : hreg w' = hreg w ->
  sview hstat (w_hs w') = sview hstat (w_hs w) /\ w_horder w' = w_horder w /\ w_hctr w' = w_hctr w /\ w_glists w' = w_glists w.
Proof.
  intros H. repeat split.
  - exact (f_equal (fun t => fst (fst (fst t))) H). - exact (f_equal (fun t => snd (fst (fst t))) H).
  - exact (f_equal (fun t => snd (fst t)) H). - exact (f_equal snd H).
Qed.
Lemma ereg_parts w w' : ereg w' = ereg w ->
  sview (fun _ : einfo => tt) (w_gev w') = sview (fun _ : einfo => tt) (w_gev w) /\ sview (fun _ : einfo => tt) (w_tev w') = sview (fun _ : einfo => tt) (w_tev w).
Proof. intros H. split; [exact (f_equal fst H)|exact (f_equal snd H)]. Qed.

Lemma hreg_live w w' hk h' : hreg w' = hreg w -> hlive w' hk h' -> exists h, hlive w hk h /\ hstat h' = hstat h.
Proof.
  unfold hlive. intros H Hl. destruct (hreg_parts w w' H) as (Hv & _). pose proof (sview_get hstat (w_hs w) (w_hs w') hk Hv) as E. rewrite Hl in E.
  destruct (sm_get hk (w_hs w)) as [h|]; cbn in E; [|discriminate]. exists h. split; [reflexivity|congruence].
Qed.

Lemma stat_eq h h' : hstat h' = hstat h -> h_key h' = h_key h /\ h_order h' = h_order h /\ h_recv h' = h_recv h /\ h_filter h' = h_filter h.
Proof. intros E. pose proof (f_equal h_key E). pose proof (f_equal h_order E). pose proof (f_equal h_recv E). pose proof (f_equal h_filter E). auto. Qed.

Lemma ereg_live w w' : ereg w' = ereg w -> (forall k, sm_get k (w_gev w') <> None <-> sm_get k (w_gev w) <> None) /\ (forall k, sm_get k (w_tev w') <> None <-> sm_get k (w_tev w) <> None).
Proof.
  intros H. destruct (ereg_parts w w' H) as [Hg Ht].
  split; intros k; [pose proof (sview_get (fun _ : einfo => tt) (w_gev w) (w_gev w') k Hg) as E|pose proof (sview_get (fun _ : einfo => tt) (w_tev w) (w_tev w') k Ht) as E];
    match goal with |- ?a <> None <-> ?b <> None => destruct a, b end; cbn in E; split; congruence.
Qed.

Lemma HL_ext w w' : hreg w' = hreg w -> ereg w' = ereg w -> lshape (w_archs w') = lshape (w_archs w) -> HL w -> HL w'.
Proof.
  intros Hh He Hs ((S & H1 & H2 & H3 & H4) & (L1 & L2)).
  destruct (hreg_parts w w' Hh) as (Hv & Ho & Hc & Hg).
  assert (Hfw : forall hk h', hlive w' hk h' -> exists h, hlive w hk h /\ hstat h' = hstat h) by (intros; eapply hreg_live; eauto).
  assert (Hbw : forall hk h, hlive w hk h -> exists h', hlive w' hk h' /\ hstat h' = hstat h).
  { intros hk h Hl. destruct (hreg_live w' w hk h (eq_sym Hh) Hl) as (h' & A & B). eauto. }
  pose proof (gshape_arch_at lview w w' Hs) as Ha.
  assert (Hafw : forall ai a', arch_at w' ai = Some a' -> exists a, arch_at w ai = Some a /\ lview a' = lview a).
  { intros ai a' X. specialize (Ha ai). rewrite X in Ha. destruct (arch_at w ai) as [a|]; cbn in Ha; [|discriminate]. exists a. split; [reflexivity|congruence]. }
  split.
  - split; [eapply sview_inv; eauto|]. rewrite Ho, Hc. split; [|split; [|auto]].
    + intros hk h' Hl. destruct (Hfw _ _ Hl) as (h & Hl0 & Es). destruct (stat_eq _ _ Es) as (A & B & _). rewrite A, B. now apply H1.
    + intros o hk Hin. destruct (H2 o hk Hin) as (h & Hl & Eo). destruct (Hbw _ _ Hl) as (h' & Hl' & Es). exists h'. split; [exact Hl'|].
      destruct (stat_eq _ _ Es) as (_ & B & _). congruence.
  - split.
    + intros ai a' idx Ha'. destruct (Hafw _ _ Ha') as (a & Ha0 & Ev). injection Ev as Ec El.
      assert (Elo : listeners_of a' idx = listeners_of a idx) by (unfold listeners_of; now rewrite El).
      assert (Eh : arch_has a' = arch_has a) by (unfold arch_has; now rewrite Ec).
      destruct (L1 ai a idx Ha0) as [Hnd Hm]. rewrite Elo, Eh. split; [exact Hnd|]. intros hk. rewrite Hm. split.
      * intros (h & ek & Hl & Hr & Hi & Hf). destruct (Hbw _ _ Hl) as (h' & Hl' & Es). destruct (stat_eq _ _ Es) as (_ & _ & C & D).
        exists h', ek. rewrite C, D. auto.
      * intros (h' & ek & Hl & Hr & Hi & Hf). destruct (Hfw _ _ Hl) as (h & Hl0 & Es). destruct (stat_eq _ _ Es) as (_ & _ & C & D).
        exists h, ek. rewrite <- C, <- D. auto.
    + intros idx. unfold glist_of. rewrite Hg. destruct (L2 idx) as [Hnd Hm]. split; [exact Hnd|]. intros hk. unfold glist_of in Hm. rewrite Hm. split.
      * intros (h & ek & Hl & Hr & Hi). destruct (Hbw _ _ Hl) as (h' & Hl' & Es). destruct (stat_eq _ _ Es) as (_ & _ & C & _). exists h', ek. rewrite C. auto.
      * intros (h' & ek & Hl & Hr & Hi). destruct (Hfw _ _ Hl) as (h & Hl0 & Es). destruct (stat_eq _ _ Es) as (_ & _ & C & _). exists h, ek. rewrite <- C. auto.
Qed.

(* ---------- frames of the registry views ---------- *)
Lemma sview_upd_index {V W} (f : V -> W) (m : smap V) i (u : V -> V) : (forall v, f (u v) = f v) -> sview f (upd_by_index m i u) = sview f m.
Proof.
  intros Hu. unfold sview, upd_by_index. destruct (sget (slots m) i) as [s|] eqn:Es; [|reflexivity]. destruct (val s) as [v|] eqn:Ev; [|reflexivity].
  cbn [slots next_free]. f_equal. eapply supd_map; [exact Es|]. cbn [gen link val option_map]. now rewrite Ev, Hu.
Qed.
Lemma sview_upd_key {V W} (f : V -> W) (m : smap V) k (u : V -> V) : (forall v, f (u v) = f v) -> sview f (upd_by_key m k u) = sview f m.
Proof. intros Hu. unfold upd_by_key. destruct (sm_get k m); [now apply sview_upd_index|reflexivity]. Qed.
Lemma sview_fold_upd_key {V W} (f : V -> W) (u : key -> V -> V) ks : (forall k v, f (u k v) = f v) -> forall (m : smap V),
  sview f (fold_left (fun hs hk => upd_by_key hs hk (u hk)) ks m) = sview f m.
Proof. intros Hu. induction ks as [|k ks IH]; intros m; cbn [fold_left]; [reflexivity|]. rewrite IH. apply sview_upd_key. apply Hu. Qed.

Lemma hstat_refresh ai a h : hstat (h_refresh ai a h) = hstat h. Proof. reflexivity. Qed.
Lemma hstat_remove_arch ai h : hstat (h_remove_arch ai h) = hstat h. Proof. reflexivity. Qed.
Lemma hstat_register ai a h : hstat (snd (register_handler ai a h)) = hstat h.
Proof.
  unfold register_handler. destruct (ca_matches (arch_has a) (h_archfilter h)); destruct (h_recv h); cbn [snd];
    repeat match goal with |- context [if ?b then _ else _] => destruct b end; reflexivity.
Qed.

Lemma hreg_notify_refresh w ai : hreg (notify_refresh w ai) = hreg w.
Proof.
  unfold notify_refresh. destruct (slab_get (w_archs w) ai) as [a|]; [|reflexivity]. unfold hreg. cbn [w_hs w_horder w_hctr w_glists set_hs].
  f_equal. f_equal. f_equal. apply (sview_fold_upd_key hstat (fun _ => h_refresh ai a)). intros. apply hstat_refresh.
Qed.
Lemma hreg_notify_remove_with w ai a : hreg (notify_remove_with w ai a) = hreg w.
Proof.
  unfold notify_remove_with, hreg. cbn [w_hs w_horder w_hctr w_glists set_hs].
  f_equal. f_equal. f_equal. apply (sview_fold_upd_key hstat (fun _ => h_remove_arch ai)). intros. apply hstat_remove_arch.
Qed.

(* the fold of Archetype::register_handler over the handlers in insertion order *)
Definition reg_step (ai : N) : arch * smap hinfo -> N * key -> arch * smap hinfo :=
  fun '(a, hs) '(_, hk) =>
  match sm_get hk hs with
  | Some h => let '(a', h') := register_handler ai a h in (a', upd_by_key hs hk (fun _ => h'))
  | None => (a, hs) end.

Lemma create_arch_reg w cs ins rem :
  let ai := slab_vacant_key (w_archs w) in
  let r := fold_left (reg_step ai) (w_horder w) (mkA (w_auid w) cs [] 0 0 ins rem [] [], w_hs w) in
  w_hs (snd (create_arch w cs ins rem)) = snd r /\
  w_archs (snd (create_arch w cs ins rem)) = slab_insert (w_archs w) (fst r) /\
  w_horder (snd (create_arch w cs ins rem)) = w_horder w /\ w_hctr (snd (create_arch w cs ins rem)) = w_hctr w /\
  w_glists (snd (create_arch w cs ins rem)) = w_glists w /\ w_gev (snd (create_arch w cs ins rem)) = w_gev w /\ w_tev (snd (create_arch w cs ins rem)) = w_tev w.
Proof.
  cbn zeta. unfold create_arch.
  match goal with |- context [fold_left ?g (w_horder ?w1) ?init] =>
    assert (E : fold_left g (w_horder w1) init = fold_left (reg_step (slab_vacant_key (w_archs w))) (w_horder w) (mkA (w_auid w) cs [] 0 0 ins rem [] [], w_hs w)) end.
  { reflexivity. }
  rewrite E. destruct (fold_left (reg_step _) (w_horder w) _) as [a1 hs1]. cbn [fst snd w_hs w_archs w_horder w_hctr w_glists w_gev w_tev set_archs set_aidx set_hs set_comps]. repeat split.
Qed.

Lemma sview_upd_key_at {V W} (f : V -> W) (m : smap V) k (u : V -> V) v0 : sm_get k m = Some v0 -> f (u v0) = f v0 -> sview f (upd_by_key m k u) = sview f m.
Proof.
  intros Hg Hu. unfold upd_by_key. rewrite Hg. destruct (sm_get_some_inv _ _ _ Hg) as (s & Hs & _ & Hv).
  unfold sview, upd_by_index. rewrite Hs, Hv. cbn [slots next_free]. f_equal. eapply supd_map; [exact Hs|]. cbn [gen link val option_map]. now rewrite Hv, Hu.
Qed.

Lemma sview_reg_fold ai l : forall a hs, sview hstat (snd (fold_left (reg_step ai) l (a, hs))) = sview hstat hs.
Proof.
  induction l as [|[o hk] l IH]; intros a hs; cbn [fold_left]; [reflexivity|]. unfold reg_step at 2.
  destruct (sm_get hk hs) as [h|] eqn:E; [|apply IH]. pose proof (hstat_register ai a h) as Hs. destruct (register_handler ai a h) as [a' h']. cbn [snd] in Hs.
  rewrite IH. eapply sview_upd_key_at; [exact E|exact Hs].
Qed.

Lemma hreg_create_arch w cs ins rem : hreg (snd (create_arch w cs ins rem)) = hreg w.
Proof.
  destruct (create_arch_reg w cs ins rem) as (A & _ & B & C & D & _). unfold hreg. rewrite A, B, C, D. f_equal. f_equal. f_equal. apply sview_reg_fold.
Qed.

Ltac hfr := intros; first [reflexivity | apply hreg_notify_refresh | apply hreg_notify_remove_with | apply hreg_create_arch].
Ltac efr := fr.

Lemma ereg_create_arch w cs ins rem : ereg (snd (create_arch w cs ins rem)) = ereg w.
Proof. destruct (create_arch_reg w cs ins rem) as (_ & _ & _ & _ & _ & A & B). unfold ereg. now rewrite A, B. Qed.

(* ---------- register_handler and the listener lists ---------- *)
Lemma ninsert_nodup {A} (l : list A) : forall i h, NoDup l -> ~ In h l -> NoDup (ninsert l i h).
Proof.
  induction l as [|y t IH]; intros i h Hnd Hn; cbn [ninsert]; [constructor; [intros []|constructor]|].
  destruct (i =? 0); [constructor; assumption|]. inversion Hnd; subst. constructor.
  - rewrite ninsert_in. intros [->|X]; [apply Hn; now left|contradiction].
  - apply IH; [assumption|]. intros X. apply Hn. now right.
Qed.
Lemma hl_insert_nodup {H} (l : hlist H) h p : NoDup (hl_entries l) -> ~ In h (hl_entries l) -> NoDup (hl_entries (hl_insert l h p)).
Proof.
  intros Hnd Hn. unfold hl_insert. destruct p; cbn [hl_entries]; try (now apply ninsert_nodup). now apply NoDup_app_snoc.
Qed.

Lemma reg_arch_has ai a h : arch_has (fst (register_handler ai a h)) = arch_has a.
Proof. destruct (register_handler_core ai a h) as (Hc & _). unfold arch_has. now rewrite Hc. Qed.

Lemma reg_listeners_other ai a h idx :
  (forall ek, h_recv h = RvTargeted ek -> fst ek <> idx) -> listeners_of (fst (register_handler ai a h)) idx = listeners_of a idx.
Proof.
  intros Hne. unfold register_handler.
  destruct (ca_matches (arch_has a) (h_archfilter h)); destruct (h_recv h) as [ek|ek] eqn:Er; cbn [fst]; try reflexivity;
    (destruct (ca_matches (arch_has a) (h_filter h)); cbn [fst]; [|reflexivity]);
    unfold listeners_of, listeners_insert; cbn [a_listeners set_tables];
    (destruct (alookup (fst ek) (a_listeners a)); rewrite alookup_ainsert_neq; [reflexivity|intros X; eapply Hne; eauto|reflexivity|intros X; eapply Hne; eauto]).
Qed.

Lemma reg_listeners_nodup ai a h ek : h_recv h = RvTargeted ek ->
  NoDup (listeners_of a (fst ek)) -> ~ In (h_key h) (listeners_of a (fst ek)) -> NoDup (listeners_of (fst (register_handler ai a h)) (fst ek)).
Proof.
  intros Hr Hnd Hn. unfold register_handler. rewrite Hr.
  destruct (ca_matches (arch_has a) (h_archfilter h)); cbn [fst snd];
    (destruct (ca_matches (arch_has a) (h_filter h)); cbn [fst]; [|exact Hnd]);
    unfold listeners_of, listeners_insert in *; cbn [a_listeners set_tables] in *;
    (destruct (alookup (fst ek) (a_listeners a)) as [l|] eqn:El; rewrite alookup_ainsert_eq; apply hl_insert_nodup; auto; cbn; try constructor; intros []).
Qed.

Lemma upd_key_get_other {V} (m : smap V) k (u : V -> V) x : x <> k -> sm_get x (upd_by_key m k u) = sm_get x m.
Proof.
  intros Hne. unfold upd_by_key. destruct (sm_get k m) as [v|] eqn:E; [|reflexivity].
  destruct (N.eq_dec (fst x) (fst k)) as [Ei|Ei]; [|now apply upd_get_neq].
  rewrite (upd_get_same_index m k u x v E Ei Hne). destruct (sm_get_some_inv _ _ _ E) as (s & Hs & Hg & _).
  unfold sm_get. rewrite Ei, Hs. destruct (gen s =? snd x) eqn:G; [|reflexivity]. apply N.eqb_eq in G. exfalso. apply Hne. destruct x, k. cbn in *. congruence.
Qed.
Lemma upd_key_get_self {V} (m : smap V) k (u : V -> V) v : sm_get k m = Some v -> sm_get k (upd_by_key m k u) = Some (u v).
Proof. intros E. unfold upd_by_key. rewrite E. now apply upd_get_eq. Qed.

Definition lmatch (hs : smap hinfo) (cs_has : N -> bool) (idx : N) (x : key) : Prop :=
  exists h ek, sm_get x hs = Some h /\ h_recv h = RvTargeted ek /\ fst ek = idx /\ ca_matches cs_has (h_filter h) = true.

Lemma reg_fold_listeners ai idx (L : list (N * key)) : forall a hs,
  NoDup (map snd L) -> (forall x, In x (map snd L) -> ~ In x (listeners_of a idx)) ->
  (forall hk h, sm_get hk hs = Some h -> h_key h = hk) -> NoDup (listeners_of a idx) ->
  let r := fold_left (reg_step ai) L (a, hs) in
  arch_has (fst r) = arch_has a /\ NoDup (listeners_of (fst r) idx) /\
  forall x, In x (listeners_of (fst r) idx) <-> In x (listeners_of a idx) \/ (In x (map snd L) /\ lmatch hs (arch_has a) idx x).
Proof.
  induction L as [|[o hk] L IH]; intros a hs Hnd Hfresh Hkey Hnda; cbn zeta; cbn [fold_left map snd].
  - split; [reflexivity|]. split; [exact Hnda|]. intros x. cbn. tauto.
  - inversion Hnd as [|? ? Hni Hnd']; subst.
    change (reg_step ai (a, hs) (o, hk)) with (match sm_get hk hs with Some h => let '(a', h') := register_handler ai a h in (a', upd_by_key hs hk (fun _ => h')) | None => (a, hs) end).
    destruct (sm_get hk hs) as [h|] eqn:E.
    + pose proof (Hkey hk h E) as Hk. pose proof (reg_arch_has ai a h) as Hah. pose proof (hstat_register ai a h) as Hst.
      destruct (register_handler ai a h) as [a1 h1] eqn:Er. cbn [fst snd] in *.
      assert (Ha1 : a1 = fst (register_handler ai a h)) by now rewrite Er.
      set (hs1 := upd_by_key hs hk (fun _ => h1)).
      assert (Hget1 : forall x, x <> hk -> sm_get x hs1 = sm_get x hs) by (intros; now apply upd_key_get_other).
      assert (Hkey1 : forall k0 h0, sm_get k0 hs1 = Some h0 -> h_key h0 = k0).
      { intros k0 h0 X. destruct (key_eq_dec k0 hk) as [->|Hne].
        - unfold hs1 in X. rewrite (upd_key_get_self hs hk _ h E) in X. inversion X; subst h0. destruct (stat_eq _ _ Hst) as (A & _). congruence.
        - rewrite Hget1 in X by exact Hne. now apply Hkey. }
      (* what the step did to the list of [idx] *)
      assert (Hstep : NoDup (listeners_of a1 idx) /\ forall x, In x (listeners_of a1 idx) <-> In x (listeners_of a idx) \/ (x = hk /\ lmatch hs (arch_has a) idx x)).
      { destruct (h_recv h) as [ek|ek] eqn:Hr.
        - rewrite Ha1, reg_listeners_other by (intros ek' X; rewrite Hr in X; discriminate). split; [exact Hnda|]. intros x. split; [tauto|].
          intros [X|[-> (h0 & ek0 & Y & Z & _)]]; [exact X|]. rewrite E in Y. inversion Y; subst h0. congruence.
        - destruct (N.eq_dec (fst ek) idx) as [<-|Hne].
          + split.
            * rewrite Ha1. apply reg_listeners_nodup; [exact Hr|exact Hnda|]. rewrite Hk. apply Hfresh. now left.
            * intros x. rewrite Ha1, (register_handler_listens ai a h ek Hr). rewrite Hk. split.
              -- intros [[-> Hm]|X]; [right; split; [reflexivity|]; exists h, ek; auto|now left].
              -- intros [X|[-> (h0 & ek0 & Y & Z & W & Hm)]]; [now right|]. rewrite E in Y. inversion Y; subst h0. left. auto.
          + rewrite Ha1, reg_listeners_other by (intros ek' X; rewrite Hr in X; inversion X; subst; exact Hne). split; [exact Hnda|]. intros x. split; [tauto|].
            intros [X|[-> (h0 & ek0 & Y & Z & W & _)]]; [exact X|]. rewrite E in Y. inversion Y; subst h0. rewrite Hr in Z. inversion Z; subst. contradiction. }
      destruct Hstep as [Hnd1 Hin1].
      assert (Hfresh1 : forall x, In x (map snd L) -> ~ In x (listeners_of a1 idx)).
      { intros x Hx X. apply Hin1 in X as [X|[-> _]]; [apply (Hfresh x); [now right|exact X]|contradiction]. }
      destruct (IH a1 hs1 Hnd' Hfresh1 Hkey1 Hnd1) as (A & B & C). cbn zeta in *. split; [congruence|]. split; [exact B|].
      intros x. rewrite C, Hin1. rewrite Hah. split.
      * intros [[X|[-> X]]|[X (h0 & ek0 & Y & Z)]]; [now left|right; split; [now left|exact X]|].
        right. split; [now right|]. assert (x <> hk) by (intros ->; contradiction). rewrite Hget1 in Y by assumption. exists h0, ek0. auto.
      * intros [X|[[<-|X] Y]]; [left; now left|left; right; auto|]. right. split; [exact X|].
        assert (x <> hk) by (intros ->; contradiction). destruct Y as (h0 & ek0 & Y & Z). exists h0, ek0. rewrite Hget1 by assumption. auto.
    + assert (Hfresh' : forall x, In x (map snd L) -> ~ In x (listeners_of a idx)) by (intros x Hx; apply Hfresh; now right).
      destruct (IH a hs Hnd' Hfresh' Hkey Hnda) as (A & B & C). cbn zeta in *. split; [exact A|]. split; [exact B|].
      intros x. rewrite C. split; [intros [X|[X Y]]; [now left|right; split; [now right|exact Y]]|].
      intros [X|[[<-|X] Y]]; [now left| |right; auto]. destruct Y as (h0 & ek0 & Y & _). congruence.
Qed.

(* ---------- component-wise extensionality ---------- *)
Lemma hlive_equiv w w' : hreg w' = hreg w ->
  (forall hk h', hlive w' hk h' -> exists h, hlive w hk h /\ hstat h' = hstat h) /\
  (forall hk h, hlive w hk h -> exists h', hlive w' hk h' /\ hstat h' = hstat h).
Proof.
  intros Hh. split; [intros; eapply hreg_live; eauto|]. intros hk h Hl. destruct (hreg_live w' w hk h (eq_sym Hh) Hl) as (h' & A & B). eauto.
Qed.

Lemma HInv_ext w w' : hreg w' = hreg w -> HInv w -> HInv w'.
Proof.
  intros Hh (S & H1 & H2 & H3 & H4). destruct (hreg_parts w w' Hh) as (Hv & Ho & Hc & Hg). destruct (hlive_equiv w w' Hh) as [Hfw Hbw].
  split; [eapply sview_inv; eauto|]. rewrite Ho, Hc. split; [|split; [|auto]].
  - intros hk h' Hl. destruct (Hfw _ _ Hl) as (h & Hl0 & Es). destruct (stat_eq _ _ Es) as (A & B & _). rewrite A, B. now apply H1.
  - intros o hk Hin. destruct (H2 o hk Hin) as (h & Hl & Eo). destruct (Hbw _ _ Hl) as (h' & Hl' & Es). exists h'. split; [exact Hl'|].
    destruct (stat_eq _ _ Es) as (_ & B & _). congruence.
Qed.
Lemma RcvInv_ext w w' : hreg w' = hreg w -> ereg w' = ereg w -> RcvInv w -> RcvInv w'.
Proof.
  intros Hh He R hk h' Hl. destruct (hlive_equiv w w' Hh) as [Hfw _]. destruct (ereg_live w w' He) as [Eg Et].
  destruct (Hfw _ _ Hl) as (h & Hl0 & Es). destruct (stat_eq _ _ Es) as (_ & _ & C & _). rewrite C. specialize (R hk h Hl0).
  destruct (h_recv h); [now apply Eg|now apply Et].
Qed.
Lemma lmatch_equiv w w' has idx x : hreg w' = hreg w -> (lmatch (w_hs w') has idx x <-> lmatch (w_hs w) has idx x).
Proof.
  intros Hh. destruct (hlive_equiv w w' Hh) as [Hfw Hbw]. unfold lmatch. split.
  - intros (h' & ek & Hl & Hr & Hi & Hf). destruct (Hfw _ _ Hl) as (h & Hl0 & Es). destruct (stat_eq _ _ Es) as (_ & _ & C & D). exists h, ek. rewrite <- C, <- D. auto.
  - intros (h & ek & Hl & Hr & Hi & Hf). destruct (Hbw _ _ Hl) as (h' & Hl' & Es). destruct (stat_eq _ _ Es) as (_ & _ & C & D). exists h', ek. rewrite C, D. auto.
Qed.
Lemma LInv_global_ext w w' : hreg w' = hreg w ->
  (forall idx, NoDup (glist_of w idx) /\ forall hk, In hk (glist_of w idx) <-> exists h ek, hlive w hk h /\ h_recv h = RvGlobal ek /\ fst ek = idx) ->
  (forall idx, NoDup (glist_of w' idx) /\ forall hk, In hk (glist_of w' idx) <-> exists h ek, hlive w' hk h /\ h_recv h = RvGlobal ek /\ fst ek = idx).
Proof.
  intros Hh L2 idx. destruct (hreg_parts w w' Hh) as (_ & _ & _ & Hg). destruct (hlive_equiv w w' Hh) as [Hfw Hbw].
  unfold glist_of. rewrite Hg. destruct (L2 idx) as [Hnd Hm]. split; [exact Hnd|]. intros hk. unfold glist_of in Hm. rewrite Hm. split.
  - intros (h & ek & Hl & Hr & Hi). destruct (Hbw _ _ Hl) as (h' & Hl' & Es). destruct (stat_eq _ _ Es) as (_ & _ & C & _). exists h', ek. rewrite C. auto.
  - intros (h' & ek & Hl & Hr & Hi). destruct (Hfw _ _ Hl) as (h & Hl0 & Es). destruct (stat_eq _ _ Es) as (_ & _ & C & _). exists h, ek. rewrite <- C. auto.
Qed.

(* LInv's archetype clause in terms of lmatch *)
Lemma LInv_arch_iff w : (forall ai a idx, arch_at w ai = Some a -> NoDup (listeners_of a idx) /\ forall hk, In hk (listeners_of a idx) <-> lmatch (w_hs w) (arch_has a) idx hk) <->
  (forall ai a idx, arch_at w ai = Some a ->
     NoDup (listeners_of a idx) /\
     forall hk, In hk (listeners_of a idx) <->
       exists h ek, hlive w hk h /\ h_recv h = RvTargeted ek /\ fst ek = idx /\ ca_matches (arch_has a) (h_filter h) = true).
Proof. unfold lmatch, hlive. tauto. Qed.

(* ---------- create_arch ---------- *)
Lemma create_arch_HL w cs ins rem : HL w -> SlabInv (w_archs w) -> HL (snd (create_arch w cs ins rem)).
Proof.
  intros (HI & (L1 & L2)) Hs. pose proof (hreg_create_arch w cs ins rem) as Hh.
  set (w1 := snd (create_arch w cs ins rem)) in *.
  split; [eapply HInv_ext; eauto|]. split; [|eapply LInv_global_ext; eauto].
  assert (L1' : forall ai a idx, arch_at w ai = Some a -> NoDup (listeners_of a idx) /\ forall hk, In hk (listeners_of a idx) <-> lmatch (w_hs w) (arch_has a) idx hk) by exact L1.
  clear L1. rename L1' into L1.
  enough (G : forall ai a idx, arch_at w1 ai = Some a -> NoDup (listeners_of a idx) /\ forall hk, In hk (listeners_of a idx) <-> lmatch (w_hs w1) (arch_has a) idx hk) by exact G.
  destruct (create_arch_reg w cs ins rem) as (_ & Harchs & _). cbn zeta in Harchs. fold w1 in Harchs.
  set (a0 := mkA (w_auid w) cs [] 0 0 ins rem [] []) in *. set (vk := slab_vacant_key (w_archs w)) in *.
  set (r := fold_left (reg_step vk) (w_horder w) (a0, w_hs w)) in *.
  destruct (slab_insert_spec (w_archs w) (fst r) Hs) as (Hnew & Hvac & Hoth & _). fold vk in Hnew, Hvac, Hoth.
  intros ai a idx Ha. unfold arch_at in Ha. rewrite Harchs in Ha. destruct (N.eq_dec ai vk) as [->|Hne].
  - rewrite Hnew in Ha. inversion Ha; subst a. destruct HI as (_ & H1 & _ & H3 & _).
    destruct (reg_fold_listeners vk idx (w_horder w) a0 (w_hs w) H3) as (A & B & C).
    + intros x _ X. unfold listeners_of in X. cbn in X. exact X.
    + intros hk h Hl. exact (proj1 (H1 hk h Hl)).
    + unfold listeners_of. cbn. constructor.
    + cbn zeta in A, B, C. fold r in A, B, C. split; [exact B|]. intros hk. rewrite C, A. rewrite (lmatch_equiv w w1 (arch_has a0) idx hk Hh). split.
      * intros [X|[_ X]]; [unfold listeners_of in X; cbn in X; destruct X|exact X].
      * intros X. right. split; [|exact X]. destruct X as (h & ek & Hl & _). destruct (H1 hk h Hl) as (_ & Hin & _).
        apply in_map_iff. exists (h_order h, hk). auto.
  - rewrite Hoth in Ha by exact Hne. destruct (L1 ai a idx Ha) as [Hnd Hm]. split; [exact Hnd|]. intros hk. rewrite Hm. symmetry. apply lmatch_equiv. exact Hh.
Qed.

(* ---------- effect primitives ---------- *)
Lemma HL_frame w w' : hreg w' = hreg w -> ereg w' = ereg w -> lshape (w_archs w') = lshape (w_archs w) -> HL w -> HL w'.
Proof. apply HL_ext. Qed.

Lemma HL_move_entity w src dst nw : HL w -> HL (res_world (move_entity w src dst nw)).
Proof. apply HL_frame; [apply (r_move_entity hreg); hfr|apply (r_move_entity ereg); fr|apply (gshape_move_entity lview lview_rows lview_cap)]. Qed.
Lemma HL_remove_entity w loc : HL w -> HL (res_world (remove_entity w loc)).
Proof. apply HL_frame; [apply (r_remove_entity hreg); hfr|apply (r_remove_entity ereg); fr|apply (gshape_remove_entity lview lview_rows)]. Qed.
Lemma HL_spawn_all w : HL w -> HL (res_world (spawn_all w)).
Proof. apply HL_frame; [apply (r_spawn_all hreg); hfr|apply (r_spawn_all ereg); fr|apply (gshape_spawn_all lview lview_rows lview_cap)]. Qed.
Lemma HL_upd_edges w ai i r : HL w -> HL (upd_arch w ai (fun a => set_edges a (i a) (r a))).
Proof. apply HL_frame; [apply (r_upd_arch hreg); hfr|apply (r_upd_arch ereg); fr|apply (gshape_upd_edges lview lview_edges)]. Qed.

Lemma traverse_insert_HL w src c : HL w -> SlabInv (w_archs w) -> HL (res_world (traverse_insert w src c)).
Proof.
  intros H Hs. unfold traverse_insert. destruct (slab_get (w_archs w) src) as [sa|]; [|exact H].
  destruct (alookup c (a_ins sa)); [exact H|]. destruct (arch_has sa c); [exact H|].
  destruct (aby_lookup w (sorted_insert c (a_comps sa))); cbn [res_world].
  - apply (HL_upd_edges w src (fun a => ainsert c n (a_ins a)) a_rem H).
  - pose proof (create_arch_HL w (sorted_insert c (a_comps sa)) [] [(c, src)] H Hs) as Hc.
    destruct (create_arch w (sorted_insert c (a_comps sa)) [] [(c, src)]) as [d w1]. cbn [snd res_world] in *.
    apply (HL_upd_edges w1 src (fun a => ainsert c d (a_ins a)) a_rem Hc).
Qed.
Lemma traverse_remove_HL w src c : HL w -> SlabInv (w_archs w) -> HL (res_world (traverse_remove w src c)).
Proof.
  intros H Hs. unfold traverse_remove. destruct (slab_get (w_archs w) src) as [sa|]; [|exact H].
  destruct (alookup c (a_rem sa)); [exact H|]. destruct (negb (arch_has sa c)); [exact H|].
  destruct (aby_lookup w (filter (fun x => negb (x =? c)) (a_comps sa))); cbn [res_world].
  - apply (HL_upd_edges w src a_ins (fun a => ainsert c n (a_rem a)) H).
  - pose proof (create_arch_HL w (filter (fun x => negb (x =? c)) (a_comps sa)) [(c, src)] [] H Hs) as Hc.
    destruct (create_arch w (filter (fun x => negb (x =? c)) (a_comps sa)) [(c, src)] []) as [d w1]. cbn [snd res_world] in *.
    apply (HL_upd_edges w1 src a_ins (fun a => ainsert c d (a_rem a)) Hc).
Qed.

Lemma builtin_effect_HL kind ev loc w : HL w -> SlabInv (w_archs w) -> HL (res_world (builtin_effect kind ev loc w)).
Proof.
  intros H Hs. destruct kind as [|c|c| |]; cbn [builtin_effect].
  - exact H.
  - pose proof (traverse_insert_HL w (fst loc) c H Hs) as X. destruct (traverse_insert w (fst loc) c) as [d w2|f w2]; cbn [rbind res_world] in *; [|exact X]. now apply HL_move_entity.
  - pose proof (traverse_remove_HL w (fst loc) c H Hs) as X. destruct (traverse_remove w (fst loc) c) as [d w2|f w2]; cbn [rbind res_world] in *; [|exact X]. now apply HL_move_entity.
  - now apply HL_spawn_all.
  - pose proof (HL_spawn_all w H) as X. destruct (spawn_all w) as [[] w2|f w2]; cbn [rbind res_world] in *; [|exact X].
    pose proof (HL_remove_entity w2 loc X) as Y. destruct (remove_entity w2 loc) as [[] w3|f w3]; cbn [rbind res_world] in *; exact Y.
Qed.

(* handler bodies: the extended structure is unchanged *)
Lemma structureL_views w w' : structureL w' = structureL w ->
  hreg w' = hreg w /\ lshape (w_archs w') = lshape (w_archs w) /\ structure w' = structure w.
Proof.
  unfold structureL. intros H. injection H as Hhs Hho Hhc Hgl Hhb Hcb He Hc Hsh Hn Hb.
  split; [unfold hreg; now rewrite Hhs, Hho, Hhc, Hgl|]. split.
  - unfold lshape, gshape. set (g := fun x : (N * N * N * list N * list (key * nat) * list (N * N) * list (N * N) * list key * list (N * hlist key)) + N =>
      match x with inl (_, _, _, cs, _, _, _, _, ls) => Some (cs, ls) | inr _ => None end).
    assert (Hce : forall l, map (gshape_entry lview) l = map g (map ashapeL l)) by (intros l; rewrite map_map; apply map_ext; intros [a|n]; reflexivity).
    now rewrite !Hce, Hsh.
  - unfold structure. rewrite Hcb, He, Hc, Hn, Hb. f_equal. f_equal. f_equal.
    set (g := fun x : (N * N * N * list N * list (key * nat) * list (N * N) * list (N * N) * list key * list (N * hlist key)) + N =>
      match x with inl (_, _, _, cs, rs, i, r, _, _) => inl (cs, rs, i, r) | inr v => inr v end).
    assert (Hce : forall l, map ashape l = map g (map ashapeL l)) by (intros l; rewrite map_map; apply map_ext; intros [a|n]; reflexivity).
    now rewrite !Hce, Hsh.
Qed.

Definition AInv (w : world) : Prop := FInv w /\ HL w.

Section WithBeh.
Variable beh : hinfo -> logent -> N -> script.

Lemma ereg_run_handlers hl w it tag loc sent : ereg (fst (fst (fst (fst (run_handlers beh hl w it tag loc sent))))) = ereg w.
Proof. apply (r_run_handlers ereg); fr. Qed.
Lemma ereg_ev_drop w t tag ev : ereg (ev_drop w t tag ev) = ereg w.
Proof. apply (r_ev_drop ereg); fr. Qed.
Lemma HL_ev_drop w t tag ev : HL w -> HL (ev_drop w t tag ev).
Proof. destruct (structureL_views w (ev_drop w t tag ev) (sl_ev_drop w t tag ev)) as (A & B & _). apply HL_frame; [exact A|apply ereg_ev_drop|exact B]. Qed.

Theorem deliver_one_HL it w : WInv w -> HL w -> HL (snd (fst (deliver_one beh it w))).
Proof.
  intros HW HH. unfold deliver_one.
  assert (Hfin : forall tag kind hl loc,
            HL (snd (fst (let '(w1, ev, sent, taken, fl) := run_handlers beh hl w it tag loc [] in
              match fl with
              | Some f => (sent, (if taken then w1 else ev_drop w1 (qi_targeted it) tag ev), Some f)
              | None => if taken then (sent, w1, None) else
                  match kind with
                  | KNormal => (sent, ev_drop w1 (qi_targeted it) tag ev, None)
                  | _ => let '(w3, f) := fail_of (builtin_effect kind ev loc w1) in (sent, w3, f)
                  end
              end)))).
  { intros tag kind hl loc. pose proof (handlers_preserve_structureL beh hl w it tag loc []) as Hs.
    pose proof (ereg_run_handlers hl w it tag loc []) as He.
    destruct (run_handlers beh hl w it tag loc []) as [[[[w1 ev] sent] taken] fl]. cbn [fst] in Hs, He.
    destruct (structureL_views w w1 Hs) as (A & B & C).
    assert (H1 : HL w1) by (eapply HL_frame; eauto).
    assert (HW1 : WInv w1) by (eapply WInv_structure; eauto).
    destruct fl as [f|]; [cbn [fst snd]; destruct taken; [exact H1|now apply HL_ev_drop]|].
    destruct taken; [exact H1|].
    assert (Heff : HL (fst (fail_of (builtin_effect kind ev loc w1)))).
    { pose proof (builtin_effect_HL kind ev loc w1 H1 (proj1 (proj1 (proj2 HW1)))) as H. destruct (builtin_effect kind ev loc w1); exact H. }
    destruct kind; try (destruct (fail_of _) as [w3 f]; exact Heff). cbn [fst snd]. now apply HL_ev_drop. }
  destruct (qi_targeted it).
  - destruct (get_by_index (w_tev w) (qi_idx it)) as [[k info]|]; [|exact HH].
    destruct (sm_get (qi_target it) (w_ents w)) as [loc|]; [|cbn [fst snd]; now apply HL_ev_drop].
    destruct (slab_get (w_archs w) (fst loc)); [|exact HH]. apply Hfin.
  - destruct (get_by_index (w_gev w) (qi_idx it)) as [[k info]|]; [|exact HH].
    destruct (nget (w_glists w) (qi_idx it)); [|exact HH]. apply Hfin.
Qed.

Theorem flush_AInv_loop n q w tr s' oc :
  Loop.flush wst qitem (run_w beh) unwind_w n q (w, None) [] = Some (tr, s', oc) -> AInv w -> AInv (fst s').
Proof.
  intros H HA.
  apply (flush_invariant wst qitem (run_w beh) unwind_w (fun s : wst => AInv (fst s))) with (n := n) (q := q) (st := (w, None)) (acc := []) (tr := tr) (oc := oc); [| |exact H|exact HA].
  - intros e st [HF HH]. destruct (FInv_parts _ HF) as (H1 & H2 & H3). unfold run_w.
    pose proof (deliver_one_WInv beh e (fst st) H1 H2) as Hd. pose proof (deliver_one_K beh e (fst st) H1 H2 H3) as Hk.
    pose proof (deliver_one_keeps_registries beh e (fst st)) as Hr. pose proof (deliver_one_HL e (fst st) H1 HH) as Hl.
    destruct (deliver_one beh e (fst st)) as [[sent w1] fl]. cbn [fst snd] in *. split; [split; [split; [exact Hd|eapply GevKinds_registries; eauto]|exact Hk]|exact Hl].
  - intros q0 st [HF HH]. unfold unwind_w. destruct (snd st) as [[k|s]|] eqn:Es; try (split; assumption). cbn [fst].
    assert (HFu : FInv (fst (unwind_w q0 st))).
    { pose proof (flush_invariant wst qitem (run_w beh) unwind_w (fun s : wst => FInv (fst s))) as X. clear X.
      destruct (FInv_parts _ HF) as (H1 & H2 & H3).
      assert (Hsu : structure (unwind_queue q0 (fst st)) = structure (fst st)) by (unfold unwind_queue; apply (fold_left_pres structure); intros; apply s_ev_drop).
      assert (Htu : w_tev (unwind_queue q0 (fst st)) = w_tev (fst st)) by (apply (r_unwind_queue w_tev); fr).
      assert (HWu : WInv (unwind_queue q0 (fst st))) by (eapply WInv_structure; eauto).
      assert (HKu : GevKinds (unwind_queue q0 (fst st))) by (eapply GevKinds_registries; [apply unwind_queue_keeps_registries|exact H2]).
      assert (HKK : KInv (unwind_queue q0 (fst st))) by (eapply KInv_structure; eauto).
      pose proof (spawn_all_ok _ HWu) as Hs. pose proof (spawn_all_keeps_registries (unwind_queue q0 (fst st))) as Hr.
      assert (HK2 : KInv (res_world (spawn_all (unwind_queue q0 (fst st))))) by (eapply KInv_kreg; [apply kreg_spawn_all|apply cshape_spawn_all|exact HKK]).
      unfold unwind_w. rewrite Es. cbn [fst].
      destruct (spawn_all (unwind_queue q0 (fst st))) as [[] w3|f w3]; cbn [res_world] in Hr, HK2.
      + split; [split; [exact (proj1 Hs)|eapply GevKinds_registries; eauto]|exact HK2].
      + split; [split; [exact (proj1 (proj2 Hs))|eapply GevKinds_registries; eauto]|exact HK2]. }
    unfold unwind_w in HFu. rewrite Es in HFu. cbn [fst] in HFu. split; [exact HFu|].
    assert (HHu : HL (unwind_queue q0 (fst st))).
    { unfold unwind_queue. apply (fold_left_invariant HL); [exact HH|]. intros acc y Hacc. now apply HL_ev_drop. }
    pose proof (HL_spawn_all _ HHu) as X. destruct (spawn_all (unwind_queue q0 (fst st))); exact X.
Qed.

Lemma flush_AInv q w : AInv w -> AInv (res_world (flush beh q w)).
Proof.
  intros HA. unfold flush, flush_loop.
  destruct (Loop.flush wst qitem (run_w beh) unwind_w FUEL q (w, None) []) as [[[tr [w1 fl]] oc]|] eqn:E; [|exact HA].
  pose proof (flush_AInv_loop _ _ _ _ _ _ E HA) as H1. cbn [fst] in H1.
  destruct oc; [|destruct fl; exact H1]. cbn [res_world]. exact H1.
Qed.
End WithBeh.

(* ---------- registration ---------- *)
Lemma nget_nrepeat_to {A} (d : A) n : forall l i, nget (nrepeat_to l n d) i = match nget l i with Some x => Some x | None => if i <? N.of_nat n then Some d else None end.
Proof.
  induction n as [|n IH]; intros l i; cbn [nrepeat_to].
  - destruct (nget l i); [reflexivity|]. now replace (i <? N.of_nat 0) with false by (symmetry; apply N.ltb_ge; lia).
  - destruct l as [|h t]; cbn [nget]; destruct (i =? 0) eqn:E.
    + apply N.eqb_eq in E. subst. reflexivity.
    + rewrite IH. cbn [nget]. apply N.eqb_neq in E. destruct (N.pred i <? N.of_nat n) eqn:L1; destruct (i <? N.of_nat (S n)) eqn:L2; try reflexivity;
        [apply N.ltb_lt in L1; apply N.ltb_ge in L2; lia|apply N.ltb_ge in L1; apply N.ltb_lt in L2; lia].
    + reflexivity.
    + rewrite IH. destruct (nget t (N.pred i)); [reflexivity|]. apply N.eqb_neq in E. destruct (N.pred i <? N.of_nat n) eqn:L1; destruct (i <? N.of_nat (S n)) eqn:L2; try reflexivity;
        [apply N.ltb_lt in L1; apply N.ltb_ge in L2; lia|apply N.ltb_ge in L1; apply N.ltb_lt in L2; lia].
Qed.

Lemma glist_nrepeat w gl n : w_glists w = gl -> forall idx,
  match nget (nrepeat_to gl n hl_new) idx with Some l => hl_entries l | None => [] end = glist_of w idx.
Proof.
  intros <- idx. unfold glist_of. rewrite nget_nrepeat_to. destruct (nget (w_glists w) idx); [reflexivity|]. now destruct (idx <? N.of_nat n).
Qed.

(* SmInv of the global event registry, needed to know that registering an event keeps the others *)
Definition GInv (w : world) : Prop := SmInv (w_gev w).
Definition AI (w : world) : Prop := AInv w /\ GInv w.

Lemma AI_parts w : AI w -> FInv w /\ HL w /\ GInv w.
Proof. intros [[A B] C]. auto. Qed.

Lemma HL_conv_gl w w2 : w_hs w2 = w_hs w -> w_horder w2 = w_horder w -> w_hctr w2 = w_hctr w -> w_archs w2 = w_archs w ->
  (forall idx, glist_of w2 idx = glist_of w idx) ->
  HL w -> HL w2.
Proof.
  intros Ehs Eho Ehc Ear Egl ((S & H1 & H2 & H3) & (L1 & L2)). unfold HL, HInv, LInv, hlive, arch_at in *. rewrite Ehs, Eho, Ehc, Ear.
  split; [auto|]. split; [exact L1|]. intros idx. rewrite Egl. apply L2.
Qed.

Section Ops.
Variable beh : hinfo -> logent -> N -> script.

Lemma flush_AI q w : AI w -> AI (res_world (flush beh q w)).
Proof.
  intros [HA HG]. split; [now apply flush_AInv|]. unfold GInv in *.
  assert (E : w_gev (res_world (flush beh q w)) = w_gev w).
  { unfold flush, flush_loop. destruct (Loop.flush wst qitem (run_w beh) unwind_w FUEL q (w, None) []) as [[[tr [w1 fl]] oc]|] eqn:E; [|reflexivity].
    pose proof (flush_keeps_registries beh _ _ _ _ _ _ E) as X. cbn [fst] in X. assert (Y : w_gev w1 = w_gev w) by (exact (f_equal (fun t => fst (fst (fst (fst t)))) X)).
    destruct oc; [exact Y|destruct fl; exact Y]. }
  now rewrite E.
Qed.

Lemma gev_AI fuel : forall tag w, AI w ->
  AI (res_world (add_global_event beh fuel tag w)) /\ forall ev, AI (res_world (send_global beh fuel tag ev w)).
Proof.
  induction fuel as [|f IH]; intros tag w HA; [split; [exact HA|intros; exact HA]|].
  assert (Hadd : AI (res_world (add_global_event beh (S f) tag w))).
  { rewrite add_global_event_S. destruct (alookup tag (w_gby w)); [exact HA|].
    destruct (insert_with (fun _ => mkE tag (gkind tag)) (w_gev w)) as [[k m]|] eqn:Ei; [|exact HA]. cbn zeta.
    set (w2 := set_glists _ _).
    assert (HA2 : AI w2).
    { destruct (AI_parts _ HA) as ([[HW HK] HKK] & HH & HG). split; [split; [split; [split; [eapply WInv_ext; [| | |exact HW]; reflexivity|]|exact HKK]|]|].
      - intros i k' info Hg. unfold w2 in Hg. cbn [w_gev set_glists set_hreg set_gev] in Hg.
        destruct (gbi_insert _ _ _ _ _ _ _ Ei Hg) as [->|Hold]; [|eauto]. cbn [e_kind]. unfold gkind. now destruct (tag =? G_SPAWN).
      - apply (HL_conv_gl w w2); try reflexivity; [|exact HH].
        intros idx. unfold glist_of, w2. cbn [w_glists set_glists set_hreg set_gev]. apply (glist_nrepeat w (w_glists w) _ eq_refl).
      - unfold GInv, w2. cbn [w_gev set_glists set_hreg set_gev]. eapply insert_inv; eauto. }
    destruct (IH G_ADDGE w2 HA2) as [_ Hs]. specialize (Hs (mkEv 0 0 k)).
    destruct (send_global beh f G_ADDGE (mkEv 0 0 k) w2); exact Hs. }
  split; [exact Hadd|]. intros ev. rewrite send_global_S.
  destruct (IH tag w HA) as [Ha _]. destruct (add_global_event beh f tag w) as [k w1|e w1]; cbn [res_world] in *.
  - apply flush_AI. destruct (10 <? tag); exact Ha.
  - destruct (AI_parts _ Ha) as ([HR HK] & HH & HG). split; [split; [split; [now apply RInv_ev_drop|eapply KInv_structure; [apply s_ev_drop|apply tev_ev_drop|exact HK]]|now apply HL_ev_drop]|].
    unfold GInv in *. now rewrite (proj2 (proj2 (proj2 (ev_drop_fields w1 false tag ev)))).
Qed.
Lemma send_global_AI tag ev w : AI w -> AI (res_world (send_global beh RFUEL tag ev w)).
Proof. intros H. exact (proj2 (gev_AI RFUEL tag w H) ev). Qed.
Lemma add_global_event_AI tag w : AI w -> AI (res_world (add_global_event beh RFUEL tag w)).
Proof. intros H. exact (proj1 (gev_AI RFUEL tag w H)). Qed.
End Ops.

Section Ops2.
Variable beh : hinfo -> logent -> N -> script.

Lemma HL_GInv_conv w w' : w_hs w' = w_hs w -> w_horder w' = w_horder w -> w_hctr w' = w_hctr w -> w_archs w' = w_archs w ->
  w_glists w' = w_glists w -> w_gev w' = w_gev w ->
  (forall k, sm_get k (w_tev w) <> None -> sm_get k (w_tev w') <> None) -> HL w /\ GInv w -> HL w' /\ GInv w'.
Proof.
  intros A B C D E F G [HH HG]. split.
  - apply (HL_conv_gl w w'); auto. intros idx; unfold glist_of; now rewrite E.
  - unfold GInv. now rewrite F.
Qed.

Lemma add_component_AI tag w : AI w -> AI (res_world (add_component beh tag w)).
Proof.
  intros HA. destruct (AI_parts _ HA) as (HF & HH & HG). unfold add_component.
  destruct (alookup tag (w_cby w)) as [k0|] eqn:El; [exact HA|].
  destruct (insert_with (fun _ => mkC tag [] [] []) (w_comps w)) as [[k m]|] eqn:Ei; [|exact HA].
  destruct (add_component_entry_FInv tag w k m HF El Ei) as [HF1 _].
  apply rbind_K; [|intros; assumption]. apply send_global_AI.
  destruct (HL_GInv_conv w (set_comps w m (ainsert tag k (w_cby w)))) as [X Y]; try reflexivity; [auto|auto|]. split; [split|]; assumption.
Qed.

Lemma tev_stage1_AI tag w : AI w -> AI (res_world (tev_stage1 beh tag w)).
Proof.
  intros HA. unfold tev_stage1. destruct ((20 <=? tag) && (tag <? 40)); [apply rbind_K; [now apply add_component_AI|intros; assumption]|].
  destruct ((40 <=? tag) && (tag <? 60)); [apply rbind_K; [now apply add_component_AI|intros; assumption]|].
  destruct (tag =? T_DESPAWN); exact HA.
Qed.

Lemma add_targeted_event_AI tag w : AI w -> AI (res_world (add_targeted_event beh tag w)).
Proof.
  intros HA. rewrite add_targeted_event_unfold. pose proof (tev_stage1_AI tag w HA) as HA0.
  destruct (tev_stage1_FInv beh tag w (proj1 (proj1 HA))) as [_ Hl].
  destruct (tev_stage1 beh tag w) as [kind w0|f w0]; cbn [rbind res_world] in *; [|exact HA0].
  destruct (alookup tag (w_tby w0)); [exact HA0|].
  destruct (insert_with (fun _ => mkE tag kind) (w_tev w0)) as [[k m]|] eqn:Ei; [|exact HA0].
  apply rbind_K; [|intros; assumption]. apply send_global_AI. destruct (AI_parts _ HA0) as (HF0 & HH0 & HG0).
  pose proof (tev_entry_FInv w0 tag kind k m HF0 Hl Ei) as HF1.
  assert (S2 : SmInv (w_tev w0)) by (destruct HF0 as [_ (_ & X & _)]; exact X).
  destruct (HL_GInv_conv w0 (tev_entry_world w0 tag kind k m)) as [X Y]; try (unfold tev_entry_world; destruct kind; reflexivity); [|auto|split; [split|]; assumption].
  intros k0 Hlv. assert (Et : w_tev (tev_entry_world w0 tag kind k m) = m) by (unfold tev_entry_world; destruct kind; reflexivity). rewrite Et.
  rewrite (insert_get_other _ _ _ _ k0 S2 Ei); [exact Hlv|]. intros ->. apply Hlv. eapply insert_get_fresh; eauto.
Qed.

Lemma AI_ev_drop w t tag ev : AI w -> AI (ev_drop w t tag ev).
Proof.
  intros HA. destruct (AI_parts _ HA) as ([HR HK] & HH & HG). split; [split; [split; [now apply RInv_ev_drop|eapply KInv_structure; [apply s_ev_drop|apply tev_ev_drop|exact HK]]|now apply HL_ev_drop]|].
  unfold GInv in *. now rewrite (proj2 (proj2 (proj2 (ev_drop_fields w t tag ev)))).
Qed.

Lemma send_to_AI tag target ev w : AI w -> AI (res_world (send_to beh tag target ev w)).
Proof.
  intros HA. unfold send_to. pose proof (add_targeted_event_AI tag w HA) as H.
  destruct (add_targeted_event beh tag w) as [k w1|e w1]; cbn [res_world] in *; [now apply flush_AI|now apply AI_ev_drop].
Qed.

Theorem op_spawn_AI w : AI w -> AI (res_world (op_spawn beh w)).
Proof.
  intros HA. unfold op_spawn. apply rbind_K.
  - unfold reserve. repeat break_match; cbn [res_world]; exact HA.
  - intros id w1 HA1. apply rbind_K; [now apply send_global_AI|]. intros [] w2 HA2. exact HA2.
Qed.
Theorem op_insert_AI e ktag w : AI w -> AI (res_world (op_insert beh e ktag w)).
Proof.
  intros HA. unfold op_insert. destruct (new_cval w ktag) as [v w1] eqn:E. apply send_to_AI.
  assert (w1 = snd (new_cval w ktag)) by now rewrite E. subst w1. unfold new_cval. destruct (ctag_zst ktag); exact HA.
Qed.
Theorem op_remove_AI e ktag w : AI w -> AI (res_world (op_remove beh e ktag w)).
Proof. intros HA. unfold op_remove. now apply send_to_AI. Qed.
Theorem op_despawn_AI e w : AI w -> AI (res_world (op_despawn beh e w)).
Proof. intros HA. unfold op_despawn. now apply send_to_AI. Qed.
Theorem op_send_AI gtag w : AI w -> AI (res_world (op_send beh gtag w)).
Proof. intros HA. unfold op_send. cbn [fresh_serial]. apply send_global_AI. exact HA. Qed.
Theorem op_send_to_AI e ttag w : AI w -> AI (res_world (op_send_to beh e ttag w)).
Proof. intros HA. unfold op_send_to. cbn [fresh_serial]. apply send_to_AI. exact HA. Qed.
End Ops2.

(* ---------- a coarser extensionality: archetypes may disappear ---------- *)
Lemma HL_sub w w' : hreg w' = hreg w ->
  (forall j a', arch_at w' j = Some a' -> exists a, arch_at w j = Some a /\ lview a' = lview a) -> HL w -> HL w'.
Proof.
  intros Hh Hsub (HI & (L1 & L2)). split; [eapply HInv_ext; eauto|]. split; [|eapply LInv_global_ext; eauto].
  assert (L1' : forall ai a idx, arch_at w ai = Some a -> NoDup (listeners_of a idx) /\ forall hk, In hk (listeners_of a idx) <-> lmatch (w_hs w) (arch_has a) idx hk) by exact L1.
  enough (G : forall ai a idx, arch_at w' ai = Some a -> NoDup (listeners_of a idx) /\ forall hk, In hk (listeners_of a idx) <-> lmatch (w_hs w') (arch_has a) idx hk) by exact G.
  intros ai a' idx Ha'. destruct (Hsub _ _ Ha') as (a & Ha & Ev). injection Ev as Ec El.
  assert (Elo : listeners_of a' idx = listeners_of a idx) by (unfold listeners_of; now rewrite El).
  assert (Eh : arch_has a' = arch_has a) by (unfold arch_has; now rewrite Ec).
  destruct (L1' ai a idx Ha) as [Hnd Hm]. rewrite Elo, Eh. split; [exact Hnd|]. intros hk. rewrite Hm. symmetry. now apply lmatch_equiv.
Qed.

(* ---------- slab iteration visits every live archetype exactly once ---------- *)
Lemma slab_iter_from_spec l : forall i0 ai a, In (ai, a) (slab_iter_from l i0) <-> (i0 <= ai /\ nget l (ai - i0) = Some (SOcc a)).
Proof.
  induction l as [|e t IH]; intros i0 ai a; cbn [slab_iter_from].
  - split; [intros []|intros [_ X]; discriminate].
  - pose proof (IH (i0 + 1) ai a) as Ht.
    destruct e as [a0|n]; cbn [In nget].
    + split.
      * intros [X|X]; [inversion X; subst; split; [lia|]; now rewrite N.sub_diag|]. apply Ht in X as [X1 X2]. split; [lia|].
        replace (ai - i0 =? 0) with false by (symmetry; apply N.eqb_neq; lia). now replace (N.pred (ai - i0)) with (ai - (i0 + 1)) by lia.
      * intros [X1 X2]. destruct (ai - i0 =? 0) eqn:E.
        -- apply N.eqb_eq in E. left. inversion X2; subst. f_equal. lia.
        -- right. apply Ht. apply N.eqb_neq in E. split; [lia|]. now replace (ai - (i0 + 1)) with (N.pred (ai - i0)) by lia.
    + split.
      * intros X. apply Ht in X as [X1 X2]. split; [lia|].
        replace (ai - i0 =? 0) with false by (symmetry; apply N.eqb_neq; lia). now replace (N.pred (ai - i0)) with (ai - (i0 + 1)) by lia.
      * intros [X1 X2]. destruct (ai - i0 =? 0) eqn:E; [discriminate|]. apply Ht. apply N.eqb_neq in E. split; [lia|]. now replace (ai - (i0 + 1)) with (N.pred (ai - i0)) by lia.
Qed.
Lemma slab_iter_spec s ai a : In (ai, a) (slab_iter s) <-> slab_get s ai = Some a.
Proof.
  unfold slab_iter, slab_get. rewrite slab_iter_from_spec, N.sub_0_r. split.
  - intros [_ X]. now rewrite X.
  - intros X. split; [lia|]. destruct (nget (sl_entries s) ai) as [[a0|]|]; congruence.
Qed.
Lemma slab_iter_from_nodup l : forall i0, NoDup (map fst (slab_iter_from l i0)).
Proof.
  induction l as [|e t IH]; intros i0; cbn [slab_iter_from]; [constructor|]. destruct e as [a0|n]; [|apply IH]. cbn [map fst]. constructor; [|apply IH].
  intros X. apply in_map_iff in X as ([ai a] & E & X). cbn [fst] in E. subst ai. apply slab_iter_from_spec in X as [X _]. lia.
Qed.
Lemma slab_iter_nodup s : NoDup (map fst (slab_iter s)).
Proof. apply slab_iter_from_nodup. Qed.

(* ---------- Archetypes::register_handler over all archetypes ---------- *)
Definition arh_step (hk : key) : world -> N * arch -> world :=
  fun w' '(ai, _) =>
    match slab_get (w_archs w') ai, sm_get hk (w_hs w') with
    | Some a, Some h =>
        let '(a', h') := register_handler ai a h in
        set_hs (set_archs w' (slab_set (w_archs w') ai a')) (upd_by_key (w_hs w') hk (fun _ => h'))
    | _, _ => w'
    end.
Lemma archs_register_handler_unfold w hk : archs_register_handler w hk = fold_left (arh_step hk) (slab_iter (w_archs w)) w.
Proof. reflexivity. Qed.

Lemma arh_fold hk (L : list (N * arch)) : NoDup (map fst L) -> forall w' h0, sm_get hk (w_hs w') = Some h0 ->
  let wf := fold_left (arh_step hk) L w' in
  hreg wf = hreg w' /\ (exists hf, sm_get hk (w_hs wf) = Some hf /\ hstat hf = hstat h0) /\
  (forall k0, k0 <> hk -> sm_get k0 (w_hs wf) = sm_get k0 (w_hs w')) /\
  (forall ai, ~ In ai (map fst L) -> arch_at wf ai = arch_at w' ai) /\
  (forall ai, In ai (map fst L) -> match arch_at w' ai with
                                   | None => arch_at wf ai = None
                                   | Some a => exists hc, hstat hc = hstat h0 /\ arch_at wf ai = Some (fst (register_handler ai a hc)) end).
Proof.
  induction L as [|[ai x] L IH]; intros Hnd w' h0 Hg; cbn zeta; cbn [fold_left map fst].
  - split; [reflexivity|]. split; [eauto|]. split; [reflexivity|]. split; [reflexivity|intros ai []].
  - inversion Hnd as [|? ? Hni Hnd']; subst.
    change (arh_step hk w' (ai, x)) with (match slab_get (w_archs w') ai, sm_get hk (w_hs w') with
      | Some a, Some h => let '(a', h') := register_handler ai a h in set_hs (set_archs w' (slab_set (w_archs w') ai a')) (upd_by_key (w_hs w') hk (fun _ => h'))
      | _, _ => w' end).
    rewrite Hg. destruct (slab_get (w_archs w') ai) as [a|] eqn:Ha.
    + pose proof (hstat_register ai a h0) as Hst. destruct (register_handler ai a h0) as [a' h'] eqn:Er. cbn [snd] in Hst.
      set (w1 := set_hs (set_archs w' (slab_set (w_archs w') ai a')) (upd_by_key (w_hs w') hk (fun _ => h'))).
      assert (Hg1 : sm_get hk (w_hs w1) = Some h') by (unfold w1; cbn [w_hs set_hs]; exact (upd_key_get_self (w_hs w') hk (fun _ => h') h0 Hg)).
      assert (Hh1 : hreg w1 = hreg w').
      { unfold hreg, w1. cbn [w_hs w_horder w_hctr w_glists set_hs set_archs]. f_equal. f_equal. f_equal. eapply sview_upd_key_at; [exact Hg|exact Hst]. }
      assert (Hat1 : forall j, arch_at w1 j = if j =? ai then Some a' else arch_at w' j).
      { intros j. unfold arch_at, w1. cbn [w_archs set_hs set_archs]. destruct (j =? ai) eqn:E; [apply N.eqb_eq in E; subst; eapply slab_get_set_eq; eauto|].
        apply N.eqb_neq in E. now rewrite slab_get_set_neq by auto. }
      destruct (IH Hnd' w1 h' Hg1) as (A & (hf & B1 & B2) & C & D & E). cbn zeta in *.
      split; [congruence|]. split; [exists hf; split; [exact B1|congruence]|]. split; [|split].
      * intros k0 Hk. rewrite C by exact Hk. unfold w1. cbn [w_hs set_hs]. now apply upd_key_get_other.
      * intros j Hj. rewrite D by (intros X; apply Hj; now right). rewrite Hat1. destruct (j =? ai) eqn:Ej; [|reflexivity]. apply N.eqb_eq in Ej. subst. exfalso. apply Hj. now left.
      * intros j [<-|Hj].
        -- unfold arch_at at 1. rewrite Ha. exists h0. split; [reflexivity|]. rewrite D by exact Hni. rewrite Hat1, N.eqb_refl. now rewrite Er.
        -- specialize (E j Hj). rewrite Hat1 in E. destruct (j =? ai) eqn:Ej; [apply N.eqb_eq in Ej; subst; contradiction|].
           destruct (arch_at w' j) as [aj|]; [|exact E]. destruct E as (hc & E1 & E2). exists hc. split; [congruence|exact E2].
    + destruct (IH Hnd' w' h0 Hg) as (A & B & C & D & E). cbn zeta in *. split; [exact A|]. split; [exact B|]. split; [exact C|]. split.
      * intros j Hj. apply D. intros X. apply Hj. now right.
      * intros j [<-|Hj]; [unfold arch_at at 1; rewrite Ha; rewrite D by exact Hni; exact Ha|now apply E].
Qed.

(* ---------- add_handler: the new handler is registered everywhere it should be ---------- *)
Lemma NoDup_map_snoc {A B} (g : A -> B) l x : NoDup (map g l) -> ~ In (g x) (map g l) -> NoDup (map g (l ++ [x])).
Proof. intros H1 H2. rewrite map_app. cbn [map]. now apply NoDup_app_snoc. Qed.

Lemma add_handler_entry_HL w1 (f : key -> hinfo) k hs rv pr filt hby :
  HL w1 -> insert_with f (w_hs w1) = Some (k, hs) ->
  (forall k0, h_key (f k0) = k0 /\ h_order (f k0) = w_hctr w1 /\ h_recv (f k0) = rv /\ h_prio (f k0) = pr /\ h_filter (f k0) = filt) ->
  let gl := match rv with
            | RvGlobal ek =>
                let gl0 := nrepeat_to (w_glists w1) (N.to_nat (fst ek) + 1) hl_new in
                match nget gl0 (fst ek) with
                | Some l => nset gl0 (fst ek) (hl_insert l k pr)
                | None => gl0 end
            | RvTargeted _ => w_glists w1 end in
  HL (archs_register_handler (set_hreg w1 hs gl hby (w_hctr w1 + 1) (w_horder w1 ++ [(w_hctr w1, k)])) k).
Proof.
  intros ((S & H1 & H2 & H3 & H4) & L1 & L2) Ei Hf. cbn zeta.
  set (gl := match rv with RvGlobal ek => _ | RvTargeted _ => _ end).
  set (w2 := set_hreg w1 hs gl hby (w_hctr w1 + 1) (w_horder w1 ++ [(w_hctr w1, k)])).
  set (hnew := f k). destruct (Hf k) as (Fk & Fo & Fr & Fp & Ff). fold hnew in Fk, Fo, Fr, Fp, Ff.
  assert (Hgn : sm_get k hs = Some hnew) by exact (insert_get_new f (w_hs w1) k hs S Ei).
  clearbody hnew.
  assert (Hgo : forall k0, k0 <> k -> sm_get k0 hs = sm_get k0 (w_hs w1)) by (intros; eapply insert_get_other; eauto).
  assert (Hfr : sm_get k (w_hs w1) = None) by (eapply insert_get_fresh; eauto).
  assert (Hlt : forall o hk, In (o, hk) (w_horder w1) -> o < w_hctr w1 /\ hk <> k).
  { intros o hk Hin. destruct (H2 o hk Hin) as (h & Hl & Eo). destruct (H1 hk h Hl) as (_ & _ & X). split; [congruence|]. intros ->. unfold hlive in Hl. congruence. }
  (* the registry after insertion *)
  assert (HI2 : HInv w2).
  { unfold HInv, hlive, w2. cbn [w_hs w_horder w_hctr set_hreg]. split; [eapply insert_inv; eauto|]. split; [|split; [|split]].
    - intros hk h Hl. destruct (key_eq_dec hk k) as [->|Hne].
      + rewrite Hgn in Hl. injection Hl as <-. split; [exact Fk|]. split; [apply in_or_app; right; left; now rewrite Fo|lia].
      + rewrite Hgo in Hl by exact Hne. destruct (H1 hk h Hl) as (A & B & C). split; [exact A|]. split; [apply in_or_app; now left|lia].
    - intros o hk Hin. apply in_app_or in Hin as [Hin|[Hin|[]]].
      + destruct (H2 o hk Hin) as (h & Hl & Eo). exists h. split; [|exact Eo]. rewrite Hgo; [exact Hl|]. exact (proj2 (Hlt o hk Hin)).
      + injection Hin as <- <-. exists hnew. split; [exact Hgn|exact Fo].
    - apply NoDup_map_snoc; [exact H3|]. cbn [snd]. intros X. apply in_map_iff in X as ([o hk] & E & X). cbn [snd] in E. subst hk. exact (proj2 (Hlt o k X) eq_refl).
    - apply NoDup_map_snoc; [exact H4|]. cbn [fst]. intros X. apply in_map_iff in X as ([o hk] & E & X). cbn [fst] in E. subst o. pose proof (proj1 (Hlt _ hk X)). lia. }
  rewrite archs_register_handler_unfold.
  destruct (arh_fold k (slab_iter (w_archs w2)) (slab_iter_nodup _) w2 hnew Hgn) as (A & (hf & B1 & B2) & C & D & E). cbn zeta in *.
  set (w3 := fold_left (arh_step k) (slab_iter (w_archs w2)) w2) in *.
  destruct (stat_eq _ _ B2) as (Gk & Go & Gr & Gf).
  split; [eapply HInv_ext; eauto|].
  (* handlers of w3 in terms of w1 *)
  assert (Hl3 : forall x h, sm_get x (w_hs w3) = Some h -> (x = k /\ h = hf) \/ (x <> k /\ sm_get x (w_hs w1) = Some h)).
  { intros x h X. destruct (key_eq_dec x k) as [->|Hne]; [left; split; [reflexivity|congruence]|right; split; [exact Hne|]]. rewrite C in X by exact Hne. unfold w2 in X. cbn [w_hs set_hreg] in X. now rewrite Hgo in X. }
  assert (Hl3' : forall x h, x <> k -> sm_get x (w_hs w1) = Some h -> sm_get x (w_hs w3) = Some h).
  { intros x h Hne X. rewrite C by exact Hne. unfold w2. cbn [w_hs set_hreg]. now rewrite Hgo. }
  split.
  - enough (G : forall ai a idx, arch_at w3 ai = Some a -> NoDup (listeners_of a idx) /\ forall hk, In hk (listeners_of a idx) <-> lmatch (w_hs w3) (arch_has a) idx hk) by exact G.
    assert (L1' : forall ai a idx, arch_at w1 ai = Some a -> NoDup (listeners_of a idx) /\ forall hk, In hk (listeners_of a idx) <-> lmatch (w_hs w1) (arch_has a) idx hk) by exact L1.
    intros ai a3 idx Ha3.
    assert (Hsrc : exists a hc, arch_at w1 ai = Some a /\ hstat hc = hstat hnew /\ a3 = fst (register_handler ai a hc)).
    { destruct (in_dec N.eq_dec ai (map fst (slab_iter (w_archs w2)))) as [Hin|Hn].
      - specialize (E ai Hin). change (arch_at w2 ai) with (arch_at w1 ai) in E. destruct (arch_at w1 ai) as [a|]; [|congruence].
        destruct E as (hc & E1 & E2). exists a, hc. split; [reflexivity|]. split; [exact E1|congruence].
      - rewrite (D ai Hn) in Ha3. change (arch_at w2 ai) with (arch_at w1 ai) in Ha3. exfalso. apply Hn. apply in_map_iff. exists (ai, a3). split; [reflexivity|].
        apply slab_iter_spec. exact Ha3. }
    destruct Hsrc as (a & hc & Ha & Hsc & ->). destruct (stat_eq _ _ Hsc) as (Ck & Co & Cr & Cf).
    destruct (L1' ai a idx Ha) as [Hnd Hm]. rewrite reg_arch_has.
    assert (Hkn : ~ In k (listeners_of a idx)). { intros X. apply Hm in X as (h & ek & X & _). congruence. }
    assert (Hnewmatch : forall x, lmatch (w_hs w3) (arch_has a) idx x <->
              (x = k /\ exists ek, rv = RvTargeted ek /\ fst ek = idx /\ ca_matches (arch_has a) filt = true) \/ lmatch (w_hs w1) (arch_has a) idx x).
    { intros x. split.
      - intros (h & ek & X & Y & Z & W). destruct (Hl3 x h X) as [[-> ->]|[Hne X1]].
        + left. split; [reflexivity|]. exists ek. rewrite Gr, Fr in Y. rewrite Gf, Ff in W. auto.
        + right. exists h, ek. auto.
      - intros [[-> (ek & X & Y & Z)]|(h & ek & X & Y)].
        + exists hf, ek. rewrite Gr, Fr, Gf, Ff. auto.
        + assert (x <> k) by (intros ->; congruence). exists h, ek. split; [now apply Hl3'|exact Y]. }
    destruct (h_recv hc) as [ek|ek] eqn:Hrc.
    + rewrite reg_listeners_other by (intros ek' X; rewrite Hrc in X; discriminate). split; [exact Hnd|]. intros x. rewrite Hnewmatch, Hm. split; [tauto|].
      intros [[_ (ek' & X & _)]|X]; [|exact X]. congruence.
    + destruct (N.eq_dec (fst ek) idx) as [<-|Hne].
      * split; [apply reg_listeners_nodup; [exact Hrc|exact Hnd|now rewrite Ck, Fk]|].
        intros x. rewrite (register_handler_listens ai a hc ek Hrc), Hnewmatch, Hm, Ck, Fk, Cf, Ff. split.
        -- intros [[-> X]|X]; [left; split; [reflexivity|]; exists ek; split; [congruence|split; [reflexivity|exact X]]|now right].
        -- intros [[-> (ek' & X & Y & Z)]|X]; [left; auto|now right].
      * rewrite reg_listeners_other by (intros ek' X; rewrite Hrc in X; inversion X; subst; exact Hne). split; [exact Hnd|]. intros x. rewrite Hnewmatch, Hm. split; [tauto|].
        intros [[_ (ek' & X & Y & _)]|X]; [|exact X]. assert (ek' = ek) by congruence. subst ek'. contradiction.
  - (* global lists *)
    destruct (hreg_parts w2 w3 A) as (_ & _ & _ & Eg).
    assert (Hgl : forall idx, glist_of w3 idx = match rv with
                                               | RvGlobal ek => if idx =? fst ek then hl_entries (hl_insert (match nget (w_glists w1) (fst ek) with Some l => l | None => hl_new end) k pr) else glist_of w1 idx
                                               | RvTargeted _ => glist_of w1 idx end).
    { intros idx. unfold glist_of at 1. rewrite Eg. unfold w2. cbn [w_glists set_hreg]. unfold gl. destruct rv as [ek|ek]; [|reflexivity].
      cbn zeta. set (gl0 := nrepeat_to (w_glists w1) (N.to_nat (fst ek) + 1) hl_new).
      assert (Hg0 : forall i, nget gl0 i = match nget (w_glists w1) i with Some x => Some x | None => if i <? N.of_nat (N.to_nat (fst ek) + 1) then Some hl_new else None end) by (intros; apply nget_nrepeat_to).
      assert (Hlt0 : fst ek <? N.of_nat (N.to_nat (fst ek) + 1) = true) by (apply N.ltb_lt; lia).
      assert (Hge : nget gl0 (fst ek) = Some (match nget (w_glists w1) (fst ek) with Some l => l | None => hl_new end)).
      { rewrite Hg0, Hlt0. now destruct (nget (w_glists w1) (fst ek)). }
      rewrite Hge. destruct (idx =? fst ek) eqn:E0.
      - apply N.eqb_eq in E0. subst idx. rewrite nget_nset_eq by (eapply nget_some_lt; eauto). reflexivity.
      - apply N.eqb_neq in E0. rewrite nget_nset_neq by auto. rewrite Hg0. unfold glist_of. destruct (nget (w_glists w1) idx); [reflexivity|]. now destruct (idx <? _). }
    intros idx. destruct (L2 idx) as [Hnd Hm]. rewrite Hgl.
    assert (Hkn : ~ In k (glist_of w1 idx)). { intros X. apply Hm in X as (h & ek & X & _). unfold hlive in X. congruence. }
    assert (Hold : forall x, (exists h ek, hlive w3 x h /\ h_recv h = RvGlobal ek /\ fst ek = idx) <->
              (x = k /\ exists ek, rv = RvGlobal ek /\ fst ek = idx) \/ (exists h ek, hlive w1 x h /\ h_recv h = RvGlobal ek /\ fst ek = idx)).
    { intros x. unfold hlive. split.
      - intros (h & ek & X & Y & Z). destruct (Hl3 x h X) as [[-> ->]|[Hne X1]]; [left; split; [reflexivity|]; exists ek; rewrite Gr, Fr in Y; auto|right; exists h, ek; auto].
      - intros [[-> (ek & X & Y)]|(h & ek & X & Y)]; [exists hf, ek; rewrite Gr, Fr; auto|].
        assert (x <> k) by (intros ->; congruence). exists h, ek. split; [now apply Hl3'|exact Y]. }
    destruct rv as [ek|ek].
    + destruct (idx =? fst ek) eqn:E0.
      * apply N.eqb_eq in E0. subst idx. assert (El : hl_entries (match nget (w_glists w1) (fst ek) with Some l => l | None => hl_new end) = glist_of w1 (fst ek)) by (unfold glist_of; now destruct (nget (w_glists w1) (fst ek))).
        split; [apply hl_insert_nodup; rewrite El; assumption|]. intros x. rewrite hl_insert_in, El, Hold, Hm. split.
        -- intros [->|X]; [left; split; [reflexivity|]; exists ek; auto|now right].
        -- intros [[-> _]|X]; [now left|now right].
      * split; [exact Hnd|]. intros x. rewrite Hold, Hm. split; [tauto|]. intros [[_ (ek' & X & Y)]|X]; [|exact X]. inversion X; subst. apply N.eqb_neq in E0. congruence.
    + split; [exact Hnd|]. intros x. rewrite Hold, Hm. split; [tauto|]. intros [[_ (ek' & X & _)]|X]; [discriminate|exact X].
Qed.

Section Ops3.
Variable beh : hinfo -> logent -> N -> script.

Lemma resolve_query_AI q : forall w, AI w -> AI (res_world (resolve_query beh q w)).
Proof.
  induction q as [c|c|qs IH|q IH|l r IHl IHr|l r IHl IHr|q IH|q IH|q IH|] using query_ind'; intros w HA; cbn [resolve_query];
    try (apply rbind_K; [now apply add_component_AI|intros; assumption]);
    try (apply rbind_K; [now apply IH|intros; assumption]);
    try (apply rbind_K; [now apply IHl|intros ? w1 HA1; apply rbind_K; [now apply IHr|intros; assumption]]);
    try exact HA.
  apply rbind_K; [|intros; assumption].
  revert w HA. induction IH as [|x t Hx _ IHt]; intros w HA; [exact HA|].
  apply rbind_K; [now apply Hx|]. intros x' w1 HA1. apply rbind_K; [now apply IHt|intros; assumption].
Qed.
Lemma register_set_AI evs : forall w, AI w -> AI (res_world (register_set beh evs w)).
Proof.
  induction evs as [|[t tag] rest IH]; intros w HA; cbn [register_set]; [exact HA|].
  apply rbind_K.
  - destruct t; [now apply add_targeted_event_AI|now apply add_global_event_AI].
  - intros k w1 HA1. apply rbind_K; [now apply IH|intros; assumption].
Qed.
Lemma init_param_AI p c w : AI w -> AI (res_world (init_param beh p c w)).
Proof.
  intros HA. destruct p; cbn [init_param].
  - apply rbind_K; [now apply add_global_event_AI|intros; assumption].
  - apply rbind_K; [now apply add_targeted_event_AI|]. intros k w1 HA1. apply rbind_K; [now apply resolve_query_AI|intros; assumption].
  - apply rbind_K; [now apply resolve_query_AI|intros; assumption].
  - apply rbind_K; [now apply register_set_AI|intros; assumption].
Qed.
Lemma init_params_AI ps : forall c w, AI w -> AI (res_world (init_params beh ps c w)).
Proof.
  induction ps as [|p t IH]; intros c w HA; cbn [init_params]; [exact HA|].
  apply rbind_K; [now apply init_param_AI|]. intros c1 w1 HA1. now apply IH.
Qed.

Theorem add_handler_AI sh w : AI w -> AI (res_world (add_handler beh sh w)).
Proof.
  intros HA. unfold add_handler. destruct (match sh_tid sh with Some t => alookup t (w_hby w) | None => None end); [exact HA|].
  apply rbind_K; [now apply init_params_AI|]. intros c w1 HA1.
  destruct (cf_recv c) as [|rv|]; try exact HA1. destruct (cf_access c) as [acc|]; [|exact HA1].
  destruct (handler_conflicts (cf_cas c)); [|exact HA1].
  destruct (insert_with _ (w_hs w1)) as [[k hs]|] eqn:Ei; [|exact HA1].
  apply rbind_K; [|intros; assumption]. apply send_global_AI. destruct (AI_parts _ HA1) as ([HR1 HK1] & HH1 & HG1).
  match goal with |- AI (archs_register_handler ?w2 k) =>
    destruct (archs_register_handler_structure w2 k) as [Hs Hg]; split; [split; [split|]|] end.
  - match goal with |- RInv (archs_register_handler ?w2 k) => apply (RInv_structure w2); [exact Hs|exact Hg|exact HR1] end.
  - match goal with |- KInv (archs_register_handler ?w2 k) => apply (KInv_kreg w2); [apply kreg_archs_register_handler|exact (proj1 (structure_cshape _ _ Hs))|exact HK1] end.
  - eapply (add_handler_entry_HL w1 _ k hs rv (sh_prio sh) (cf_filter c)); [exact HH1|exact Ei|]. intros k0. repeat split.
  - unfold GInv in *. rewrite Hg. exact HG1.
Qed.
End Ops3.

(* ---------- remove_handler ---------- *)
Lemma key_eqb_spec (a b : key) : key_eqb a b = true <-> a = b.
Proof.
  unfold key_eqb. rewrite andb_true_iff, !N.eqb_eq. destruct a, b; cbn. split; [intros [-> ->]; reflexivity|intros H; inversion H; auto].
Qed.

Lemma hl_remove_spec (l : hlist key) k : NoDup (hl_entries l) ->
  NoDup (hl_entries (hl_remove key_eqb l k)) /\ forall x, In x (hl_entries (hl_remove key_eqb l k)) <-> In x (hl_entries l) /\ x <> k.
Proof.
  intros Hnd. pose proof (HListProofs.remove_not_in key_eqb key_eqb_spec l k Hnd) as Hn.
  destruct (HListProofs.remove_keeps_others key_eqb key_eqb_spec l k) as (X & Y & [[E1 E2]|[E1 _]]).
  - rewrite E2 in *. rewrite E1 in Hnd. split; [eapply NoDup_remove_1; eauto|]. intros x. rewrite E1, !in_app_iff. cbn [In]. split.
    + intros H. split; [tauto|]. intros ->. apply Hn. now apply in_or_app.
    + intros [[H|[H|H]] Hne]; [now left|congruence|now right].
  - rewrite E1 in *. split; [exact Hnd|]. intros x. split; [intros H; split; [exact H|intros ->; contradiction]|tauto].
Qed.

Lemma NoDup_map_filter {A B} (g : A -> B) (p : A -> bool) l : NoDup (map g l) -> NoDup (map g (filter p l)).
Proof.
  induction l as [|x l IH]; cbn [map filter]; intros H; [constructor|]. inversion H; subst. destruct (p x); cbn [map]; [|auto].
  constructor; [|auto]. intros X. apply in_map_iff in X as (y & E & Hy). apply filter_In in Hy as [Hy _]. apply H2. rewrite <- E. now apply in_map.
Qed.
Lemma NoDup_fst_fun {A B} (l : list (A * B)) o a b : NoDup (map fst l) -> In (o, a) l -> In (o, b) l -> a = b.
Proof.
  induction l as [|[o' c] l IH]; cbn [map fst]; intros H Ha Hb; [destruct Ha|]. inversion H; subst.
  destruct Ha as [Ha|Ha], Hb as [Hb|Hb].
  - congruence.
  - inversion Ha; subst. exfalso. apply H2. apply in_map_iff. exists (o, b). auto.
  - inversion Hb; subst. exfalso. apply H2. apply in_map_iff. exists (o, a). auto.
  - eauto.
Qed.

Definition rm_arch (h : hinfo) (a : arch) : arch :=
  let ls := match h_recv h with
            | RvTargeted ek => match alookup (fst ek) (a_listeners a) with
                               | Some l => ainsert (fst ek) (hl_remove key_eqb l (h_key h)) (a_listeners a)
                               | None => a_listeners a end
            | RvGlobal _ => a_listeners a end in
  set_tables a (kset_remove (h_key h) (a_refresh a)) ls.
Lemma archs_remove_handler_at w h j : arch_at (archs_remove_handler w h) j = option_map (rm_arch h) (arch_at w j).
Proof.
  unfold arch_at, archs_remove_handler, slab_get. cbn [w_archs set_archs sl_entries]. rewrite nget_map.
  destruct (nget (sl_entries (w_archs w)) j) as [[a|n]|]; reflexivity.
Qed.

Lemma remove_handler_entry_HL w k h hs' hby :
  HL w -> sm_remove k (w_hs w) = Some (h, hs') ->
  let gl := match h_recv h with
            | RvGlobal ek => match nget (w_glists w) (fst ek) with
                             | Some l => nset (w_glists w) (fst ek) (hl_remove key_eqb l k)
                             | None => w_glists w end
            | RvTargeted _ => w_glists w end in
  HL (archs_remove_handler (set_hreg w hs' gl hby (w_hctr w) (filter (fun p => negb (fst p =? h_order h)) (w_horder w))) h).
Proof.
  intros ((S & H1 & H2 & H3 & H4) & L1 & L2) Er. cbn zeta.
  set (gl := match h_recv h with RvGlobal ek => _ | RvTargeted _ => _ end).
  set (w2 := set_hreg w hs' gl hby (w_hctr w) (filter (fun p => negb (fst p =? h_order h)) (w_horder w))).
  pose proof (remove_get_self k (w_hs w) h hs' Er) as Hk. destruct (H1 k h Hk) as (Hkk & Hkin & Hklt).
  assert (Hgone : sm_get k hs' = None) by (eapply remove_get_gone; eauto).
  assert (Hoth : forall x, x <> k -> sm_get x hs' = sm_get x (w_hs w)) by (intros; eapply remove_get_other; eauto).
  assert (Hlive' : forall x h0, sm_get x hs' = Some h0 <-> x <> k /\ sm_get x (w_hs w) = Some h0).
  { intros x h0. split.
    - intros X. assert (x <> k) by (intros ->; congruence). split; [assumption|]. now rewrite <- Hoth.
    - intros [Hne X]. now rewrite Hoth. }
  set (w3 := archs_remove_handler w2 h).
  assert (Hhs3 : w_hs w3 = hs') by reflexivity.
  split.
  - unfold HInv, hlive. rewrite Hhs3. change (w_horder w3) with (filter (fun p => negb (fst p =? h_order h)) (w_horder w)). change (w_hctr w3) with (w_hctr w).
    split; [eapply remove_inv; eauto|]. split; [|split; [|split; [now apply NoDup_map_filter|now apply NoDup_map_filter]]].
    + intros x h0 X. apply Hlive' in X as [Hne X]. destruct (H1 x h0 X) as (A & B & C). split; [exact A|]. split; [|exact C].
      apply filter_In. split; [exact B|]. cbn [fst]. apply negb_true_iff, N.eqb_neq. intros Eo. apply Hne. rewrite Eo in B. exact (NoDup_fst_fun _ _ _ _ H4 B Hkin).
    + intros o x Hin. apply filter_In in Hin as [Hin Ho]. cbn [fst] in Ho. apply negb_true_iff, N.eqb_neq in Ho.
      destruct (H2 o x Hin) as (h0 & X & Eo). exists h0. split; [|exact Eo]. apply Hlive'. split; [|exact X]. intros ->. unfold hlive in X. congruence.
  - assert (Hlm : forall has idx x, lmatch hs' has idx x <-> x <> k /\ lmatch (w_hs w) has idx x).
    { intros has idx x. unfold lmatch. split.
      - intros (h0 & ek & X & Y). apply Hlive' in X as [Hne X]. split; [exact Hne|]. exists h0, ek. auto.
      - intros [Hne (h0 & ek & X & Y)]. exists h0, ek. split; [apply Hlive'; auto|exact Y]. }
    split.
    + enough (G : forall ai a idx, arch_at w3 ai = Some a -> NoDup (listeners_of a idx) /\ forall hk, In hk (listeners_of a idx) <-> lmatch (w_hs w3) (arch_has a) idx hk) by exact G.
      assert (L1' : forall ai a idx, arch_at w ai = Some a -> NoDup (listeners_of a idx) /\ forall hk, In hk (listeners_of a idx) <-> lmatch (w_hs w) (arch_has a) idx hk) by exact L1.
      intros ai a3 idx Ha3. unfold w3 in Ha3. rewrite archs_remove_handler_at in Ha3. change (arch_at w2 ai) with (arch_at w ai) in Ha3.
      destruct (arch_at w ai) as [a|] eqn:Ha; [|discriminate]. injection Ha3 as <-. rewrite Hhs3.
      change (arch_has (rm_arch h a)) with (arch_has a). destruct (L1' ai a idx Ha) as [Hnd Hm].
      assert (Hkin_iff : In k (listeners_of a idx) -> exists ek, h_recv h = RvTargeted ek /\ fst ek = idx).
      { intros X. apply Hm in X as (h0 & ek & X & Y & Z & _). rewrite Hk in X. inversion X; subst h0. eauto. }
      assert (Hsame : listeners_of (rm_arch h a) idx = listeners_of a idx -> ~ In k (listeners_of a idx) ->
                NoDup (listeners_of (rm_arch h a) idx) /\ forall hk, In hk (listeners_of (rm_arch h a) idx) <-> lmatch hs' (arch_has a) idx hk).
      { intros E Hnk. rewrite E. split; [exact Hnd|]. intros x. rewrite Hlm, Hm. split; [|tauto]. intros X. split; [|exact X]. intros ->. apply Hnk. now apply Hm. }
      destruct (h_recv h) as [ek|ek] eqn:Hr.
      * apply Hsame; [unfold rm_arch; rewrite Hr; reflexivity|]. intros X. destruct (Hkin_iff X) as (ek' & Y & _). discriminate.
      * destruct (N.eq_dec (fst ek) idx) as [<-|Hne].
        -- destruct (alookup (fst ek) (a_listeners a)) as [l|] eqn:El.
           ++ assert (Ela : listeners_of (rm_arch h a) (fst ek) = hl_entries (hl_remove key_eqb l k)).
              { unfold rm_arch, listeners_of. rewrite Hr, El. cbn [a_listeners set_tables]. now rewrite alookup_ainsert_eq, Hkk. }
              assert (Elo : listeners_of a (fst ek) = hl_entries l) by (unfold listeners_of; now rewrite El).
              rewrite Ela. rewrite Elo in Hnd, Hm. destruct (hl_remove_spec l k Hnd) as [Hnd' Hin']. split; [exact Hnd'|]. intros x. rewrite Hin', Hlm, Hm. tauto.
           ++ apply Hsame; [unfold rm_arch; rewrite Hr, El; reflexivity|]. unfold listeners_of. rewrite El. intros [].
        -- apply Hsame.
           ++ unfold rm_arch, listeners_of. rewrite Hr. cbn [a_listeners set_tables]. destruct (alookup (fst ek) (a_listeners a)); [|reflexivity]. rewrite alookup_ainsert_neq; [reflexivity|]. intros X. apply Hne. now symmetry.
           ++ intros X. destruct (Hkin_iff X) as (ek' & Y & Z). assert (ek' = ek) by congruence. subst ek'. contradiction.
    + intros idx. destruct (L2 idx) as [Hnd Hm]. unfold hlive. rewrite Hhs3.
      assert (Hkin_iff : In k (glist_of w idx) -> exists ek, h_recv h = RvGlobal ek /\ fst ek = idx).
      { intros X. apply Hm in X as (h0 & ek & X & Y & Z). unfold hlive in X. rewrite Hk in X. inversion X; subst h0. eauto. }
      assert (Hr' : forall x, (exists h0 ek, sm_get x hs' = Some h0 /\ h_recv h0 = RvGlobal ek /\ fst ek = idx) <-> x <> k /\ In x (glist_of w idx)).
      { intros x. rewrite Hm. unfold hlive. split.
        - intros (h0 & ek & X & Y). apply Hlive' in X as [Hne X]. split; [exact Hne|]. exists h0, ek. auto.
        - intros [Hne (h0 & ek & X & Y)]. exists h0, ek. split; [apply Hlive'; auto|exact Y]. }
      assert (Hsame : glist_of w3 idx = glist_of w idx -> ~ In k (glist_of w idx) ->
                NoDup (glist_of w3 idx) /\ forall hk, In hk (glist_of w3 idx) <-> exists h0 ek, sm_get hk hs' = Some h0 /\ h_recv h0 = RvGlobal ek /\ fst ek = idx).
      { intros E Hnk. rewrite E. split; [exact Hnd|]. intros x. rewrite Hr'. split; [|tauto]. intros X. split; [|exact X]. intros ->. contradiction. }
      assert (Eg3 : w_glists w3 = gl) by reflexivity.
      unfold gl in Eg3. destruct (h_recv h) as [ek|ek] eqn:Hr.
      * destruct (N.eq_dec (fst ek) idx) as [<-|Hne].
        -- destruct (nget (w_glists w) (fst ek)) as [l|] eqn:El.
           ++ assert (Elw : glist_of w (fst ek) = hl_entries l) by (unfold glist_of; now rewrite El).
              assert (El3 : glist_of w3 (fst ek) = hl_entries (hl_remove key_eqb l k)).
              { unfold glist_of. rewrite Eg3. rewrite nget_nset_eq by (eapply nget_some_lt; eauto). reflexivity. }
              rewrite Elw in *. rewrite El3. destruct (hl_remove_spec l k Hnd) as [Hnd' Hin']. split; [exact Hnd'|]. intros x. rewrite Hin', Hr'. tauto.
           ++ apply Hsame; [unfold glist_of; now rewrite Eg3|]. unfold glist_of. rewrite El. intros [].
        -- apply Hsame.
           ++ unfold glist_of. rewrite Eg3. destruct (nget (w_glists w) (fst ek)); [|reflexivity]. now rewrite nget_nset_neq by auto.
           ++ intros X. destruct (Hkin_iff X) as (ek' & Y & Z). assert (ek' = ek) by congruence. subst ek'. contradiction.
      * apply Hsame; [unfold glist_of; now rewrite Eg3|]. intros X. destruct (Hkin_iff X) as (ek' & Y & _). discriminate.
Qed.

Section Ops4.
Variable beh : hinfo -> logent -> N -> script.

Theorem remove_handler_AI k w : AI w -> AI (res_world (remove_handler beh k w)).
Proof.
  intros HA. unfold remove_handler. destruct (sm_get k (w_hs w)) as [h0|]; [|exact HA]. clear h0.
  apply rbind_K; [now apply send_global_AI|]. intros [] w1 HA1. destruct (AI_parts _ HA1) as ([HR1 HK1] & HH1 & HG1).
  unfold handlers_remove. destruct (sm_remove k (w_hs w1)) as [[h1 hs]|] eqn:Er; [|exact HA1]. cbn [res_world].
  match goal with |- AI (archs_remove_handler ?w2 h1) =>
    destruct (archs_remove_handler_structure w2 h1) as [Hs Hg]; split; [split; [split|]|] end.
  - match goal with |- RInv (archs_remove_handler ?w2 h1) => apply (RInv_structure w2); [exact Hs|exact Hg|exact HR1] end.
  - match goal with |- KInv (archs_remove_handler ?w2 h1) => apply (KInv_kreg w2); [reflexivity|exact (proj1 (structure_cshape _ _ Hs))|exact HK1] end.
  - exact (remove_handler_entry_HL w1 k h1 hs _ HH1 Er).
  - unfold GInv in *. rewrite Hg. exact HG1.
Qed.
Lemma remove_handlers_AI ks : forall w, AI w -> AI (res_world (remove_handlers beh ks w)).
Proof.
  induction ks as [|k t IH]; intros w HA; cbn [remove_handlers]; [exact HA|].
  apply rbind_K; [now apply remove_handler_AI|]. intros b w1 HA1. now apply IH.
Qed.

Lemma AI_same_hl w w' : FInv w' -> w_hs w' = w_hs w -> w_horder w' = w_horder w -> w_hctr w' = w_hctr w -> w_archs w' = w_archs w -> w_glists w' = w_glists w ->
  SmInv (w_gev w') -> AI w -> AI w'.
Proof.
  intros HF A B C D E G HA. destruct (AI_parts _ HA) as (_ & HH & _). split; [split; [exact HF|]|exact G].
  apply (HL_conv_gl w w'); auto. intros idx. unfold glist_of. now rewrite E.
Qed.

Theorem remove_global_event_AI k w : AI w -> AI (res_world (remove_global_event beh k w)).
Proof.
  intros HA. pose proof (remove_global_event_FInv beh k w (proj1 (proj1 HA))) as HF. unfold remove_global_event in *.
  destruct (sm_get k (w_gev w)); [|exact HA].
  assert (X : AI (res_world (send_global beh RFUEL G_RMGE (mkEv 0 0 k) w))) by now apply send_global_AI.
  destruct (send_global beh RFUEL G_RMGE (mkEv 0 0 k) w) as [[] w1|f w1]; cbn [rbind res_world] in *; [|exact X].
  match goal with |- context [remove_handlers beh ?ks w1] => pose proof (remove_handlers_AI ks w1 X) as Y; destruct (remove_handlers beh ks w1) as [[] w2|f w2] end; cbn [rbind res_world] in *; [|exact Y].
  destruct (sm_remove k (w_gev w2)) as [[info m]|] eqn:Er; [|exact Y]. cbn [res_world] in *.
  apply (AI_same_hl w2); try reflexivity; [exact HF| |exact Y]. cbn [w_gev set_gev]. eapply SlotMap.remove_inv; [exact (proj2 Y)|exact Er].
Qed.

Theorem remove_targeted_event_AI k w : AI w -> AI (res_world (remove_targeted_event beh k w)).
Proof.
  intros HA. pose proof (remove_targeted_event_FInv beh k w (proj1 (proj1 HA))) as HF. unfold remove_targeted_event in *.
  destruct (sm_get k (w_tev w)); [|exact HA].
  assert (X : AI (res_world (send_global beh RFUEL G_RMTE (mkEv 0 0 k) w))) by now apply send_global_AI.
  destruct (send_global beh RFUEL G_RMTE (mkEv 0 0 k) w) as [[] w1|f w1]; cbn [rbind res_world] in *; [|exact X].
  match goal with |- context [remove_handlers beh ?ks w1] => pose proof (remove_handlers_AI ks w1 X) as Y; destruct (remove_handlers beh ks w1) as [[] w2|f w2] end; cbn [rbind res_world] in *; [|exact Y].
  destruct (sm_remove k (w_tev w2)) as [[info m]|] eqn:Er; [|exact Y]. cbn [res_world] in *.
  apply (AI_same_hl w2); try (destruct (e_kind info); reflexivity); [exact HF| |exact Y]. destruct (e_kind info); exact (proj2 Y).
Qed.
Lemma remove_tevents_AI ks : forall w, AI w -> AI (res_world (remove_tevents beh ks w)).
Proof.
  induction ks as [|k t IH]; intros w HA; cbn [remove_tevents]; [exact HA|].
  apply rbind_K; [now apply remove_targeted_event_AI|]. intros b w1 HA1. now apply IH.
Qed.
End Ops4.

(* ---------- Archetypes::remove_component and World::remove_component ---------- *)
Lemma rc_step_hreg cidx ctag w ai : hreg (rc_step cidx ctag w ai) = hreg w.
Proof.
  unfold rc_step. destruct (slab_get (w_archs w) ai) as [a|]; [|reflexivity]. cbn zeta.
  rewrite (fold_left_pres hreg); [rewrite (fold_left_pres hreg)|].
  - change (hreg (notify_remove_with (set_archs w (slab_remove (w_archs w) ai)) ai a) = hreg w). now rewrite hreg_notify_remove_with.
  - intros w' [e vals]. apply (fold_left_pres hreg). intros w'' [c v]. unfold drop_cval. now destruct (ctag_has_drop _).
  - intros w' [e vals]. now destruct (sm_remove e (w_ents w')) as [[? ?]|].
Qed.
Lemma rc_step_arch_sub cidx ctag w ai j a' : arch_at (rc_step cidx ctag w ai) j = Some a' -> arch_at w j = Some a'.
Proof.
  unfold arch_at. destruct (slab_get (w_archs w) ai) as [a|] eqn:Ha; [|unfold rc_step; now rewrite Ha].
  rewrite (proj1 (proj2 (rc_step_fields cidx ctag w ai a Ha))). unfold slab_remove, slab_get. cbn [sl_entries].
  destruct (N.eq_dec ai j) as [->|Hne].
  - rewrite nget_nset_eq; [discriminate|]. unfold slab_get in Ha. destruct (nget (sl_entries (w_archs w)) j) eqn:E; [|discriminate]. eapply nget_some_lt; eauto.
  - now rewrite nget_nset_neq by auto.
Qed.
Lemma rc_step_HL cidx ctag w ai : HL w -> HL (rc_step cidx ctag w ai).
Proof. apply HL_sub; [apply rc_step_hreg|]. intros j a' H. exists a'. split; [eapply rc_step_arch_sub; eauto|reflexivity]. Qed.
Lemma strip_HL cidx w : HL w -> HL (strip cidx w).
Proof.
  apply HL_sub; [reflexivity|]. intros j a' H. rewrite strip_arch_at in H. destruct (arch_at w j) as [a|]; [|discriminate]. inversion H; subst. exists a. split; reflexivity.
Qed.
Lemma archs_remove_component_HL cidx ctag w l : HL w -> HL (archs_remove_component w cidx ctag l).
Proof.
  intros H. rewrite archs_remove_component_unfold. apply strip_HL. apply fold_left_invariant; [exact H|]. intros acc y. apply rc_step_HL.
Qed.

Section Ops5.
Variable beh : hinfo -> logent -> N -> script.

Theorem remove_component_AI k w : AI w -> AI (res_world (remove_component beh k w)).
Proof.
  intros HA. pose proof (remove_component_FInv beh k w (proj1 (proj1 HA))) as HF. unfold remove_component in *.
  destruct (sm_get k (w_comps w)) as [ci0|]; [|exact HA]. clear ci0.
  assert (X1 : AI (res_world (send_global beh RFUEL G_RMC (mkEv 0 0 k) w))) by now apply send_global_AI.
  destruct (send_global beh RFUEL G_RMC (mkEv 0 0 k) w) as [[] w1|f w1]; cbn [rbind res_world] in *; [|exact X1].
  pose proof (add_targeted_event_AI beh T_DESPAWN w1 X1) as X2.
  destruct (add_targeted_event beh T_DESPAWN w1) as [dk w2|f w2]; cbn [rbind res_world] in *; [|exact X2].
  match goal with |- context [flush beh ?q w2] => pose proof (flush_AI beh q w2 X2) as X3; destruct (flush beh q w2) as [[] w3|f w3] end; cbn [rbind res_world] in *; [|exact X3].
  match goal with |- context [remove_handlers beh ?ks w3] => pose proof (remove_handlers_AI beh ks w3 X3) as X4; destruct (remove_handlers beh ks w3) as [[] w4|f w4] end; cbn [rbind res_world] in *; [|exact X4].
  destruct (sm_get k (w_comps w4)) as [ci|]; [|exact X4].
  pose proof (remove_tevents_AI beh (c_ins ci ++ c_rem ci) w4 X4) as X5.
  destruct (remove_tevents beh (c_ins ci ++ c_rem ci) w4) as [[] w5|f w5]; cbn [rbind res_world] in *; [|exact X5].
  destruct (sm_remove k (w_comps w5)) as [[ci' m]|]; [|exact X5]. cbn [res_world] in *.
  destruct (AI_parts _ X5) as (_ & HH5 & HG5). split; [split; [exact HF|]|].
  - change (HL (archs_remove_component (set_comps w5 m (aremove (c_tag ci') (w_cby w5))) (fst k) (c_tag ci') (c_member_of ci'))).
    apply archs_remove_component_HL. apply (HL_conv_gl w5); try reflexivity. exact HH5.
  - unfold GInv in *. unfold refresh_cursor. cbn [w_gev set_res]. rewrite archs_remove_component_unfold. unfold strip. cbn [w_gev set_archs]. now rewrite gev_rc_fold.
Qed.
End Ops5.

(* ---------- every reachable world ---------- *)
Lemma AI_world0 fuel p : AI (world0 fuel p).
Proof.
  split; [split; [apply FInv_world0|]|apply empty_inv].
  unfold HL, HInv, LInv, hlive, glist_of, world0, arch_at. cbn [w_hs w_horder w_hctr w_glists w_archs]. split.
  - split; [apply empty_inv|]. split; [intros hk h H; discriminate|]. split; [intros o hk []|]. split; constructor.
  - split.
    + intros ai a idx Ha. unfold slab_get in Ha. cbn [sl_entries nget] in Ha. destruct (ai =? 0); [|discriminate]. inversion Ha; subst.
      unfold listeners_of. cbn. split; [constructor|]. intros hk. split; [intros []|intros (h & ek & H & _); discriminate].
    + intros idx. cbn [nget]. split; [constructor|]. intros hk. split; [intros []|intros (h & ek & H & _); discriminate].
Qed.

Lemma run_top_all_AI beh w o : AI w -> AI (run_top_all beh w o).
Proof.
  intros HA. destruct o as [o|k]; cbn [run_top_all]; [|now apply remove_component_AI]. destruct o; cbn [run_top].
  - now apply op_spawn_AI. - now apply op_insert_AI. - now apply op_remove_AI. - now apply op_despawn_AI.
  - now apply op_send_AI. - now apply op_send_to_AI. - now apply add_handler_AI. - now apply remove_handler_AI.
  - now apply add_component_AI. - now apply add_global_event_AI. - now apply add_targeted_event_AI.
  - now apply remove_global_event_AI. - now apply remove_targeted_event_AI.
Qed.

Theorem reachable_AI beh fuel p ops : AI (fold_left (run_top_all beh) ops (world0 fuel p)).
Proof. apply fold_left_invariant; [apply AI_world0|]. intros w o. apply run_top_all_AI. Qed.

(* ---------- C08 / C15: which handlers a delivery runs ---------- *)
(* the handler list used by deliver_one for a targeted event *)
Definition delivered_to (w : world) (it : qitem) : list key :=
  if qi_targeted it then
    match sm_get (qi_target it) (w_ents w) with
    | Some loc => match slab_get (w_archs w) (fst loc) with
                  | Some a => listeners_of a (qi_idx it)
                  | None => [] end
    | None => [] end
  else glist_of w (qi_idx it).

Theorem delivered_to_exact w it : HL w ->
  NoDup (delivered_to w it) /\
  forall hk, In hk (delivered_to w it) <->
    if qi_targeted it then
      exists loc a h ek, sm_get (qi_target it) (w_ents w) = Some loc /\ arch_at w (fst loc) = Some a /\
        hlive w hk h /\ h_recv h = RvTargeted ek /\ fst ek = qi_idx it /\ ca_matches (arch_has a) (h_filter h) = true
    else exists h ek, hlive w hk h /\ h_recv h = RvGlobal ek /\ fst ek = qi_idx it.
Proof.
  intros (_ & L1 & L2). unfold delivered_to. destruct (qi_targeted it).
  - destruct (sm_get (qi_target it) (w_ents w)) as [loc|]; [|split; [constructor|]; intros hk; split; [intros []|intros (loc & a & h & ek & X & _); discriminate]].
    destruct (slab_get (w_archs w) (fst loc)) as [a|] eqn:Ha; [|split; [constructor|]; intros hk; split; [intros []|intros (loc' & a & h & ek & X & Y & _); inversion X; subst; unfold arch_at in Y; congruence]].
    destruct (L1 (fst loc) a (qi_idx it) Ha) as [Hnd Hm]. split; [exact Hnd|]. intros hk. rewrite Hm. split.
    + intros (h & ek & A & B & C & D). exists loc, a, h, ek. split; [reflexivity|]. split; [exact Ha|]. split; [exact A|]. split; [exact B|]. split; [exact C|exact D].
    + intros (loc' & a' & h & ek & X & Y & A & B & C & D). inversion X; subst loc'. unfold arch_at in Y. rewrite Ha in Y. inversion Y; subst a'. exists h, ek. split; [exact A|]. split; [exact B|]. split; [exact C|exact D].
  - exact (L2 (qi_idx it)).
Qed.

(* C15: whatever a delivery runs is a live handler; a removed handler is in no list *)
Corollary delivered_handlers_are_live w it hk : HL w -> In hk (delivered_to w it) -> exists h, hlive w hk h.
Proof.
  intros H Hin. apply (proj2 (delivered_to_exact w it H)) in Hin. destruct (qi_targeted it).
  - destruct Hin as (_ & _ & h & _ & _ & _ & X & _). eauto.
  - destruct Hin as (h & _ & X & _). eauto.
Qed.

(* deliver_one runs exactly [delivered_to] (when the registry look-ups succeed) *)
Lemma deliver_one_uses_delivered_to beh it w :
  (if qi_targeted it then get_by_index (w_tev w) (qi_idx it) <> None /\ sm_get (qi_target it) (w_ents w) <> None /\
                          (forall loc, sm_get (qi_target it) (w_ents w) = Some loc -> slab_get (w_archs w) (fst loc) <> None)
   else get_by_index (w_gev w) (qi_idx it) <> None /\ nget (w_glists w) (qi_idx it) <> None) ->
  exists tag kind loc, deliver_one beh it w =
    (let '(w1, ev, sent, taken, fl) := run_handlers beh (delivered_to w it) w it tag loc [] in
       match fl with
       | Some f => (sent, (if taken then w1 else ev_drop w1 (qi_targeted it) tag ev), Some f)
       | None => if taken then (sent, w1, None) else
           match kind with
           | KNormal => (sent, ev_drop w1 (qi_targeted it) tag ev, None)
           | _ => let '(w3, f) := fail_of (builtin_effect kind ev loc w1) in (sent, w3, f)
           end
       end).
Proof.
  unfold deliver_one, delivered_to, glist_of, listeners_of. destruct (qi_targeted it).
  - intros (A & B & C). destruct (get_by_index (w_tev w) (qi_idx it)) as [[k info]|]; [|congruence].
    destruct (sm_get (qi_target it) (w_ents w)) as [loc|]; [|congruence]. specialize (C loc eq_refl).
    destruct (slab_get (w_archs w) (fst loc)) as [a|]; [|congruence]. exists (e_tag info), (e_kind info), loc. reflexivity.
  - intros (A & B). destruct (get_by_index (w_gev w) (qi_idx it)) as [[k info]|]; [|congruence].
    destruct (nget (w_glists w) (qi_idx it)) as [l|]; [|congruence]. exists (e_tag info), (e_kind info), (U32MAX, U32MAX). reflexivity.
Qed.
