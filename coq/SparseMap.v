(* SparseMap.v : src/sparse_map.rs - the sparse set behind every fetcher cache (FetcherState::map:
   SparseMap<ArchetypeIdx, ArchState>) - as an executable model with its unchecked operations made explicit,
   and the theorems: under the invariant SpInv no operation reaches an unchecked failure, SpInv is kept, and
   the structure refines a finite map key -> value (insert / remove / get are the map operations; keys() lists
   each key of the map once; values() is aligned with keys()).
     sparse  : key -> position in dense (KMAX = none)
     dense   : the values, contiguous
     indices : the key of each position
   Keys are u32 indices; KMAX = u32::MAX is the "vacant" marker (K::MAX). *)
From Coq Require Import List NArith Bool Lia.
Import ListNotations.
Require Import EV.Base EV.ListN.
Open Scope N_scope.

Section SparseMap.
Context {V : Type}.

Record spm := mkSp { sp_sparse : list N; sp_dense : list V; sp_indices : list N }.
Definition sp_empty : spm := mkSp [] [] [].

(* outcome of an operation: a value, the documented panic (insert with K::MAX), or an unchecked failure
   (get_unchecked out of bounds / assume_unchecked false), identified by its source line *)
Inductive out (A : Type) := Val (a : A) | Panic | UB (line : N).
Arguments Val {A}. Arguments Panic {A}. Arguments UB {A}.

(* sparse_map.rs:26-36 *)
Definition sp_get (m : spm) (k : N) : out (option V) :=
  match nget (sp_sparse m) k with
  | None => Val None
  | Some idx =>
      if U32MAX <=? idx then Val None
      else match nget (sp_dense m) idx with Some v => Val (Some v) | None => UB 33 end
  end.

(* sparse_map.rs:57-89 *)
Definition sp_insert (m : spm) (k : N) (v : V) : out (option V * spm) :=
  if k =? U32MAX then Panic else
  let sparse := nrepeat_to (sp_sparse m) (N.to_nat k + 1) U32MAX in
  match nget sparse k with
  | None => UB 71
  | Some idx =>
      if idx =? U32MAX then
        Val (None, mkSp (nset sparse k (nlen (sp_dense m))) (sp_dense m ++ [v]) (sp_indices m ++ [k]))
      else match nget (sp_dense m) idx with
           | Some old => Val (Some old, mkSp sparse (nset (sp_dense m) idx v) (sp_indices m))
           | None => UB 83
           end
  end.

(* sparse_map.rs:92-115 *)
Definition sp_remove (m : spm) (k : N) : out (option V * spm) :=
  match nget (sp_sparse m) k with
  | None => Val (None, m)
  | Some idx =>
      let sparse := nset (sp_sparse m) k U32MAX in
      if idx =? U32MAX then Val (None, mkSp sparse (sp_dense m) (sp_indices m)) else
      match nget (sp_dense m) idx with
      | None => UB 98
      | Some res =>
          if negb (idx <? nlen (sp_indices m)) then UB 102 else
          let dense := swap_remove (sp_dense m) idx in
          let indices := swap_remove (sp_indices m) idx in
          match nget indices idx with
          | None => Val (Some res, mkSp sparse dense indices)
          | Some moved =>
              match nget sparse moved with
              | None => UB 107
              | Some _ => Val (Some res, mkSp (nset sparse moved idx) dense indices)
              end
          end
      end
  end.

Definition sp_keys (m : spm) : list N := sp_indices m.
Definition sp_values (m : spm) : list V := sp_dense m.

(* sparse_map.rs:129-142: drop trailing vacant entries of [sparse] *)
Fixpoint strip_max (r : list N) : list N :=
  match r with
  | [] => []
  | x :: t => if x =? U32MAX then strip_max t else r
  end.
Definition sp_shrink (m : spm) : spm := mkSp (rev (strip_max (rev (sp_sparse m)))) (sp_dense m) (sp_indices m).

(* ---------- the abstraction and the invariant ---------- *)
Definition sp_abs (m : spm) (k : N) : option V :=
  match nget (sp_sparse m) k with
  | Some idx => if U32MAX <=? idx then None else nget (sp_dense m) idx
  | None => None
  end.

Definition SpInv (m : spm) : Prop :=
  nlen (sp_dense m) = nlen (sp_indices m) /\ nlen (sp_dense m) < U32MAX /\
  (forall i k, nget (sp_indices m) i = Some k -> k <> U32MAX /\ nget (sp_sparse m) k = Some i) /\
  (forall k i, nget (sp_sparse m) k = Some i -> i <> U32MAX -> nget (sp_indices m) i = Some k) /\
  (forall k i, nget (sp_sparse m) k = Some i -> i <= U32MAX).

(* ---------- list facts ---------- *)
Lemma nget_nrepeat_to' {A} (d : A) n : forall l i, nget (nrepeat_to l n d) i = match nget l i with Some x => Some x | None => if i <? N.of_nat n then Some d else None end.
Proof.
  induction n as [|n IH]; intros l i; cbn [nrepeat_to].
  - destruct (nget l i); [reflexivity|]. now replace (i <? N.of_nat 0) with false by (symmetry; apply N.ltb_ge; lia).
  - destruct l as [|h t]; cbn [nget]; destruct (i =? 0) eqn:E.
    + apply N.eqb_eq in E. subst. reflexivity.
    + rewrite IH. cbn [nget]. apply N.eqb_neq in E. destruct (N.pred i <? N.of_nat n) eqn:L1; destruct (i <? N.of_nat (S n)) eqn:L2; try reflexivity;
        [apply N.ltb_lt in L1; apply N.ltb_ge in L2; lia|apply N.ltb_ge in L1; apply N.ltb_lt in L2; lia].
    + reflexivity.
    + rewrite IH. destruct (nget t (N.pred i)); [reflexivity|]. apply N.eqb_neq in E. destruct (N.pred i <? N.of_nat n) eqn:L1; destruct (i <? N.of_nat (S n)) eqn:L2; try reflexivity;
        [apply N.ltb_lt in L1; apply N.ltb_ge in L2; lia|apply N.ltb_ge in L1; apply N.ltb_lt in L2; lia].
Qed.

Lemma nget_nset {A} (l : list A) i j x : nget (nset l i x) j = if j =? i then (if i <? nlen l then Some x else None) else nget l j.
Proof.
  destruct (j =? i) eqn:E.
  - apply N.eqb_eq in E. subst j. destruct (i <? nlen l) eqn:L; [apply N.ltb_lt in L; now apply nget_nset_eq|].
    apply N.ltb_ge in L. apply nget_ge_none. now rewrite nlen_nset.
  - apply N.eqb_neq in E. apply nget_nset_neq. congruence.
Qed.

(* swap_remove on an arbitrary list, in terms of its last element *)
Lemma nget_swap_remove' {A} (l : list A) i j : i < nlen l ->
  nget (swap_remove l i) j =
    if j =? i then (if i =? nlen l - 1 then None else nget l (nlen l - 1))
    else if j <? nlen l - 1 then nget l j else None.
Proof.
  intros Hi. destruct l as [|x t] using rev_ind; [rewrite nlen_nil in Hi; lia|]. clear IHt.
  rewrite nlen_app in *. replace (nlen [x]) with 1 in * by reflexivity. replace (nlen t + 1 - 1) with (nlen t) by lia.
  rewrite nget_swap_remove by lia. rewrite nget_snoc_last.
  destruct (j =? i); [reflexivity|]. destruct (j <? nlen t) eqn:L; [|reflexivity]. apply N.ltb_lt in L. now rewrite nget_app_l.
Qed.

Lemma nlen_swap_remove_le {A} (l : list A) i : nlen (swap_remove l i) <= nlen l.
Proof.
  destruct l as [|x t] using rev_ind; [rewrite swap_remove_nil; lia|]. rewrite swap_remove_snoc, nlen_app. destruct (i =? nlen t); [lia|]. rewrite nlen_nset. lia.
Qed.

(* ---------- get ---------- *)
Theorem sp_get_spec m k : SpInv m -> sp_get m k = Val (sp_abs m k).
Proof.
  intros (Hl & Hm & H1 & H2 & H3). unfold sp_get, sp_abs. destruct (nget (sp_sparse m) k) as [idx|] eqn:E; [|reflexivity].
  destruct (U32MAX <=? idx) eqn:L; [reflexivity|]. apply N.leb_gt in L.
  assert (Hi : nget (sp_indices m) idx = Some k) by (apply H2; [exact E|lia]).
  apply nget_some_lt in Hi. rewrite <- Hl in Hi. destruct (nget_lt_some _ _ Hi) as [v Hv]. now rewrite Hv.
Qed.

Lemma sp_abs_some m k v : SpInv m -> sp_abs m k = Some v <-> exists i, nget (sp_indices m) i = Some k /\ nget (sp_dense m) i = Some v.
Proof.
  intros (Hl & Hm & H1 & H2 & H3). unfold sp_abs. split.
  - destruct (nget (sp_sparse m) k) as [idx|] eqn:E; [|discriminate]. destruct (U32MAX <=? idx) eqn:L; [discriminate|]. apply N.leb_gt in L.
    intros Hv. exists idx. split; [apply H2; [exact E|lia]|exact Hv].
  - intros (i & Hi & Hv). destruct (H1 i k Hi) as [Hk Hs]. rewrite Hs. pose proof (nget_some_lt _ _ _ Hv) as Hlt.
    replace (U32MAX <=? i) with false by (symmetry; apply N.leb_gt; lia). exact Hv.
Qed.

(* ---------- insert ---------- *)
Lemma pad_get (sparse : list N) n k0 :
  nget (nrepeat_to sparse n U32MAX) k0 = match nget sparse k0 with Some x => Some x | None => if k0 <? N.of_nat n then Some U32MAX else None end.
Proof. apply nget_nrepeat_to'. Qed.
Lemma nlen_pad (sparse : list N) n : nlen sparse <= nlen (nrepeat_to sparse n U32MAX) /\ N.of_nat n <= nlen (nrepeat_to sparse n U32MAX).
Proof.
  revert sparse. induction n as [|n IH]; intros sparse; cbn [nrepeat_to]; [unfold nlen; lia|].
  destruct sparse as [|h t]; rewrite !nlen_cons; [destruct (IH []) as [A B]; rewrite nlen_nil in *; lia|destruct (IH t) as [A B]; lia].
Qed.

Theorem sp_insert_spec m k v : SpInv m -> k <> U32MAX -> nlen (sp_dense m) + 1 < U32MAX ->
  exists m', sp_insert m k v = Val (sp_abs m k, m') /\ SpInv m' /\ sp_abs m' k = Some v /\ (forall k', k' <> k -> sp_abs m' k' = sp_abs m k').
Proof.
  intros (Hl & Hm & H1 & H2 & H3) Hk Hcap. unfold sp_insert. replace (k =? U32MAX) with false by (symmetry; now apply N.eqb_neq).
  set (sparse' := nrepeat_to (sp_sparse m) (N.to_nat k + 1) U32MAX).
  assert (Hp : forall k0, nget sparse' k0 = match nget (sp_sparse m) k0 with Some x => Some x | None => if k0 <? N.of_nat (N.to_nat k + 1) then Some U32MAX else None end) by (intros; apply pad_get).
  assert (Hklt : k <? N.of_nat (N.to_nat k + 1) = true) by (apply N.ltb_lt; lia).
  assert (Hkl : k < nlen sparse') by (destruct (nlen_pad (sp_sparse m) (N.to_nat k + 1)) as [_ B]; fold sparse' in B; lia).
  (* old entries survive the padding; padded entries are vacant *)
  assert (Pa : forall k0 i, nget (sp_sparse m) k0 = Some i -> nget sparse' k0 = Some i) by (intros k0 i E; rewrite Hp, E; reflexivity).
  assert (Pb : forall k0 i, nget sparse' k0 = Some i -> i <> U32MAX -> nget (sp_sparse m) k0 = Some i).
  { intros k0 i E Hi. rewrite Hp in E. destruct (nget (sp_sparse m) k0); [exact E|]. destruct (k0 <? _); inversion E; congruence. }
  assert (Pc : forall k0, sp_abs (mkSp sparse' (sp_dense m) (sp_indices m)) k0 = sp_abs m k0).
  { intros k0. unfold sp_abs. cbn [sp_sparse sp_dense]. rewrite Hp. destruct (nget (sp_sparse m) k0); [reflexivity|]. destruct (k0 <? _); [|reflexivity].
    now replace (U32MAX <=? U32MAX) with true by (symmetry; apply N.leb_le; lia). }
  destruct (nget sparse' k) as [idx|] eqn:Ek; [|rewrite Hp, Hklt in Ek; destruct (nget (sp_sparse m) k); discriminate].
  destruct (idx =? U32MAX) eqn:Ei.
  - apply N.eqb_eq in Ei. subst idx.
    assert (Hold : sp_abs m k = None).
    { rewrite <- Pc. unfold sp_abs. cbn [sp_sparse]. rewrite Ek. now replace (U32MAX <=? U32MAX) with true by (symmetry; apply N.leb_le; lia). }
    rewrite Hold. eexists. split; [reflexivity|].
    assert (Hfresh : forall i k0, nget (sp_indices m) i = Some k0 -> k0 <> k).
    { intros i k0 Hi ->. destruct (H1 i k Hi) as [_ Hs]. rewrite (Pa _ _ Hs) in Ek. inversion Ek; subst. apply nget_some_lt in Hi. lia. }
    split; [|split].
    + unfold SpInv. cbn [sp_sparse sp_dense sp_indices]. rewrite !nlen_app. replace (nlen [v]) with 1 by reflexivity. replace (nlen [k]) with 1 by reflexivity.
      split; [lia|]. split; [lia|]. split; [|split].
      * intros i k0 Hi. destruct (N.lt_ge_cases i (nlen (sp_indices m))) as [L|L].
        -- rewrite nget_app_l in Hi by exact L. destruct (H1 i k0 Hi) as [A B]. split; [exact A|]. rewrite nget_nset.
           replace (k0 =? k) with false by (symmetry; apply N.eqb_neq; eapply Hfresh; eauto). now apply Pa.
        -- rewrite nget_app_r in Hi by exact L. destruct (i - nlen (sp_indices m) =? 0) eqn:Z.
           ++ apply N.eqb_eq in Z. replace (i - nlen (sp_indices m)) with 0 in Hi by lia. cbn in Hi. inversion Hi; subst k0. split; [exact Hk|].
              rewrite nget_nset, N.eqb_refl. replace (k <? nlen sparse') with true by (symmetry; now apply N.ltb_lt). f_equal. lia.
           ++ cbn [nget] in Hi. rewrite Z in Hi. discriminate.
      * intros k0 i Hs Hi. rewrite nget_nset in Hs. destruct (k0 =? k) eqn:E.
        -- apply N.eqb_eq in E. subst k0. replace (k <? nlen sparse') with true in Hs by (symmetry; now apply N.ltb_lt). inversion Hs; subst i.
           rewrite Hl. apply nget_snoc_last.
        -- pose proof (H2 _ _ (Pb _ _ Hs Hi) Hi) as X. rewrite nget_app_l; [exact X|]. now apply nget_some_lt in X.
      * intros k0 i Hs. rewrite nget_nset in Hs. destruct (k0 =? k).
        -- destruct (k <? nlen sparse'); inversion Hs; subst. lia.
        -- rewrite Hp in Hs. destruct (nget (sp_sparse m) k0) eqn:E; [inversion Hs; subst; eauto|]. destruct (k0 <? _); inversion Hs; subst. lia.
    + unfold sp_abs. cbn [sp_sparse sp_dense]. rewrite nget_nset, N.eqb_refl. replace (k <? nlen sparse') with true by (symmetry; now apply N.ltb_lt).
      replace (U32MAX <=? nlen (sp_dense m)) with false by (symmetry; apply N.leb_gt; lia). apply nget_snoc_last.
    + intros k' Hne. rewrite <- Pc. unfold sp_abs. cbn [sp_sparse sp_dense]. rewrite nget_nset. replace (k' =? k) with false by (symmetry; now apply N.eqb_neq).
      destruct (nget sparse' k') as [i|] eqn:E; [|reflexivity]. destruct (U32MAX <=? i) eqn:L; [reflexivity|]. apply N.leb_gt in L.
      assert (Hi : nget (sp_indices m) i = Some k') by (apply H2; [apply Pb; [exact E|lia]|lia]). apply nget_some_lt in Hi. rewrite nget_app_l; [reflexivity|lia].
  - apply N.eqb_neq in Ei. pose proof (Pb _ _ Ek Ei) as Es. pose proof (H2 _ _ Es Ei) as Hi. pose proof (nget_some_lt _ _ _ Hi) as Hlt. rewrite <- Hl in Hlt.
    destruct (nget_lt_some _ _ Hlt) as [old Ho]. rewrite Ho.
    assert (Hold : sp_abs m k = Some old).
    { unfold sp_abs. rewrite Es. replace (U32MAX <=? idx) with false by (symmetry; apply N.leb_gt; lia). exact Ho. }
    rewrite Hold. eexists. split; [reflexivity|]. split; [|split].
    + unfold SpInv. cbn [sp_sparse sp_dense sp_indices]. rewrite nlen_nset. split; [exact Hl|]. split; [exact Hm|]. split; [|split].
      * intros i k0 X. destruct (H1 i k0 X) as [A B]. split; [exact A|now apply Pa].
      * intros k0 i X Y. apply H2; [now apply Pb|exact Y].
      * intros k0 i X. rewrite Hp in X. destruct (nget (sp_sparse m) k0) eqn:E; [inversion X; subst; eauto|]. destruct (k0 <? _); inversion X; subst. lia.
    + unfold sp_abs. cbn [sp_sparse sp_dense]. rewrite Ek. replace (U32MAX <=? idx) with false by (symmetry; apply N.leb_gt; lia). now apply nget_nset_eq.
    + intros k' Hne. rewrite <- Pc. unfold sp_abs. cbn [sp_sparse sp_dense]. destruct (nget sparse' k') as [i|] eqn:E; [|reflexivity].
      destruct (U32MAX <=? i) eqn:L; [reflexivity|]. apply N.leb_gt in L. rewrite nget_nset_neq; [reflexivity|].
      intros Heq. subst i. assert (X : nget (sp_indices m) idx = Some k') by (apply H2; [apply Pb; [exact E|lia]|lia]). congruence.
Qed.

(* ---------- remove ---------- *)
Theorem sp_remove_spec m k : SpInv m ->
  exists m', sp_remove m k = Val (sp_abs m k, m') /\ SpInv m' /\ sp_abs m' k = None /\ (forall k', k' <> k -> sp_abs m' k' = sp_abs m k').
Proof.
  intros HI. pose proof HI as (Hl & Hm & H1 & H2 & H3). unfold sp_remove.
  destruct (nget (sp_sparse m) k) as [idx|] eqn:Es.
  2:{ exists m. assert (Ha : sp_abs m k = None) by (unfold sp_abs; now rewrite Es). rewrite Ha. auto. }
  assert (Hkl : k < nlen (sp_sparse m)) by (eapply nget_some_lt; eauto).
  destruct (idx =? U32MAX) eqn:Ei.
  - apply N.eqb_eq in Ei. subst idx.
    assert (Ha : sp_abs m k = None) by (unfold sp_abs; rewrite Es; now replace (U32MAX <=? U32MAX) with true by (symmetry; apply N.leb_le; lia)).
    rewrite Ha. eexists. split; [reflexivity|].
    assert (Hsame : forall k0, nget (nset (sp_sparse m) k U32MAX) k0 = nget (sp_sparse m) k0).
    { intros k0. rewrite nget_nset. destruct (k0 =? k) eqn:E; [|reflexivity]. apply N.eqb_eq in E. subst k0.
      replace (k <? nlen (sp_sparse m)) with true by (symmetry; now apply N.ltb_lt). now rewrite Es. }
    split; [|split].
    + unfold SpInv. cbn [sp_sparse sp_dense sp_indices]. split; [exact Hl|]. split; [exact Hm|]. split; [|split]; intros a b; rewrite ?Hsame; eauto.
    + unfold sp_abs. cbn [sp_sparse sp_dense]. rewrite Hsame. exact Ha.
    + intros k' _. unfold sp_abs. cbn [sp_sparse sp_dense]. now rewrite Hsame.
  - apply N.eqb_neq in Ei. pose proof (H2 _ _ Es Ei) as Hik. pose proof (nget_some_lt _ _ _ Hik) as Hlt.
    assert (Hltd : idx < nlen (sp_dense m)) by (rewrite Hl; exact Hlt). destruct (nget_lt_some _ _ Hltd) as [res Hres]. rewrite Hres.
    replace (idx <? nlen (sp_indices m)) with true by (symmetry; now apply N.ltb_lt). cbn [negb].
    assert (Ha : sp_abs m k = Some res).
    { unfold sp_abs. rewrite Es. pose proof (H3 _ _ Es). replace (U32MAX <=? idx) with false by (symmetry; apply N.leb_gt; lia). exact Hres. }
    rewrite Ha. set (L := nlen (sp_indices m)) in *.
    set (sparse1 := nset (sp_sparse m) k U32MAX). set (dense' := swap_remove (sp_dense m) idx). set (indices' := swap_remove (sp_indices m) idx).
    assert (Hid : forall j, nget indices' j = if j =? idx then (if idx =? L - 1 then None else nget (sp_indices m) (L - 1)) else if j <? L - 1 then nget (sp_indices m) j else None)
      by (intros j; unfold indices'; now rewrite nget_swap_remove' by exact Hlt).
    assert (Hdd : forall j, nget dense' j = if j =? idx then (if idx =? L - 1 then None else nget (sp_dense m) (L - 1)) else if j <? L - 1 then nget (sp_dense m) j else None)
      by (intros j; unfold dense'; rewrite nget_swap_remove' by exact Hltd; now rewrite Hl).
    assert (Hlen' : nlen dense' = nlen indices' /\ nlen dense' < U32MAX).
    { pose proof (nlen_swap_remove _ _ Hltd). pose proof (nlen_swap_remove _ _ Hlt). fold dense' in H. fold indices' in H0. lia. }
    assert (Hs1 : forall k0, nget sparse1 k0 = if k0 =? k then Some U32MAX else nget (sp_sparse m) k0).
    { intros k0. unfold sparse1. rewrite nget_nset. destruct (k0 =? k); [|reflexivity]. now replace (k <? nlen (sp_sparse m)) with true by (symmetry; now apply N.ltb_lt). }
    (* every other key sits at a position that is neither idx nor (when something moves) the last one *)
    assert (Hother : forall k0 i, k0 <> k -> nget (sp_sparse m) k0 = Some i -> i <> U32MAX -> i <> idx /\ i < L /\ nget (sp_indices m) i = Some k0).
    { intros k0 i Hne E Hi. pose proof (H2 _ _ E Hi) as X. split; [intros ->; congruence|]. split; [eapply nget_some_lt; eauto|exact X]. }
    rewrite Hid, N.eqb_refl. destruct (N.eq_dec idx (L - 1)) as [Elast|Elast].
    + (* the removed entry was the last one *)
      replace (idx =? L - 1) with true by (symmetry; now apply N.eqb_eq). eexists. split; [reflexivity|]. split; [|split].
      * unfold SpInv. cbn [sp_sparse sp_dense sp_indices]. split; [exact (proj1 Hlen')|]. split; [exact (proj2 Hlen')|]. split; [|split].
        -- intros j k0 Hj. rewrite Hid in Hj. destruct (j =? idx) eqn:E; [replace (idx =? L - 1) with true in Hj by (symmetry; now apply N.eqb_eq); discriminate|]. apply N.eqb_neq in E.
           destruct (j <? L - 1) eqn:Lj; [|discriminate]. destruct (H1 j k0 Hj) as [A B]. split; [exact A|]. rewrite Hs1.
           replace (k0 =? k) with false; [exact B|]. symmetry. apply N.eqb_neq. intros ->. rewrite Es in B. inversion B. congruence.
        -- intros k0 i Hs Hi. rewrite Hs1 in Hs. destruct (k0 =? k) eqn:E; [inversion Hs; congruence|]. apply N.eqb_neq in E.
           destruct (Hother k0 i E Hs Hi) as (A & B & C). rewrite Hid. replace (i =? idx) with false by (symmetry; now apply N.eqb_neq).
           replace (i <? L - 1) with true by (symmetry; apply N.ltb_lt; lia). exact C.
        -- intros k0 i Hs. rewrite Hs1 in Hs. destruct (k0 =? k); [inversion Hs; lia|eauto].
      * unfold sp_abs. cbn [sp_sparse sp_dense]. rewrite Hs1, N.eqb_refl. now replace (U32MAX <=? U32MAX) with true by (symmetry; apply N.leb_le; lia).
      * intros k' Hne. unfold sp_abs. cbn [sp_sparse sp_dense]. rewrite Hs1. replace (k' =? k) with false by (symmetry; now apply N.eqb_neq).
        destruct (nget (sp_sparse m) k') as [i|] eqn:E; [|reflexivity]. destruct (U32MAX <=? i) eqn:Li; [reflexivity|]. apply N.leb_gt in Li.
        destruct (Hother k' i Hne E ltac:(lia)) as (A & B & C). rewrite Hdd. replace (i =? idx) with false by (symmetry; now apply N.eqb_neq).
        now replace (i <? L - 1) with true by (symmetry; apply N.ltb_lt; lia).
    + (* the last entry moves into the hole *)
      replace (idx =? L - 1) with false by (symmetry; now apply N.eqb_neq). assert (HL1 : L - 1 < L) by lia. destruct (nget_lt_some _ _ HL1) as [moved Hmv]. rewrite Hmv.
      destruct (H1 _ _ Hmv) as [Hmm Hms]. assert (Hmk : moved <> k) by (intros ->; rewrite Es in Hms; inversion Hms; lia).
      rewrite Hs1. replace (moved =? k) with false by (symmetry; now apply N.eqb_neq). rewrite Hms.
      assert (Hml : moved < nlen sparse1) by (unfold sparse1; rewrite nlen_nset; eapply nget_some_lt; eauto).
      assert (Hs2 : forall k0, nget (nset sparse1 moved idx) k0 = if k0 =? moved then Some idx else if k0 =? k then Some U32MAX else nget (sp_sparse m) k0).
      { intros k0. rewrite nget_nset. destruct (k0 =? moved); [now replace (moved <? nlen sparse1) with true by (symmetry; now apply N.ltb_lt)|apply Hs1]. }
      eexists. split; [reflexivity|]. split; [|split].
      * unfold SpInv. cbn [sp_sparse sp_dense sp_indices]. split; [exact (proj1 Hlen')|]. split; [exact (proj2 Hlen')|]. split; [|split].
        -- intros j k0 Hj. rewrite Hid in Hj. destruct (j =? idx) eqn:E.
           ++ apply N.eqb_eq in E. subst j. replace (idx =? L - 1) with false in Hj by (symmetry; now apply N.eqb_neq). rewrite Hmv in Hj. inversion Hj; subst k0.
              split; [exact Hmm|]. now rewrite Hs2, N.eqb_refl.
           ++ apply N.eqb_neq in E. destruct (j <? L - 1) eqn:Lj; [|discriminate]. apply N.ltb_lt in Lj. destruct (H1 j k0 Hj) as [A B]. split; [exact A|]. rewrite Hs2.
              replace (k0 =? moved) with false by (symmetry; apply N.eqb_neq; intros ->; rewrite Hms in B; inversion B; lia).
              replace (k0 =? k) with false; [exact B|]. symmetry. apply N.eqb_neq. intros ->. rewrite Es in B. inversion B. congruence.
        -- intros k0 i Hs Hi. rewrite Hs2 in Hs. destruct (k0 =? moved) eqn:E1.
           ++ apply N.eqb_eq in E1. subst k0. inversion Hs; subst i. rewrite Hid, N.eqb_refl. replace (idx =? L - 1) with false by (symmetry; now apply N.eqb_neq). exact Hmv.
           ++ apply N.eqb_neq in E1. destruct (k0 =? k) eqn:E2; [inversion Hs; congruence|]. apply N.eqb_neq in E2.
              destruct (Hother k0 i E2 Hs Hi) as (A & B & C). rewrite Hid. replace (i =? idx) with false by (symmetry; now apply N.eqb_neq).
              assert (i <> L - 1) by (intros ->; congruence). replace (i <? L - 1) with true by (symmetry; apply N.ltb_lt; lia). exact C.
        -- intros k0 i Hs. rewrite Hs2 in Hs. destruct (k0 =? moved); [inversion Hs; subst; eauto|]. destruct (k0 =? k); [inversion Hs; lia|eauto].
      * unfold sp_abs. cbn [sp_sparse sp_dense]. rewrite Hs2. replace (k =? moved) with false by (symmetry; apply N.eqb_neq; congruence). rewrite N.eqb_refl.
        now replace (U32MAX <=? U32MAX) with true by (symmetry; apply N.leb_le; lia).
      * intros k' Hne. unfold sp_abs. cbn [sp_sparse sp_dense]. rewrite Hs2. destruct (k' =? moved) eqn:E1.
        -- apply N.eqb_eq in E1. subst k'. rewrite Hms. pose proof (H3 _ _ Es). replace (U32MAX <=? idx) with false by (symmetry; apply N.leb_gt; lia).
           replace (U32MAX <=? L - 1) with false by (symmetry; apply N.leb_gt; lia). rewrite Hdd, N.eqb_refl. now replace (idx =? L - 1) with false by (symmetry; now apply N.eqb_neq).
        -- apply N.eqb_neq in E1. replace (k' =? k) with false by (symmetry; now apply N.eqb_neq).
           destruct (nget (sp_sparse m) k') as [i|] eqn:E; [|reflexivity]. destruct (U32MAX <=? i) eqn:Li; [reflexivity|]. apply N.leb_gt in Li.
           destruct (Hother k' i Hne E ltac:(lia)) as (A & B & C). rewrite Hdd. replace (i =? idx) with false by (symmetry; now apply N.eqb_neq).
           assert (i <> L - 1) by (intros ->; congruence). now replace (i <? L - 1) with true by (symmetry; apply N.ltb_lt; lia).
Qed.

Ltac break_inner :=
  match goal with
  | |- context [match ?x with _ => _ end] => destruct x eqn:?
  | |- context [if ?x then _ else _] => destruct x eqn:?
  | |- _ = _ -> _ => let H := fresh in intros H; inversion H; subst; clear H; cbn [sp_dense]; rewrite ?nlen_app, ?nlen_nset; try (change (nlen [_]) with 1); try lia
  end.

(* ---------- keys / values ---------- *)
Theorem sp_keys_spec m : SpInv m ->
  NoDup (sp_keys m) /\ (forall k, In k (sp_keys m) <-> sp_abs m k <> None) /\
  (forall i k, nget (sp_keys m) i = Some k -> nget (sp_values m) i = sp_abs m k) /\ length (sp_keys m) = length (sp_values m).
Proof.
  intros HI. pose proof HI as (Hl & Hm & H1 & H2 & H3). unfold sp_keys, sp_values. split; [|split; [|split]].
  - (* two positions with the same key are the same position *)
    assert (G : forall l : list N, (forall i j k, nget l i = Some k -> nget l j = Some k -> i = j) -> NoDup l).
    { induction l as [|x t IH]; intros Hinj; constructor.
      - intros Hin. apply in_nget in Hin as [j Hj]. specialize (Hinj 0 (j + 1) x eq_refl). rewrite nget_cons_succ in Hinj. specialize (Hinj Hj). lia.
      - apply IH. intros i j k A B. assert (i + 1 = j + 1) by (apply (Hinj (i + 1) (j + 1) k); now rewrite nget_cons_succ). lia. }
    apply G. intros i j k A B. destruct (H1 _ _ A) as [_ X]. destruct (H1 _ _ B) as [_ Y]. congruence.
  - intros k. split.
    + intros Hin. apply in_nget in Hin as [i Hi]. pose proof (nget_some_lt _ _ _ Hi) as Hlt. rewrite <- Hl in Hlt. destruct (nget_lt_some _ _ Hlt) as [v Hv].
      rewrite (proj2 (sp_abs_some m k v HI)); [discriminate|eauto].
    + intros Hne. destruct (sp_abs m k) as [v|] eqn:E; [|congruence]. apply (sp_abs_some m k v HI) in E as (i & Hi & _). eapply nget_in; eauto.
  - intros i k Hi. pose proof (nget_some_lt _ _ _ Hi) as Hlt. rewrite <- Hl in Hlt. destruct (nget_lt_some _ _ Hlt) as [v Hv]. rewrite Hv. symmetry. apply (sp_abs_some m k v HI). eauto.
  - unfold nlen in Hl. lia.
Qed.

Lemma SpInv_empty : SpInv sp_empty.
Proof.
  unfold SpInv, sp_empty. cbn [sp_sparse sp_dense sp_indices]. split; [reflexivity|]. split; [reflexivity|]. split; [|split]; intros a b H; rewrite nget_nil in H; discriminate.
Qed.

(* ---------- every operation sequence: refinement to a finite map, no unchecked failure ---------- *)
Inductive sp_op := SpIns (k : N) (v : V) | SpRem (k : N).
Definition sp_step (m : spm) (o : sp_op) : out spm :=
  match o with
  | SpIns k v => match sp_insert m k v with Val (_, m') => Val m' | Panic => Panic | UB l => UB l end
  | SpRem k => match sp_remove m k with Val (_, m') => Val m' | Panic => Panic | UB l => UB l end
  end.
Fixpoint sp_run (m : spm) (ops : list sp_op) : out spm :=
  match ops with
  | [] => Val m
  | o :: t => match sp_step m o with Val m' => sp_run m' t | Panic => Panic | UB l => UB l end
  end.
(* the specification: a function key -> option value *)
Definition spec_step (f : N -> option V) (o : sp_op) : N -> option V :=
  match o with
  | SpIns k v => fun k' => if k' =? k then Some v else f k'
  | SpRem k => fun k' => if k' =? k then None else f k'
  end.
Definition op_ok (o : sp_op) : Prop := match o with SpIns k _ => k <> U32MAX | SpRem _ => True end.

Theorem sp_run_refines : forall ops m f, SpInv m -> (forall k, sp_abs m k = f k) -> Forall op_ok ops ->
  nlen (sp_dense m) + N.of_nat (length ops) < U32MAX ->
  exists m', sp_run m ops = Val m' /\ SpInv m' /\ (forall k, sp_abs m' k = fold_left spec_step ops f k).
Proof.
  induction ops as [|o t IH]; intros m f HI Hf Hok Hcap; cbn [sp_run fold_left]; [eauto|].
  inversion Hok as [|o' t' Ho Ht]; subst. cbn [length] in Hcap.
  destruct o as [k v|k]; cbn [sp_step].
  - destruct (sp_insert_spec m k v HI Ho ltac:(lia)) as (m' & E & HI' & A & B). rewrite E.
    assert (Hd : nlen (sp_dense m') <= nlen (sp_dense m) + 1).
    { revert E. unfold sp_insert. replace (k =? U32MAX) with false by (symmetry; now apply N.eqb_neq). repeat break_inner. }
    apply IH; [exact HI'| |exact Ht|lia]. intros k'. cbn [spec_step]. destruct (k' =? k) eqn:Ek; [apply N.eqb_eq in Ek; subst; exact A|]. rewrite <- Hf. apply B. now apply N.eqb_neq.
  - destruct (sp_remove_spec m k HI) as (m' & E & HI' & A & B). rewrite E.
    assert (Hd : nlen (sp_dense m') <= nlen (sp_dense m)).
    { revert E. unfold sp_remove. pose proof (nlen_swap_remove_le (sp_dense m)) as Hsr. repeat break_inner; apply Hsr. }
    apply IH; [exact HI'| |exact Ht|lia]. intros k'. cbn [spec_step]. destruct (k' =? k) eqn:Ek; [apply N.eqb_eq in Ek; subst; exact A|]. rewrite <- Hf. apply B. now apply N.eqb_neq.
Qed.

(* from the empty map: every sequence of fewer than 2^32-1 operations with keys other than K::MAX runs without
   an unchecked failure or panic and computes the finite map of the specification *)
Corollary sp_from_empty ops : Forall op_ok ops -> N.of_nat (length ops) < U32MAX ->
  exists m', sp_run sp_empty ops = Val m' /\ SpInv m' /\ (forall k, sp_abs m' k = fold_left spec_step ops (fun _ => None) k).
Proof. intros Hok Hcap. apply sp_run_refines; [apply SpInv_empty|reflexivity|exact Hok|exact Hcap]. Qed.

(* ---------- shrink_to_fit ---------- *)
Lemma strip_max_spec r : exists n, r = repeat U32MAX n ++ strip_max r.
Proof.
  induction r as [|x t [n IH]]; [exists O; reflexivity|]. cbn [strip_max]. destruct (x =? U32MAX) eqn:E; [|exists O; reflexivity].
  apply N.eqb_eq in E. subst x. exists (S n). cbn [repeat app]. now rewrite <- IH.
Qed.
Lemma shrink_split (l : list N) : exists pad, l = rev (strip_max (rev l)) ++ pad /\ forall y, In y pad -> y = U32MAX.
Proof.
  destruct (strip_max_spec (rev l)) as [n Hn]. exists (rev (repeat U32MAX n)). split.
  - rewrite <- rev_app_distr, <- Hn. now rewrite rev_involutive.
  - intros y Hy. apply in_rev in Hy. now apply repeat_spec in Hy.
Qed.

Theorem sp_shrink_spec m : SpInv m -> SpInv (sp_shrink m) /\ (forall k, sp_abs (sp_shrink m) k = sp_abs m k) /\
  sp_keys (sp_shrink m) = sp_keys m /\ sp_values (sp_shrink m) = sp_values m.
Proof.
  intros (Hl & Hm & H1 & H2 & H3). destruct (shrink_split (sp_sparse m)) as (pad & Hs & Hpad).
  set (l' := rev (strip_max (rev (sp_sparse m)))) in *.
  assert (Hget : forall k, nget (sp_sparse m) k = if k <? nlen l' then nget l' k else nget pad (k - nlen l')).
  { intros k. rewrite Hs at 1. destruct (k <? nlen l') eqn:L; [apply N.ltb_lt in L; now apply nget_app_l|apply N.ltb_ge in L; now apply nget_app_r]. }
  assert (Hpadv : forall j y, nget pad j = Some y -> y = U32MAX) by (intros j y Hj; apply Hpad; eapply nget_in; eauto).
  assert (Hin : forall k i, nget (sp_sparse m) k = Some i -> i <> U32MAX -> nget l' k = Some i).
  { intros k i E Hi. rewrite Hget in E. destruct (k <? nlen l'); [exact E|]. apply Hpadv in E. congruence. }
  assert (Hout : forall k i, nget l' k = Some i -> nget (sp_sparse m) k = Some i).
  { intros k i E. rewrite Hget. pose proof (nget_some_lt _ _ _ E) as L. apply N.ltb_lt in L. now rewrite L. }
  split; [|split; [|split; reflexivity]].
  - unfold SpInv, sp_shrink. cbn [sp_sparse sp_dense sp_indices]. fold l'. split; [exact Hl|]. split; [exact Hm|]. split; [|split].
    + intros i k Hi. destruct (H1 i k Hi) as [A B]. split; [exact A|]. apply Hin; [exact B|]. apply nget_some_lt in Hi. lia.
    + intros k i E Hi. exact (H2 k i (Hout k i E) Hi).
    + intros k i E. exact (H3 k i (Hout k i E)).
  - intros k. unfold sp_abs, sp_shrink. cbn [sp_sparse sp_dense]. fold l'. rewrite Hget. destruct (k <? nlen l') eqn:L; [reflexivity|].
    apply N.ltb_ge in L. rewrite (nget_ge_none l' k L). destruct (nget pad (k - nlen l')) as [y|] eqn:E; [|reflexivity].
    apply Hpadv in E. subst y. now replace (U32MAX <=? U32MAX) with true by (symmetry; apply N.leb_le; lia).
Qed.
End SparseMap.
Arguments spm : clear implicits.
Arguments Val {A}. Arguments Panic {A}. Arguments UB {A}.

Arguments sp_empty {V}.
(* non-vacuity: a concrete non-trivial state satisfies the invariant (three inserts, one removal of a middle entry) *)
Example sp_example : match sp_run (@sp_empty N) [SpIns 12 1; SpIns 5 2; SpIns 42 3; SpRem 12] with
                     | Val m => sp_keys m = [42; 5] /\ sp_values m = [3; 2] /\ sp_abs m 5 = Some 2 /\ sp_abs m 12 = None
                     | _ => False end.
Proof. vm_compute. repeat split. Qed.

(* composite statements used by Props/C10.v and Props/C01.v *)
Lemma sp_keys_values_get {V} (m : spm V) : SpInv m ->
    (NoDup (sp_keys m) /\ (forall k, In k (sp_keys m) <-> sp_abs m k <> None) /\
     (forall i k, nget (sp_keys m) i = Some k -> nget (sp_values m) i = sp_abs m k) /\ length (sp_keys m) = length (sp_values m)) /\
    (forall k, sp_get m k = Val (sp_abs m k)).
Proof. intros H. split; [exact (sp_keys_spec m H)|intros k; exact (sp_get_spec m k H)]. Qed.

Lemma sp_never_ub {V} (m : spm V) : SpInv m ->
    (forall k, sp_get m k = Val (sp_abs m k)) /\
    (forall k v, k <> U32MAX -> nlen (sp_dense m) + 1 < U32MAX -> exists m', sp_insert m k v = Val (sp_abs m k, m') /\ SpInv m') /\
    (forall k, exists m', sp_remove m k = Val (sp_abs m k, m') /\ SpInv m') /\
    SpInv (sp_shrink m).
Proof.
  intros H. split; [intros k; exact (sp_get_spec m k H)|]. split; [|split].
  - intros k v Hk Hc. destruct (sp_insert_spec m k v H Hk Hc) as (m' & A & B & _). eauto.
  - intros k. destruct (sp_remove_spec m k H) as (m' & A & B & _). eauto.
  - exact (proj1 (sp_shrink_spec m H)).
Qed.
