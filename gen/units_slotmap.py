"""Unit correspondence for src/slot_map.rs (SlotMap<u32>, NextKeyIter) against coq/SlotMap.v + Reserve.v.

The same op scripts run on the extracted model (`ocaml/driver slotmap`) and on the real type behind the
cfg(evenio_verif) faces (`h_units slotmap`); every line (result of the op, then the raw slots with generations,
free links, next_free, len) must agree.  The scripts push slots across the generation limit (hook `si`: move an
occupied slot forward to generation 2^32-1-2d), which no world-level history can reach.
Independent monitors on the implementation's output: keys handed out by insert pairwise distinct; a key that was
removed is never valid again; len = inserts - removals; NextKeyIter predictions = the keys the next inserts return."""
import random, subprocess, re, time, os

def gen_script(r, n_ops):
    ops = []
    for _ in range(n_ops):
        x = r.random()
        if x < 0.34: ops.append('i %d' % r.randrange(100))
        elif x < 0.58: ops.append('ri %d' % r.randrange(64))
        elif x < 0.68: ops.append('gi %d' % r.randrange(64))
        elif x < 0.80: ops.append('si %d %d' % (r.randrange(64), r.choice([0, 0, 0, 1, 1, 2, 3])))
        elif x < 0.84: ops.append('x %d' % r.randrange(8))
        elif x < 0.88: ops.append('r %d %d' % (r.randrange(6), r.choice([1, 3, 5, 2, 0, 4294967295, 4294967293])))
        elif x < 0.91: ops.append('g %d %d' % (r.randrange(6), r.choice([1, 3, 5, 2, 0, 4294967295, 4294967293])))
        else:
            # prediction block: snapshot the iterator, predict k keys, then insert k values
            k = r.randrange(1, 5)
            ops.append('n'); ops += ['k'] * k; ops += ['i %d' % r.randrange(100) for _ in range(k)]
    return ops

def exhaustive_scripts(depth):
    """every sequence of length <= depth over a small alphabet (insert, remove j-th, wrap j-th, predict)"""
    # NextKeyIter is only used within its contract: created by next_key_iter() on the current map and advanced
    # while the map is unchanged (a stale or default-constructed iterator standing on a retired slot reads the bytes
    # of the value that used to live there as a free-list link: defined, but nothing the model or the library relies on)
    alpha = [['i 1'], ['ri 0'], ['ri 1'], ['si 0 0'], ['si 1 0'], ['n', 'k', 'k', 'i 1'], ['n', 'k', 'i 2', 'i 3']]
    out = [[]]
    res = []
    for _ in range(depth):
        out = [s + a for s in out for a in alpha]
        res += out
    return res

def monitors(lines):
    """model-independent checks on the implementation's own output of one script"""
    bad = []
    issued, removed, live = set(), set(), 0
    pending_pred = None
    forced = set()
    for ln in lines:
        t = ln.split()
        if not t: continue
        if t[0] == 'i' and t[1] != 'none':
            if t[1] in issued and t[1] not in forced: bad.append('key %s handed out twice' % t[1])
            if t[1] in removed: bad.append('key %s handed out again after its removal' % t[1])
            issued.add(t[1]); live += 1
            if pending_pred:
                exp = pending_pred.pop(0)
                if exp != t[1]: bad.append('NextKeyIter predicted %s, insert returned %s' % (exp, t[1]))
        elif t[0] == 'ri' and len(t) > 2 and t[2].startswith('Some'):
            removed.add(t[1]); live -= 1; pending_pred = None
        elif t[0] == 'r' and t[-1].startswith('Some'):
            live -= 1; pending_pred = None
        elif t[0] == 'gi' and len(t) > 2 and t[2].startswith('Some') and t[1] in removed:
            bad.append('removed key %s is valid again' % t[1])
        elif t[0] == 'si' and t[-1] == 'true':
            forced.add('%sv%s' % (t[1], t[2])); issued.add('%sv%s' % (t[1], t[2])); pending_pred = None
        elif t[0] == 'n':
            pending_pred = []
        elif t[0] == 'k' and pending_pred is not None and len(t) > 1 and t[1] not in ('panic', 'none'):
            pending_pred.append(t[1])
        elif t[0] == '=':
            m = re.search(r'len=(\d+)', ln)
            if m and int(m.group(1)) != live: bad.append('len=%s but inserts-removals=%d' % (m.group(1), live))
    return bad

def run(tier, seed, cx, pid='C03'):
    t0 = time.time()
    r = random.Random(seed * 7919 + 17)
    n_rand = 400 if tier == 'quick' else 6000
    scripts = exhaustive_scripts(4 if tier == 'quick' else 5) + [gen_script(r, r.randrange(10, 60)) for _ in range(n_rand)]
    path = cx['CACHE'] + '/units_slotmap_%s.txt' % pid
    with open(path, 'w') as f:
        for i, s in enumerate(scripts):
            if i: f.write('reset\n')
            f.write('\n'.join(s) + '\n')
    def split(out):
        blocks, cur = [], []
        for ln in out.split('\n'):
            if ln == 'RESET': blocks.append(cur); cur = []
            elif ln: cur.append(ln)
        blocks.append(cur)
        return blocks
    pm = subprocess.run([cx['VERIF'] + '/ocaml/driver', 'slotmap', path], stdout=subprocess.PIPE, stderr=subprocess.PIPE, text=True, errors='replace', timeout=3000)
    mb = split(pm.stdout)
    viol = []
    n_ops = sum(len(s) for s in scripts)
    wraps = 0
    for prof in ('debug', 'release'):
        pi = subprocess.run(['%s/%s/h_units' % (cx['TARGET'], prof), 'slotmap', path], stdout=subprocess.PIPE, stderr=subprocess.PIPE, text=True, errors='replace', timeout=3000)
        ib = split(pi.stdout)
        if pi.returncode != 0 or pm.returncode != 0 or len(ib) != len(scripts) or len(mb) != len(scripts):
            viol.append((dict(engine='h_units slotmap', profile=prof, exit_impl=pi.returncode, exit_model=pm.returncode,
                              stderr_impl=pi.stderr[-1500:], stderr_model=pm.stderr[-1500:], blocks=(len(ib), len(mb), len(scripts))), False))
            continue
        first_mon = first_diff = None
        for i, s in enumerate(scripts):
            mon = monitors(ib[i])
            if prof == 'debug': wraps += sum(1 for ln in ib[i] if ln.startswith('=') and re.search(r'[\[,]0>', ln))
            if mon and (first_mon is None or len(s) < len(first_mon[0])):
                first_mon = (s, mon, ib[i])
            if ib[i] != mb[i] and (first_diff is None or len(s) < len(first_diff[0])):
                k = next((j for j in range(min(len(ib[i]), len(mb[i]))) if ib[i][j] != mb[i][j]), min(len(ib[i]), len(mb[i])))
                first_diff = (s, k, ib[i][max(0, k - 3):k + 2], mb[i][max(0, k - 3):k + 2])
        if first_mon:
            viol.append((dict(engine='h_units slotmap', profile=prof, kind='monitor on the implementation output', ops=first_mon[0], monitor=first_mon[1][:4], output=first_mon[2][-30:],
                              replay_cmd='h_units slotmap <file with these ops>'), True))
        elif first_diff:
            viol.append((dict(engine='h_units slotmap', profile=prof, kind='model (SlotMap.v/Reserve.v) and implementation differ', ops=first_diff[0], at_line=first_diff[1],
                              impl=first_diff[2], model=first_diff[3], no_longer_checks='unit correspondence of coq/SlotMap.v with src/slot_map.rs'), False))
    cov = dict(slotmap_scripts=len(scripts), slotmap_ops=n_ops, slotmap_states_with_a_retired_slot=wraps, slotmap_wall_s=round(time.time() - t0, 1),
               slotmap_rule='h_units slotmap vs ocaml/driver slotmap: every sequence of length <= %d over {insert, remove j-th key, move j-th slot to generation 2^32-1, predict-then-insert blocks} plus %d random scripts (insert / remove / get of issued and of forged keys, slots moved to generations 2^32-1-2d, prediction blocks); compared line by line incl. raw slots; monitors: distinct keys, never valid again, len, predictions' % (4 if tier == 'quick' else 5, n_rand))
    return viol, cov
