"""C18: compile-time gates.  A family of small programs, each forbidden program paired with
permitted twins, is type-checked against /repo's current tree (one `cargo check` per batch,
errors attributed to cases by line).  The model (coq/Gates.v over the rules regenerated from
the source) predicts accept/reject for every case; a forbidden program that compiles is a
failing input."""
import os, re, json, subprocess, random, hashlib, time

COMPS = {0: 'A', 1: 'B', 2: 'Imm'}          # Imm is declared #[component(immutable)]

def gen_queries(rng, n_depth2):
    leaves = [('r', 0), ('m', 0), ('r', 1), ('m', 1), ('r', 2), ('m', 2)]
    def leaf(l): return (l[0] + str(l[1]),)
    L = [leaf(l) for l in leaves]
    un = ['o', '!', 'w', 'h']
    bi = ['t2', '|', 'x']
    d1 = [(u, a) for u in un for a in L] + [(b, a, c) for b in bi for a in L for c in L] + [('t1', a) for a in L] + [('e',), ('t0',)]
    pool = L + d1
    d2 = []
    for _ in range(n_depth2):
        k = rng.choice(un + bi + ['t3'])
        if k in un: d2.append((k, rng.choice(d1)))
        elif k == 't3': d2.append(('t3', rng.choice(pool), rng.choice(pool), rng.choice(pool)))
        else: d2.append((k, rng.choice(pool), rng.choice(d1)))
    return L + d1 + d2

def rust_ty(q):
    k = q[0]
    if k[0] in 'rm' and k[1:].isdigit():
        return "&'static %s%s" % ('mut ' if k[0] == 'm' else '', COMPS[int(k[1:])])
    if k == 'e': return 'EntityId'
    if k[0] == 't': return '(' + ''.join(rust_ty(x) + ', ' for x in q[1:]) + ')'
    if k == 'o': return 'Option<%s>' % rust_ty(q[1])
    if k == '!': return 'Not<%s>' % rust_ty(q[1])
    if k == 'w': return 'With<%s>' % rust_ty(q[1])
    if k == 'h': return 'Has<%s>' % rust_ty(q[1])
    if k == '|': return 'Or<%s, %s>' % (rust_ty(q[1]), rust_ty(q[2]))
    if k == 'x': return 'Xor<%s, %s>' % (rust_ty(q[1]), rust_ty(q[2]))
    raise ValueError(q)

def coq_term(q):
    k = q[0]
    if k[0] in 'rm' and k[1:].isdigit():
        return '(%s %s)' % ('QMut' if k[0] == 'm' else 'QRef', k[1:])
    if k == 'e': return 'QEid'
    if k[0] == 't': return '(QTuple [%s])' % '; '.join(coq_term(x) for x in q[1:])
    if k == 'o': return '(QOpt %s)' % coq_term(q[1])
    if k == '!': return '(QNot %s)' % coq_term(q[1])
    if k == 'w': return '(QWith %s)' % coq_term(q[1])
    if k == 'h': return '(QHas %s)' % coq_term(q[1])
    if k == '|': return '(QOr %s %s)' % (coq_term(q[1]), coq_term(q[2]))
    if k == 'x': return '(QXor %s %s)' % (coq_term(q[1]), coq_term(q[2]))
    raise ValueError(q)

PRELUDE = '''#![allow(unused, dead_code)]
use evenio::prelude::*;
use evenio::fetch::Iter;
#[derive(Component)] pub struct A(pub u32);
#[derive(Component)] pub struct B(pub u32);
#[derive(Component)] #[component(immutable)] pub struct Imm(pub u32);
#[derive(Component)] pub struct NotSync(pub std::cell::Cell<u32>);
#[derive(GlobalEvent)] pub struct MutEv(pub u32);
#[derive(GlobalEvent)] #[event(immutable)] pub struct ImmEv(pub u32);
#[derive(TargetedEvent)] pub struct MutTEv(pub u32);
#[derive(TargetedEvent)] #[event(immutable)] pub struct ImmTEv(pub u32);
pub fn assert_send<T: Send>() {}
pub fn assert_sync<T: Sync>() {}
'''

def query_cases(queries, pred):
    """-> list of (name, body, expect_ok)"""
    cases = []
    for i, q in enumerate(queries):
        ty = rust_ty(q)
        valid, shared = pred[i]
        cases.append(('q%d_iter' % i, "pub fn f(x: &Fetcher<'static, %s>) { let _ = x.iter(); }" % ty, shared))
        cases.append(('q%d_get' % i, "pub fn f(x: &Fetcher<'static, %s>, e: EntityId) { let _ = x.get(e); }" % ty, shared))
        cases.append(('q%d_itermut' % i, "pub fn f(x: &mut Fetcher<'static, %s>) { let _ = x.iter_mut(); }" % ty, valid))
        cases.append(('q%d_clone' % i, "pub fn f(x: &mut Fetcher<'static, %s>) { let it = x.iter_mut(); let _ = it.clone(); }" % ty, shared))
        cases.append(('q%d_for' % i, "pub fn f(x: &Fetcher<'static, %s>) { for _ in x {} }" % ty, shared))
    return cases

def fixed_cases(rules):
    rm = rules['g_receiver_mut_needs_mutable']
    gm = rules['g_world_get_mut_needs_mutable']
    wns = rules['g_world_has_not_send_marker'] and not rules['g_world_unsafe_send_impl']
    wny = rules['g_world_has_not_send_marker'] and not rules['g_world_unsafe_sync_impl']
    c = [
        ('ev_recv_imm', 'pub fn f(w: &mut World) { w.add_handler(|_: Receiver<ImmEv>| {}); }', True),
        ('ev_recvmut_mut', 'pub fn f(w: &mut World) { w.add_handler(|_: ReceiverMut<MutEv>| {}); }', True),
        ('ev_recvmut_imm', 'pub fn f(w: &mut World) { w.add_handler(|_: ReceiverMut<ImmEv>| {}); }', not rm),
        ('ev_take_mut', 'pub fn f(w: &mut World) { w.add_handler(|r: ReceiverMut<MutEv>| { let _ = EventMut::take(r.event); }); }', True),
        ('ev_trecv_imm', 'pub fn f(w: &mut World) { w.add_handler(|_: Receiver<ImmTEv, ()>| {}); }', True),
        ('ev_trecvmut_mut', 'pub fn f(w: &mut World) { w.add_handler(|_: ReceiverMut<MutTEv, ()>| {}); }', True),
        ('ev_trecvmut_imm', 'pub fn f(w: &mut World) { w.add_handler(|_: ReceiverMut<ImmTEv, ()>| {}); }', not rm),
        ('ev_mutate_imm', 'pub fn f(w: &mut World) { w.add_handler(|r: Receiver<ImmEv>| { r.event.0 = 1; }); }', False),
        ('ev_recvmut_spawn', 'pub fn f(w: &mut World) { w.add_handler(|_: ReceiverMut<Spawn>| {}); }', not rm),
        ('ev_recv_spawn', 'pub fn f(w: &mut World) { w.add_handler(|_: Receiver<Spawn>| {}); }', True),
        ('c_get_imm', 'pub fn f(w: &World, e: EntityId) { let _ = w.get::<Imm>(e); }', True),
        ('c_getmut_mut', 'pub fn f(w: &mut World, e: EntityId) { let _ = w.get_mut::<A>(e); }', True),
        ('c_getmut_imm', 'pub fn f(w: &mut World, e: EntityId) { let _ = w.get_mut::<Imm>(e); }', not gm),
        ('c_insert_imm', 'pub fn f(w: &mut World, e: EntityId) { w.insert(e, Imm(1)); }', True),
        ('c_fetch_mut_imm_handler', "pub fn f(w: &mut World) { w.add_handler(|_: Receiver<MutEv>, _: Fetcher<&mut Imm>| {}); }", not rules['g_mut_query_needs_mutable']),
        ('c_single_mut_imm_handler', "pub fn f(w: &mut World) { w.add_handler(|_: Receiver<MutEv>, _: Single<&mut Imm>| {}); }", not rules['g_mut_query_needs_mutable']),
        ('c_recv_query_mut_imm', "pub fn f(w: &mut World) { w.add_handler(|_: Receiver<MutTEv, &mut Imm>| {}); }", not rules['g_mut_query_needs_mutable']),
        ('s_world_send', 'pub fn f() { assert_send::<World>(); }', not wns),
        ('s_world_sync', 'pub fn f() { assert_sync::<World>(); }', not wny),
        ('s_world_thread', 'pub fn f(w: World) { std::thread::spawn(move || { drop(w); }); }', not wns),
        ('s_world_ref_thread', "pub fn f(w: &'static World) { std::thread::spawn(move || { let _ = w.entities().len(); }); }", not wny),
        ('s_fetcher_send_ok', "pub fn f() { assert_send::<Fetcher<'static, &'static A>>(); }", rules['g_fetcher_send_impl']),
        ('s_fetcher_sync_ok', "pub fn f() { assert_sync::<Fetcher<'static, &'static A>>(); }", rules['g_fetcher_sync_impl']),
        ('s_fetcher_send_notsync', "pub fn f() { assert_send::<Fetcher<'static, &'static NotSync>>(); }", rules['g_fetcher_send_impl'] and not rules['g_fetcher_send_needs_item']),
        ('s_fetcher_sync_notsync', "pub fn f() { assert_sync::<Fetcher<'static, &'static NotSync>>(); }", rules['g_fetcher_sync_impl'] and not rules['g_fetcher_sync_needs_item']),
        ('s_fetcher_send_mut_notsync_ok', "pub fn f() { assert_send::<Fetcher<'static, &'static mut NotSync>>(); }", rules['g_fetcher_send_impl']),
        ('s_iter_send_ok', "pub fn f() { assert_send::<Iter<'static, &'static A>>(); }", rules['g_iter_send_impl']),
        ('s_iter_send_notsync', "pub fn f() { assert_send::<Iter<'static, &'static NotSync>>(); }", rules['g_iter_send_impl'] and not rules['g_iter_send_needs_item']),
        ('s_iter_sync_notsync', "pub fn f() { assert_sync::<Iter<'static, &'static NotSync>>(); }", rules['g_iter_sync_impl'] and not rules['g_iter_sync_needs_item']),
    ]
    return c

# what the PROPERTY requires of the fixed programs, independently of the rules read from the source: True = must compile,
# False = must be rejected (the rule model predicts rustc; this table is the oracle when the two part ways)
MUST_REJECT = {'ev_recvmut_imm', 'ev_trecvmut_imm', 'ev_mutate_imm', 'ev_recvmut_spawn', 'c_getmut_imm', 'c_fetch_mut_imm_handler',
               'c_single_mut_imm_handler', 'c_recv_query_mut_imm', 's_world_send', 's_world_sync', 's_world_thread', 's_world_ref_thread',
               's_fetcher_send_notsync', 's_fetcher_sync_notsync', 's_iter_send_notsync', 's_iter_sync_notsync'}

def check_batch(dirpath, cases, cx):
    """Writes one crate with every case in its own module; returns {case name: [error messages]}."""
    os.makedirs(dirpath + '/src', exist_ok=True)
    open(dirpath + '/Cargo.toml', 'w').write('[package]\nname = "c18_cases"\nversion = "0.0.0"\nedition = "2021"\n[workspace]\n[dependencies]\nevenio = { path = "/repo" }\n')
    if not os.path.exists(dirpath + '/Cargo.lock'):
        subprocess.run(['cp', '/repo/Cargo.lock', dirpath + '/Cargo.lock'])
    lines = PRELUDE.split('\n')
    span = []
    for name, body, _ in cases:
        start = len(lines) + 1
        lines.append('pub mod %s { use super::*; %s }' % (name, body))
        span.append((start, name))
    open(dirpath + '/src/lib.rs', 'w').write('\n'.join(lines) + '\n')
    env = dict(cx['ENV'], RUSTFLAGS='', CARGO_TARGET_DIR=cx['CACHE'] + '/c18_target')
    p = subprocess.run(['cargo', 'check', '--offline', '--message-format=json', '--lib'], cwd=dirpath, env=env, stdout=subprocess.PIPE, stderr=subprocess.PIPE, text=True, errors='replace', timeout=2400)
    errs = {}
    other = []
    line_to_case = {s: n for s, n in span}
    for l in p.stdout.split('\n'):
        if not l.startswith('{'): continue
        try: m = json.loads(l)
        except ValueError: continue
        msg = m.get('message')
        if not msg or msg.get('level') != 'error': continue
        sp = [s for s in msg.get('spans', []) if s.get('is_primary')] or msg.get('spans', [])
        hit = False
        for s in sp:
            n = line_to_case.get(s.get('line_start'))
            if n:
                errs.setdefault(n, []).append((msg.get('code') or {}).get('code', '') + ' ' + msg.get('message', '')[:160]); hit = True
        if not hit and 'aborting due to' not in msg.get('message', ''):
            other.append(msg.get('message', '')[:200])
    return errs, other, p.returncode

def coq_predictions(queries, cx):
    src = ['From Coq Require Import List NArith Bool.', 'Import ListNotations.', 'Require Import EV.Base EV.Query EV.Gates.', 'Open Scope N_scope.',
           'Definition mutable (c : N) : bool := negb (c =? 2).',
           'Definition cases : list query := [%s].' % ';\n  '.join(coq_term(q) for q in queries),
           'Eval vm_compute in map (fun q => (predict_exclusive mutable q, predict_shared mutable q)) cases.']
    path = cx['CACHE'] + '/GateCases.v'
    open(path, 'w').write('\n'.join(src) + '\n')
    rc, out, err = cx['sh']('coqc -Q %s/coq EV %s' % (cx['VERIF'], path), cwd=cx['CACHE'])
    if rc != 0:
        raise RuntimeError('coqc GateCases: ' + err[-1500:])
    pairs = re.findall(r'\(\s*(true|false),\s*(true|false)\s*\)', out)
    assert len(pairs) == len(queries), (len(pairs), len(queries))
    return [(a == 'true', b == 'true') for a, b in pairs]

def yields_mut(q):
    k = q[0]
    if k[0] == 'm' and k[1:].isdigit(): return True
    if k[0] == 'r' and k[1:].isdigit(): return False
    if k in ('!', 'w', 'h', 'e'): return False
    return any(yields_mut(x) for x in q[1:])

def mentions_mut_imm(q):
    k = q[0]
    if k == 'm2': return True
    if k[0] in 'rme' and (k == 'e' or k[1:].isdigit()): return False
    return any(mentions_mut_imm(x) for x in q[1:])

def spec_prediction(q):
    valid = not mentions_mut_imm(q)
    return (valid, valid and not yields_mut(q))

def run(tier, seed, cx):
    t0 = time.time()
    rng = random.Random(seed)
    queries = gen_queries(rng, 60 if tier == 'quick' else 600)
    rules = {m.group(1): m.group(2) == 'true' for m in re.finditer(r'Definition (g_\w+) : bool := (true|false)\.', open(cx['VERIF'] + '/coq/gen/GateRules.v').read())}
    try:
        pred = coq_predictions(queries, cx)
        pred_src = 'coq/Gates.v (vm_compute)'
    except Exception as e:
        # the rule model no longer builds (a theorem over the regenerated rules broke): search for
        # a failing input with the property's own statement as oracle
        pred = [spec_prediction(q) for q in queries]
        pred_src = 'property statement (Gates.v does not build: %s)' % str(e)[:200]
    cases = query_cases(queries, pred) + fixed_cases(rules)
    permitted = [c for c in cases if c[2]]
    forbidden = [c for c in cases if not c[2]]
    viol = []
    errs_p, other_p, _ = check_batch(cx['CACHE'] + '/c18_permitted', permitted, cx)
    errs_f, other_f, _ = check_batch(cx['CACHE'] + '/c18_forbidden', forbidden, cx)
    bad_perm = [(n, b, errs_p[n][:2]) for n, b, _ in permitted if n in errs_p]
    bad_forb = [(n, b) for n, b, _ in forbidden if n not in errs_f]
    if other_p or (other_f and not errs_f):
        viol.append((dict(engine='h_compile', broken='compile batch did not type-check for an unrelated reason', detail=(other_p + other_f)[:5]), False))
    # the fixed programs against the property's own requirement (this is what finds the failing input when a gate in the
    # source was loosened: the regenerated rules then predict "compiles", rustc agrees, and only the requirement objects)
    fixed_names = {c[0] for c in fixed_cases(rules)}
    compiled = {n for n, b, _ in permitted if n not in errs_p} | {n for n, b, _ in forbidden if n not in errs_f}
    body = {n: b for n, b, _ in cases}
    wrong_ok = sorted(n for n in fixed_names if n in MUST_REJECT and n in compiled)
    wrong_rej = sorted(n for n in fixed_names if n not in MUST_REJECT and n not in compiled)
    if wrong_ok and not (other_p or (other_f and not errs_f)):
        viol.append((dict(engine='h_compile', kind='a program the property forbids compiles', case=wrong_ok[0], program=PRELUDE + body[wrong_ok[0]], all_such_cases=wrong_ok), True))
    elif wrong_rej and not (other_p or (other_f and not errs_f)):
        viol.append((dict(engine='h_compile', kind='a program the property permits is rejected', case=wrong_rej[0], program=PRELUDE + body[wrong_rej[0]], all_such_cases=wrong_rej), True))
    for n, b in bad_forb[:1]:
        viol.append((dict(engine='h_compile', kind='forbidden program compiles', case=n, program=PRELUDE + b,
                          all_such_cases=[x[0] for x in bad_forb][:40]), True))
    if bad_perm and not bad_forb:
        n, b, e = bad_perm[0]
        # a permitted twin that no longer compiles: the model's prediction and rustc disagree
        viol.append((dict(engine='h_compile', kind='permitted program rejected', case=n, program=PRELUDE + b, errors=e,
                          all_such_cases=[x[0] for x in bad_perm][:40]), True))
    cov = dict(programs=len(cases), disagreements_checked=len(bad_perm) + len(bad_forb),
               evaluations=len(cases), distinct_nontrivial=len(set(b for _, b, _ in cases)),
               rule='query expressions over {&A,&mut A,&B,&mut B,&Imm,&mut Imm}: all of depth <= 1 plus %d random of depth 2 (seed %d), each in 5 gated/ungated uses (iter, get, iter_mut, Iter::clone, for-loop over &Fetcher), plus %d fixed event/component/thread-safety programs; %d predicted to compile, %d predicted to be rejected; prediction by %s' % (len(queries) - 6 - 128, seed, len(fixed_cases(rules)), len(permitted), len(forbidden), pred_src),
               samples=[dict(case=c[0], program=c[1], predicted_to_compile=c[2]) for c in (cases[7:9] + cases[-3:])],
               permitted_programs=len(permitted), forbidden_programs=len(forbidden), c18_wall_s=round(time.time() - t0, 1))
    return viol, cov
