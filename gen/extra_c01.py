"""C01: an accepted handler whose parameters alias a component mutably is an aliased-mutable reference handed
out by the safe API.  The semantic pair search of C05 (gen/extra_c05.py) is therefore also a search for a
failing input of C01; it needs only the harness binaries, so it still runs when a theorem over the regenerated
access tables no longer builds."""
import importlib.util, os


def run(tier, seed, ctx):
    spec = importlib.util.spec_from_file_location('extra_c05', os.path.join(ctx['VERIF'], 'gen', 'extra_c05.py'))
    m = importlib.util.module_from_spec(spec); spec.loader.exec_module(m)
    viol, cov = m.run(tier, seed, ctx)
    out = []
    for payload, has_input in viol:
        if payload.get('implementation') == 'accepted':      # only acceptance of an aliasing handler is a C01 failure
            payload = dict(payload); payload['c01_reading'] = 'the accepted handler receives two references to one component, one of them mutable'
            out.append((payload, has_input))
        elif not has_input:
            out.append((payload, has_input))
    cov = {('c01_' + k if not k.startswith('c05') else k.replace('c05', 'c01_c05')): v for k, v in cov.items()}
    # the unchecked operations of sparse_map.rs (get_unchecked, assume_unchecked) are UB sites of coq/SparseMap.v:
    # unit correspondence of the two (only when the model side is available: it needs the extracted driver)
    if os.path.exists(os.path.join(ctx['VERIF'], 'ocaml', 'driver')) and not out:
        import sys
        sys.path.insert(0, os.path.join(ctx['VERIF'], 'gen'))
        import units_sparsemap
        v2, c2 = units_sparsemap.run(tier, seed, ctx, 'C01')
        out += v2; cov.update(c2)
    return out, cov
