"""Unit correspondence for src/sparse_map.rs (SparseMap<u32,u32>, the sparse set behind every fetcher cache and
every archetype's listener table) against coq/SparseMap.v.

The same op scripts run on the extracted model (`ocaml/driver sparsemap`) and on the real type behind the
cfg(evenio_verif) face (`h_units sparsemap`); every line (result of the op, then the raw sparse array, keys() and
values() in their order) must agree.  Independent monitor on the implementation's output: a Python dict is the
specification - insert/remove/get return what the dict says, keys() lists the dict's keys once each, values() is
aligned with keys()."""
import random, subprocess, re, time, itertools

KMAX = 4294967295

def gen_script(r, n_ops):
    ops, ctr = [], 1
    keys = [0, 1, 2, 3, 4, 5, 7, 9, 12, 40, 100]
    for _ in range(n_ops):
        x = r.random()
        if x < 0.45:
            k = KMAX if r.random() < 0.03 else r.choice(keys)
            ops.append('i %d %d' % (k, ctr)); ctr += 1
        elif x < 0.80: ops.append('r %d' % (KMAX if r.random() < 0.03 else r.choice(keys + [200])))
        elif x < 0.95: ops.append('g %d' % (KMAX if r.random() < 0.03 else r.choice(keys + [200])))
        else: ops.append('s')
    return ops

def exhaustive_scripts(depth):
    alpha = ['i 0 1', 'i 1 2', 'i 2 3', 'r 0', 'r 1', 'r 2', 's']
    out, res = [[]], []
    for _ in range(depth):
        out = [s + [a] for s in out for a in alpha]
        res += out
    return res

def monitors(script, lines):
    bad, d = [], {}
    it = iter(lines)
    for op in script:
        ln = next(it, None); st = next(it, None)
        if ln is None or st is None:
            bad.append('output ends early'); break
        t = op.split()
        def opt(x): return 'None' if x is None else 'Some(%d)' % x
        if t[0] == 'i':
            k, v = int(t[1]), int(t[2])
            exp = 'i panic' if k == KMAX else 'i %s' % opt(d.get(k))
            if k != KMAX: d[k] = v
        elif t[0] == 'r':
            k = int(t[1]); exp = 'r %s' % opt(d.pop(k, None))
        elif t[0] == 'g':
            k = int(t[1]); exp = 'g %s' % opt(d.get(k))
        else:
            exp = 's'
        if ln != exp: bad.append('%s: got "%s", a map gives "%s"' % (op, ln, exp))
        m = re.match(r'= sparse=\[(.*?)\] keys=\[(.*?)\] values=\[(.*?)\]', st)
        if not m:
            bad.append('unreadable state line ' + st); continue
        ks = [int(x) for x in m.group(2).split(',') if x]; vs = [int(x) for x in m.group(3).split(',') if x]
        if sorted(ks) != sorted(d) or len(set(ks)) != len(ks): bad.append('%s: keys() = %s, map has %s' % (op, ks, sorted(d)))
        elif len(vs) != len(ks) or any(d[k] != v for k, v in zip(ks, vs)): bad.append('%s: values() %s not aligned with keys() %s of %s' % (op, vs, ks, d))
    return bad

def run(tier, seed, cx, pid='C10'):
    t0 = time.time()
    r = random.Random(seed * 104729 + 5)
    n_rand = 600 if tier == 'quick' else 8000
    scripts = exhaustive_scripts(4 if tier == 'quick' else 5) + [gen_script(r, r.randrange(8, 70)) for _ in range(n_rand)]
    path = cx['CACHE'] + '/units_sparsemap_%s.txt' % pid
    with open(path, 'w') as f:
        for i, s in enumerate(scripts):
            if i: f.write('reset\n')
            f.write('\n'.join(s) + '\n')
    def split(out):
        blocks, cur = [], []
        for ln in out.split('\n'):
            if ln == 'RESET': blocks.append(cur); cur = []
            elif ln: cur.append(ln)
        blocks.append(cur)
        return blocks
    pm = subprocess.run([cx['VERIF'] + '/ocaml/driver', 'sparsemap', path], stdout=subprocess.PIPE, stderr=subprocess.PIPE, text=True, errors='replace', timeout=3000)
    mb = split(pm.stdout)
    viol = []
    n_ops = sum(len(s) for s in scripts)
    for prof in ('debug', 'release'):
        pi = subprocess.run(['%s/%s/h_units' % (cx['TARGET'], prof), 'sparsemap', path], stdout=subprocess.PIPE, stderr=subprocess.PIPE, text=True, errors='replace', timeout=3000)
        ib = split(pi.stdout)
        if pi.returncode != 0 or pm.returncode != 0 or len(ib) != len(scripts) or len(mb) != len(scripts):
            # a crash of the implementation side (abort on an unsafe precondition, signal) is a failing input: find the script
            k = len(ib) - 1
            ops = scripts[k] if 0 <= k < len(scripts) and pi.returncode != 0 else None
            if ops is not None:
                # look for a shorter script that crashes on its own (shortest first, bounded)
                one = cx['CACHE'] + '/units_sparsemap_one.txt'
                for s2 in sorted(scripts, key=len)[:1500]:
                    if len(s2) >= len(ops): break
                    open(one, 'w').write('\n'.join(s2) + '\n')
                    q = subprocess.run(['%s/%s/h_units' % (cx['TARGET'], prof), 'sparsemap', one], stdout=subprocess.PIPE, stderr=subprocess.PIPE, text=True, errors='replace', timeout=60)
                    if q.returncode != 0:
                        ops = s2; break
            viol.append((dict(engine='h_units sparsemap', profile=prof, kind='the implementation side crashed (abort on an unsafe precondition / signal)' if ops else 'run failed',
                              exit_impl=pi.returncode, exit_model=pm.returncode,
                              stderr_impl=pi.stderr[-1500:], stderr_model=pm.stderr[-1500:], blocks=(len(ib), len(mb), len(scripts)), ops=ops), bool(ops)))
            continue
        first_mon = first_diff = None
        for i, s in enumerate(scripts):
            mon = monitors(s, ib[i])
            if mon and (first_mon is None or len(s) < len(first_mon[0])):
                first_mon = (s, mon, ib[i])
            if ib[i] != mb[i] and (first_diff is None or len(s) < len(first_diff[0])):
                k = next((j for j in range(min(len(ib[i]), len(mb[i]))) if ib[i][j] != mb[i][j]), min(len(ib[i]), len(mb[i])))
                first_diff = (s, k, ib[i][max(0, k - 3):k + 2], mb[i][max(0, k - 3):k + 2])
        if first_mon:
            viol.append((dict(engine='h_units sparsemap', profile=prof, kind='monitor on the implementation output (a dict is the specification)', ops=first_mon[0], monitor=first_mon[1][:4], output=first_mon[2][-30:]), True))
        elif first_diff:
            viol.append((dict(engine='h_units sparsemap', profile=prof, kind='model (SparseMap.v) and implementation differ', ops=first_diff[0], at_line=first_diff[1],
                              impl=first_diff[2], model=first_diff[3], no_longer_checks='unit correspondence of coq/SparseMap.v with src/sparse_map.rs'), False))
    cov = dict(sparsemap_scripts=len(scripts), sparsemap_ops=n_ops, sparsemap_wall_s=round(time.time() - t0, 1),
               sparsemap_rule='h_units sparsemap vs ocaml/driver sparsemap: every sequence of length <= %d over {insert 0/1/2, remove 0/1/2, shrink_to_fit} plus %d random scripts (keys from a sparse range incl. K::MAX, removal of middle/last/absent entries, shrink); compared line by line incl. the raw sparse array, keys() and values(); monitor: a dict as specification' % (4 if tier == 'quick' else 5, n_rand))
    return viol, cov
