"""C08 search for a failing input that does not need the Coq model: for every registry receiver query, one
handler `Receiver<T0, Q>` is added to a world holding one entity per subset of the six component types, and a
T0 event is sent to every entity.  The handler must run exactly for the entities whose component set
satisfies the query's documented Boolean meaning (evaluated here directly).  Used as the failing-input
search when a theorem over the regenerated access tables breaks, and as an always-on check (~35 handlers x
64 targets)."""
import os, subprocess, importlib.util

NCOMP = 6


def run(tier, seed, ctx):
    verif, target = ctx['VERIF'], ctx['TARGET']
    spec = importlib.util.spec_from_file_location('extra_c05', os.path.join(verif, 'gen', 'extra_c05.py'))
    c05 = importlib.util.module_from_spec(spec); spec.loader.exec_module(c05)
    lines = [l.strip() for l in open(verif + '/harness/queries.txt') if l.strip() and not l.startswith('#')]
    rq = [l[2:] for l in lines if l.startswith('R ')]
    setup = ['spawn'] * 64
    for i in range(64):
        for c in range(NCOMP):
            if (i >> c) & 1:
                setup.append('insert %d %d' % (i, c))
    hists = []
    for q in rq:
        hists.append(setup + ['addh M - 0 0 0 1 T0r %s 0 ' % q] + ['sendto %d 0' % i for i in range(64)])
    path = os.path.join(ctx['CACHE'], 'c08_listeners.ops')
    open(path, 'w').write('\nreset\n'.join('\n'.join(h) for h in hists) + '\n')
    violations, checked = [], 0
    for prof in ('debug', 'release'):
        p = subprocess.run(['%s/%s/h_world' % (target, prof), path, 'quiet'], stdout=subprocess.PIPE, stderr=subprocess.PIPE, text=True, errors='replace', timeout=1800)
        blocks = p.stdout.split('\nOP ')
        # blocks per history: len(setup) + 1 + 64 ops
        per = len(setup) + 65
        complete = min(len(rq), (len(blocks) - 1) // per if p.returncode != 0 else len(blocks) // per)
        for qi, qtext in enumerate(rq[:complete]):
            q = c05.parse(qtext.split())
            base = qi * per + len(setup)
            addh = blocks[base]
            if '\nR panic' in addh:
                continue
            for i in range(64):
                blk = blocks[base + 1 + i]
                ran = any(l.startswith('L ') for l in blk.split('\n'))
                comps = set(c for c in range(NCOMP) if (i >> c) & 1)
                exp = c05.qmatch(comps, q)
                checked += 1
                if ran != exp:
                    violations.append((dict(kind='c08-listeners', profile=prof, query=qtext, target_components=sorted(comps),
                                            implementation='handler ran' if ran else 'handler did not run',
                                            documented_meaning='the query %s this component set' % ('matches' if exp else 'does not match'),
                                            ops=['spawn', ] + ['insert 0 %d' % c for c in sorted(comps)] + ['addh M - 0 0 0 1 T0r %s 0' % qtext, 'sendto 0 0']), True))
                    break
            if violations: break
        if not violations and (p.returncode != 0 or len(blocks) < per * len(rq)):
            # the process died inside a history: that history, up to the op that killed it, is the failing input
            hi = min(len(rq) - 1, (len(blocks) - 1) // per)
            oi = (len(blocks) - 1) % per
            violations.append((dict(kind='c08-listeners', profile=prof, crash=True, rc=p.returncode, query=rq[hi], ops=hists[hi][:oi + 1],
                                    implementation='process died (%s)' % p.stderr.strip()[-200:], documented_meaning='every delivery completes; the handler runs iff the query matches the target'), True))
        if violations: break
    cov = dict(c08_listener_checks=checked, c08_listener_rule='every registry receiver query (%d) as `Receiver<T0, Q>` against one target per subset of the six component types (64), debug and release; the handler must run iff the documented Boolean meaning of Q holds of the target' % len(rq))
    return violations[:1], cov
