"""C15: the sets of referenced components / sendable events that decide which handlers a removal takes with it are
BitSets: unit correspondence of src/bit_set.rs with coq/BitSet.v - see units_bitset.py."""
import os, sys
sys.path.insert(0, os.path.dirname(__file__))
import units_bitset

def run(tier, seed, cx):
    return units_bitset.run(tier, seed, cx, 'C15')
