"""C16: the four registries are SlotMaps: unit correspondence of the slot map (ids of removed items never valid
again / never handed out again across generation wrap-around and slot retirement) - see units_slotmap.py."""
import os, sys
sys.path.insert(0, os.path.dirname(__file__))
import units_slotmap

def run(tier, seed, cx):
    return units_slotmap.run(tier, seed, cx, 'C16')
