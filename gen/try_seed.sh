#!/bin/bash
# usage: try_seed.sh <ID> <dir containing patch.diff demo.rs meta.json> [props to check...]
# 1. confirms the seeded change in a scratch worktree: builds, lib+doc tests pass, demo fails with
#    the change and passes without;  2. applies it to /repo, runs the named checks, reverts /repo.
set -u
ID=$1; SRC=$2; shift 2
WT=/tmp/wt/confirm_$ID
export CARGO_TARGET_DIR=/tmp/wt/_target CARGO_NET_OFFLINE=true
git -C /repo worktree remove --force $WT >/dev/null 2>&1
git -C /repo worktree add -q --detach $WT HEAD || exit 2
mkdir -p $WT/tests && cp $SRC/demo.rs $WT/tests/demo.rs
cd $WT
echo "== baseline demo (must pass)"
cargo test --offline ${FEATURES:-} --test demo 2>&1 | grep -E "^test result|error(\[|:)" | head -3
git apply $SRC/patch.diff || { echo "PATCH DOES NOT APPLY"; exit 2; }
echo "== with change: lib + doc tests (must pass)"
cargo test --offline ${FEATURES:-} --lib 2>&1 | grep -E "^test result|error(\[|:)" | head -3
cargo test --offline --doc 2>&1 | grep -E "^test result|error(\[|:)" | head -3
echo "== with change: demo (must fail)"
cargo test --offline ${FEATURES:-} --test demo 2>&1 | grep -E "^test result|panicked|error(\[|:)|signal" | head -4
cd /verif
git -C /repo worktree remove --force $WT
echo "== checks on /repo with the change applied"
unset CARGO_TARGET_DIR
git -C /repo apply $SRC/patch.diff
for p in "$@"; do ./check $p | grep -E "^(VIOLATION|OK|KNOWN)"; done
git -C /repo checkout -- .
git -C /repo status --short | head -3
# the evidence files were rewritten by the runs above (with the change applied): restore them from the clean tree
for p in "$@"; do ./check $p > /dev/null 2>&1; done
