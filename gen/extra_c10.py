"""C10: the fetcher caches and the per-archetype listener tables are SparseMaps: unit correspondence of
src/sparse_map.rs with coq/SparseMap.v - see units_sparsemap.py."""
import os, sys
sys.path.insert(0, os.path.dirname(__file__))
import units_sparsemap

def run(tier, seed, cx):
    return units_sparsemap.run(tier, seed, cx, 'C10')
