"""C19: parallel iteration against sequential iteration of the same fetcher (h_par)."""
import subprocess, time

def run(tier, seed, cx):
    worlds = 12 if tier == 'quick' else 120
    viol, cov = [], {}
    total_checks = 0
    t0 = time.time()
    samples = []
    for prof in ('debug', 'release'):
        p = subprocess.run(['%s/%s/h_par' % (cx['TARGET'], prof), str(seed), str(worlds), '1' if tier == 'quick' else '2'], stdout=subprocess.PIPE, stderr=subprocess.PIPE, text=True, errors='replace', timeout=3000)
        last = p.stdout.strip().split('\n')[-1] if p.stdout.strip() else ''
        import re
        m = re.search(r'checks=(\d+) mismatches=(\d+)', last)
        if m:
            total_checks += int(m.group(1))
        if p.returncode != 0 or not m or int(m.group(2)) != 0:
            viol.append((dict(engine='h_par', profile=prof, seed=seed, worlds=worlds, exit=p.returncode,
                              output=p.stdout[-3000:], stderr=p.stderr[-1500:],
                              replay_cmd='%s/%s/h_par %d %d' % (cx['TARGET'], prof, seed, worlds)), True))
        samples.append('%s: %s' % (prof, last))
    cov = dict(evaluations=total_checks, distinct_nontrivial=total_checks,
               rule='h_par: %d generated worlds per profile (0..6000 entities over subsets of {K0,K1,K3} or, in every second world, of all six component types = up to 64 archetypes, with churn), 6 typed fetchers (read, mutable, optional, With (zero-sized state), Or, into_par_iter), pools of 1,2,3,4,8,16 threads, with and without per-item delay; plus a grid of worlds with three matching archetypes of every combination of populations from {1,30,60,64,90,128} (thorough: 14 sizes) on pools of 2, 4, 8 threads, so that split points fall on first rows, on equal row indices in two archetypes etc.; each evaluation compares the sorted items visited in parallel with sequential iteration of the same fetcher (non-trivial = every one: populations are regenerated per world)' % worlds,
               samples=samples, par_wall_s=round(time.time() - t0, 1))
    return viol, cov
