#!/usr/bin/env python3
"""C18 translator: reads the marker-impl headers and gated method bounds from /repo's source and
writes them as a rule set to coq/gen/GateRules.v.  A rule that cannot be found is written as
the most permissive value, so that a deleted bound shows up as a broken theorem."""
import re, sys

REPO = '/repo'


def strip_comments(s):
    s = re.sub(r'//[^\n]*', '', s)
    return s


def impl_headers(src, trait):
    """[(generics, target type, where clause)] for `unsafe impl<..> Trait for T where .. {` """
    out = []
    for m in re.finditer(r'unsafe\s+impl\s*(<[^{;]*?>)?\s*' + trait + r'\s+for\s+([^{]*?)\s*\{', src, re.S):
        gen = m.group(1) or ''
        rest = m.group(2)
        if ' where' in rest or '\nwhere' in rest:
            ty, wh = re.split(r'\swhere\s', rest, 1)
        else:
            ty, wh = rest, ''
        out.append((re.sub(r'\s+', ' ', gen), re.sub(r'\s+', ' ', ty).strip(), re.sub(r'\s+', ' ', wh)))
    return out


def bound_of(gen, wh, var, trait):
    """does type variable `var` carry bound `trait` in the generics or the where clause?"""
    return bool(re.search(r'\b%s\s*:\s*[^,>]*\b%s\b' % (re.escape(var), trait), gen + ' , ' + wh))


def main(out_path):
    q = strip_comments(open(REPO + '/src/query.rs').read())
    f = strip_comments(open(REPO + '/src/fetch.rs').read())
    e = strip_comments(open(REPO + '/src/event.rs').read())
    w = strip_comments(open(REPO + '/src/world.rs').read())
    rules = {}
    ro = impl_headers(q, 'ReadOnlyQuery')
    def find(pred):
        for g, t, wh in ro:
            if pred(t): return g, t, wh
        return None
    # leaves
    rules['ro_ref'] = find(lambda t: re.fullmatch(r"&'_ C", t)) is not None
    rules['ro_mut'] = find(lambda t: re.fullmatch(r"&'_ mut C", t)) is not None
    rules['ro_eid'] = find(lambda t: t == 'EntityId') is not None
    # tuples: the macro body
    r = find(lambda t: t.startswith('($('))
    rules['ro_tuple'] = r is not None
    rules['ro_tuple_needs_all'] = bool(r and re.search(r'\$Q\s*:\s*ReadOnlyQuery', r[0]))
    for name, ty, vars_ in (('opt', 'Option<Q>', ['Q']), ('not', 'Not<Q>', ['Q']), ('with', 'With<Q>', ['Q']), ('has', 'Has<Q>', ['Q'])):
        r = find(lambda t, ty=ty: t == ty)
        rules['ro_' + name] = r is not None
        rules['ro_%s_needs_inner' % name] = bool(r and bound_of(r[0], r[2], 'Q', 'ReadOnlyQuery'))
    for name, ty in (('or', 'Or<L, R>'), ('xor', 'Xor<L, R>')):
        r = find(lambda t, ty=ty: t == ty)
        rules['ro_' + name] = r is not None
        rules['ro_%s_needs_left' % name] = bool(r and bound_of(r[0], r[2], 'L', 'ReadOnlyQuery'))
        rules['ro_%s_needs_right' % name] = bool(r and bound_of(r[0], r[2], 'R', 'ReadOnlyQuery'))
    # &mut C is a Query only for mutable components
    qi = impl_headers(q, 'Query')
    r = [x for x in qi if re.fullmatch(r"&'_ mut C", x[1])]
    rules['mut_query_needs_mutable'] = bool(r and re.search(r'C\s*:\s*Component\s*<\s*Mutability\s*=\s*Mutable\s*>', r[0][0] + r[0][2]))
    r = [x for x in qi if re.fullmatch(r"&'_ C", x[1])]
    rules['ref_query_needs_mutable'] = bool(r and re.search(r'Mutability\s*=\s*Mutable', r[0][0] + r[0][2]))
    # gated methods of Fetcher / Iter
    def method_needs_ro(src, sig):
        m = re.search(sig + r'[^{;]*?\{', src, re.S)
        return bool(m and re.search(r'Q\s*:\s*ReadOnlyQuery', m.group(0)))
    rules['get_needs_ro'] = method_needs_ro(f, r'pub fn get\s*\(\s*&self')
    rules['iter_needs_ro'] = method_needs_ro(f, r'pub fn iter\s*\(\s*&self')
    rules['get_mut_needs_ro'] = method_needs_ro(f, r'pub fn get_mut\s*\(\s*&mut self')
    rules['iter_mut_needs_ro'] = method_needs_ro(f, r'pub fn iter_mut\s*\(\s*&mut self')
    rules['iter_clone_needs_ro'] = bool(re.search(r"impl\s*<\s*'a\s*,\s*Q\s*:\s*ReadOnlyQuery\s*>\s*Clone\s+for\s+Iter", f))
    rules['iter_clone_exists'] = bool(re.search(r"Clone\s+for\s+Iter\s*<", f))
    rules['ref_into_iter_needs_ro'] = bool(re.search(r"impl\s*<\s*'a\s*,\s*Q\s*:\s*ReadOnlyQuery\s*>\s*IntoIterator\s+for\s+&'a\s+Fetcher", f))
    # events and components
    rm = [x for x in impl_headers(e, 'HandlerParam') if x[1].startswith('ReceiverMut')]
    rules['receiver_mut_needs_mutable'] = bool(rm) and all(re.search(r'Mutability\s*=\s*Mutable', g + wh) for g, t, wh in rm)
    rules['world_get_mut_needs_mutable'] = bool(re.search(r'pub fn get_mut\s*<\s*C\s*:\s*Component\s*<\s*Mutability\s*=\s*Mutable\s*>\s*>', w))
    # thread safety
    rules['world_has_not_send_marker'] = bool(re.search(r'_marker\s*:\s*PhantomData\s*<\s*\*const\s*\(\)\s*>', w))
    rules['world_unsafe_send_impl'] = bool(re.search(r'unsafe\s+impl[^{;]*\bSend\s+for\s+World\b', w))
    rules['world_unsafe_sync_impl'] = bool(re.search(r'unsafe\s+impl[^{;]*\bSync\s+for\s+World\b', w))
    def cond_auto(src, trait, ty):
        m = re.search(r"unsafe\s+impl\s*<[^{;]*?>\s*%s\s+for\s+%s\s*<[^{;]*?\{" % (trait, ty), src, re.S)
        return (m is not None, bool(m and re.search(r"Q::This<'a>\s*:\s*%s" % trait, m.group(0))))
    for ty in ('Fetcher', 'Iter'):
        for tr in ('Send', 'Sync'):
            ex, cond = cond_auto(f, tr, ty)
            rules['%s_%s_impl' % (ty.lower(), tr.lower())] = ex
            rules['%s_%s_needs_item' % (ty.lower(), tr.lower())] = cond
    lines = ['(* GENERATED by gen/gates.py from /repo/src/{query,fetch,event,world}.rs - do not edit *)']
    for k in sorted(rules):
        lines.append('Definition g_%s : bool := %s.' % (k, 'true' if rules[k] else 'false'))
    open(out_path, 'w').write('\n'.join(lines) + '\n')
    return rules


if __name__ == '__main__':
    r = main(sys.argv[1] if len(sys.argv) > 1 else '/verif/coq/gen/GateRules.v')
    for k in sorted(r):
        print(k, r[k])
