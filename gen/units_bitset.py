"""Unit correspondence for src/bit_set.rs (BitSet<u32>: the sets of sendable events and referenced components that
World::remove_component / remove_*_event consult) against coq/BitSet.v.

Two sets A and B; ops: ia/ib n (insert), ra n (remove), ca n (contains), u (A |= B), d (is_disjoint), e (is_empty),
s (shrink_to_fit).  `h_units bitset` (real type behind the cfg(evenio_verif) face) and `ocaml/driver bitset` (extracted
model) must agree on every result and on the raw 64-bit blocks of A and B after every op.  Independent monitor: Python
sets are the specification (results, elements() in increasing order, len())."""
import random, subprocess, re, time

def gen_script(r, n_ops):
    vals = [0, 1, 2, 5, 31, 62, 63, 64, 65, 100, 127, 128, 129, 191, 192, 300, 1000]
    ops = []
    for _ in range(n_ops):
        x = r.random()
        if x < 0.30: ops.append('ia %d' % r.choice(vals))
        elif x < 0.45: ops.append('ib %d' % r.choice(vals))
        elif x < 0.62: ops.append('ra %d' % r.choice(vals))
        elif x < 0.78: ops.append('ca %d' % r.choice(vals))
        elif x < 0.85: ops.append('u')
        elif x < 0.91: ops.append('d')
        elif x < 0.96: ops.append('e')
        else: ops.append('s')
    return ops

def exhaustive_scripts(depth):
    alpha = ['ia 0', 'ia 64', 'ib 64', 'ib 130', 'ra 0', 'ra 64', 'u', 'd', 'e', 's']
    out, res = [[]], []
    for _ in range(depth):
        out = [s + [a] for s in out for a in alpha]
        res += out
    return res

def monitors(script, lines):
    bad, A, B = [], set(), set()
    it = iter(lines)
    tf = lambda x: 'true' if x else 'false'
    for op in script:
        ln = next(it, None); st = next(it, None)
        if ln is None or st is None:
            bad.append('output ends early'); break
        t = op.split()
        if t[0] == 'ia': n = int(t[1]); exp = 'ia ' + tf(n not in A); A.add(n)
        elif t[0] == 'ib': n = int(t[1]); exp = 'ib ' + tf(n not in B); B.add(n)
        elif t[0] == 'ra': n = int(t[1]); exp = 'ra ' + tf(n in A); A.discard(n)
        elif t[0] == 'ca': exp = 'ca ' + tf(int(t[1]) in A)
        elif t[0] == 'u': A |= B; exp = 'u'
        elif t[0] == 'd': exp = 'd ' + tf(not (A & B))
        elif t[0] == 'e': exp = 'e ' + tf(not A)
        else: exp = 's'
        if ln != exp: bad.append('%s: got "%s", a set gives "%s"' % (op, ln, exp))
        m = re.search(r'elems=\[(.*?)\] len=(\d+)', st)
        if m:
            el = [int(x) for x in m.group(1).split(',') if x]
            if el != sorted(A): bad.append('%s: elements() = %s, the set is %s' % (op, el, sorted(A)))
            if int(m.group(2)) != len(A): bad.append('%s: len() = %s, the set has %d' % (op, m.group(2), len(A)))
    return bad

def run(tier, seed, cx, pid='C15'):
    t0 = time.time()
    r = random.Random(seed * 15485863 + 3)
    n_rand = 500 if tier == 'quick' else 6000
    scripts = exhaustive_scripts(3 if tier == 'quick' else 4) + [gen_script(r, r.randrange(8, 60)) for _ in range(n_rand)]
    path = cx['CACHE'] + '/units_bitset_%s.txt' % pid
    with open(path, 'w') as f:
        for i, s in enumerate(scripts):
            if i: f.write('reset\n')
            f.write('\n'.join(s) + '\n')
    def split(out):
        blocks, cur = [], []
        for ln in out.split('\n'):
            if ln == 'RESET': blocks.append(cur); cur = []
            elif ln: cur.append(ln)
        blocks.append(cur)
        return blocks
    strip = lambda ln: re.sub(r' elems=\[.*$', '', ln)          # the model prints no elements / len
    pm = subprocess.run([cx['VERIF'] + '/ocaml/driver', 'bitset', path], stdout=subprocess.PIPE, stderr=subprocess.PIPE, text=True, errors='replace', timeout=3000)
    mb = split(pm.stdout)
    viol = []
    for prof in ('debug', 'release'):
        pi = subprocess.run(['%s/%s/h_units' % (cx['TARGET'], prof), 'bitset', path], stdout=subprocess.PIPE, stderr=subprocess.PIPE, text=True, errors='replace', timeout=3000)
        ib = split(pi.stdout)
        if pi.returncode != 0 or pm.returncode != 0 or len(ib) != len(scripts) or len(mb) != len(scripts):
            k = len(ib) - 1
            viol.append((dict(engine='h_units bitset', profile=prof, exit_impl=pi.returncode, exit_model=pm.returncode, stderr_impl=pi.stderr[-1500:], stderr_model=pm.stderr[-1500:],
                              blocks=(len(ib), len(mb), len(scripts)), ops=scripts[k] if 0 <= k < len(scripts) and pi.returncode != 0 else None), bool(pi.returncode != 0 and 0 <= k < len(scripts))))
            continue
        first_mon = first_diff = None
        for i, s in enumerate(scripts):
            mon = monitors(s, ib[i])
            if mon and (first_mon is None or len(s) < len(first_mon[0])): first_mon = (s, mon, ib[i])
            ii = [strip(x) for x in ib[i]]
            if ii != mb[i] and (first_diff is None or len(s) < len(first_diff[0])):
                k = next((j for j in range(min(len(ii), len(mb[i]))) if ii[j] != mb[i][j]), min(len(ii), len(mb[i])))
                first_diff = (s, k, ii[max(0, k - 3):k + 2], mb[i][max(0, k - 3):k + 2])
        if first_mon:
            viol.append((dict(engine='h_units bitset', profile=prof, kind='monitor on the implementation output (Python sets are the specification)', ops=first_mon[0], monitor=first_mon[1][:4], output=first_mon[2][-24:]), True))
        elif first_diff:
            viol.append((dict(engine='h_units bitset', profile=prof, kind='model (BitSet.v) and implementation differ', ops=first_diff[0], at_line=first_diff[1], impl=first_diff[2], model=first_diff[3],
                              no_longer_checks='unit correspondence of coq/BitSet.v with src/bit_set.rs'), False))
    cov = dict(bitset_scripts=len(scripts), bitset_ops=sum(len(s) for s in scripts), bitset_wall_s=round(time.time() - t0, 1),
               bitset_rule='h_units bitset vs ocaml/driver bitset: every sequence of length <= %d over {insert 0/64 into A, 64/130 into B, remove 0/64, union, is_disjoint, is_empty, shrink} plus %d random scripts over indices around the 64-bit block boundaries; results and raw blocks compared; monitor: Python sets (results, elements() sorted, len())' % (3 if tier == 'quick' else 4, n_rand))
    return viol, cov
