"""C03: unit correspondence of the slot map (generation wrap-around, retirement, NextKeyIter) - see units_slotmap.py."""
import os, sys
sys.path.insert(0, os.path.dirname(__file__))
import units_slotmap

def run(tier, seed, cx):
    return units_slotmap.run(tier, seed, cx, 'C03')
