#!/usr/bin/env python3
"""Regenerates /verif/MANIFEST.json from the per-property texts below; a property is claimed
iff coq/Props/<id>.v exists."""
import json, os, subprocess

TEXT = {
 'C01': ('Every unchecked operation of the implementation is a checked operation in the model (FUB site); theorems: the structural operations never reach one under the storage invariant (partial: proved for the operations listed in Props/C01.v). The correspondence runs every generated history in debug (UB precondition checks, debug assertions, misaligned-dereference checks on) and release and compares the outcome class of every op; any crash, abort, undocumented panic or hook-detected misalignment is a failing input.', 'partial: the model carries the logic guarding each unsafe operation, not Rust\'s memory model'),
 'C02': ('Storage refinement on the model: move_entity\'s sorted-column merge conserves and places values exactly (merge_row theorems), world-level get reads them back; the full get matrix of every known entity x component is compared with the implementation after every op.', ''),
 'C03': ('Slot-map theorems with explicit mod 2^32 generation arithmetic (all keys ever issued distinct; a removed key never valid again across wrap-around/retirement; NextKeyIter predictions = keys created) over every operation sequence; the world model composes exactly these definitions, and every returned id, liveness bit and the reservation cursor are compared with the implementation after every op; independent monitors check id uniqueness, never-valid-again and the live count on the implementation\'s output.', ''),
 'C04': ('flush_sound/flush_complete: the Vec-as-stack machine with segment reversal computes exactly the depth-first, first-sent-first delivery, for every state type, event type and per-delivery behaviour; the world model\'s flush IS an instance of that machine (world_flush_depth_first, for every handler behaviour) and its invocation log is compared with the implementation on every generated handler graph.', ''),
 'C05': ('access_matches_qmatch, ca_and_matches, ca_not_matches over the merge/negation/clear/polarity tables that are read out of the running implementation on every run; accept/reject of every generated handler (single and multi-parameter, valid and conflicting) is compared with the model.', ''),
 'C06': ('arch_state_iff_qmatch: the structural matcher accepts an archetype iff the documented Boolean meaning holds, for every query expression and archetype; agreement of init and matcher; items, variants and lengths seen by handlers are compared with the model for every registry query (Iter::len is asserted against the items yielded at every use).', ''),
 'C07': ('HlInv (High ++ Medium ++ Low, each segment in addition order) is preserved by insertion of a newest handler and by removal, for every element type; hl_sorted gives the iteration order. The model\'s global and per-archetype lists are these definitions; per-delivery handler order and the lists themselves (before/after cursors, L3 snapshot) are compared with the implementation.', ''),
 'C08': ('listener tables in the model are filled by register_handler with the conjunction of all targeted receivers\' access expressions, which by C05/C06 theorems is the Boolean meaning; delivery looks the target up at delivery time. Handler sets, order and receiver items for targeted events are compared with the implementation, with structural changes queued between send and delivery.', ''),
 'C09': ('handlers_preserve_structure: for every handler behaviour, all handlers of one delivery run on an unchanged structure; consumed_event_has_no_effect; dead_target_has_no_effect. What handlers observe before the change, the get matrix after it and the destruction ledger are compared with the implementation.', ''),
 'C10': ('The model carries the fetcher caches (SparseMap contents per parameter with archetype identity and buffer epoch) and the refresh/remove notifications; a stale entry is a checked failure. Views of every fetcher/Single/TrySingle/receiver query at every invocation are compared with the implementation.', ''),
 'C11': ('flush_conservation / flush_exactly_once: queued + sent = delivered + handed-to-dropper as multisets, nothing handed to the dropper when the flush completes - for every behaviour; event-value destruction ledger compared with the implementation after every op; monitor: no tracked value destroyed twice.', ''),
 'C12': ('Component ledger in the model (every overwrite, removal, despawn, type removal and world drop logs the destroyed value); merge_row conservation theorem (values of the destination row + destroyed values = source values + inserted value); ledger compared with the implementation after every op for all six layout classes; monitors: no value destroyed twice, none readable after destruction, all stored K1 values destroyed by world drop.', ''),
 'C13': ('flush_abort_queue + flush_conservation: on unwinding the dropper receives exactly the untouched queue plus what the panicking delivery pushed; panic injected at scripted invocation indices in generated graphs, ledger compared right after the unwinding and after world drop.', ''),
 'C14': ('The model implements the five phases of remove_component and the archetype deletion (member_of order, edge cleanup, silent removal, cursor refresh); everything observable after a type removal and on every continuation (re-registration, reuse of indices) is compared with the implementation, including cached transitions (L3) and the C17 audit.', ''),
 'C15': ('remove_not_in / remove_keeps_others on handler lists (a removed handler is in no list afterwards; the others keep their relative order); handler and event removal in the model follow world.rs; invocation logs after removals and id validity are compared with the implementation.', ''),
 'C16': ('add_*_idem: registering what is registered returns the existing id and the unchanged world (nothing delivered); sm_never_again / sm_all_keys_distinct for the four registries; ids returned, notification deliveries (logged by lifecycle-event handlers) and validity of every old id compared with the implementation.', ''),
 'C17': ('The property\'s list is evaluated directly on the implementation\'s hook snapshot after every top-level call (independent Python audit: locations, rows, sorted distinct component sets, by_components, cached transitions, listener tables, pending reservations, cursor) and the snapshot is compared field by field with the model state (L3).', ''),
 'C18': ('The marker-impl headers (ReadOnlyQuery impls and their bounds, Query for &mut C, gated Fetcher/Iter methods, ReceiverMut and get_mut bounds, World\'s !Send marker, conditional Send/Sync impls) are re-read from the source by a translator on every run into coq/gen/GateRules.v; over them: ro_sound (a query the source marks read-only never hands out a mutable reference, for every query and archetype), mut_needs_mutable, shared_access_is_gated, event_and_component_mutability_is_gated, thread_safety_is_gated. h_compile type-checks a generated family of forbidden programs and permitted twins against the current tree and compares each outcome with the model\'s prediction.', 'partial: rustc\'s trait solver and auto-trait rules are modelled only for these marker traits; translation_validation of the program family is the tie'),
 'C19': ('Par.v: for every outer split tree, every family of inner split trees and every order in which the leaves are scheduled, the items visited are exactly those of sequential iteration (concat of leaves = sequence; any leaf permutation is a permutation of the items; NoDup carries over); zip_eq splits keys and values in step. h_par compares parallel with sequential iteration of the same fetcher on generated populations for pools of 1..16 threads, in debug and release.', 'partial: rayon is modelled by arbitrary split trees and leaf schedules; real data races cannot be exhibited by the model'),
 'C20': ('flush_never_resets / flush_loop_resets_once on the world model for every handler behaviour; the arena-reset counter (hook) observed at every handler invocation is compared with the model.', 'partial: bumpalo\'s disjointness of blocks within one epoch is a modelled premise'),
}

def main():
    props = [json.loads(l) for l in open('/verif/properties.jsonl')]
    claimed = [p['id'] for p in props if os.path.exists('/verif/coq/Props/%s.v' % p['id']) and p['id'] in TEXT]
    checks = []
    for pid in claimed:
        text, partial = TEXT[pid]
        checks.append(dict(
            property_id=pid, quick_cmd='./check %s --tier quick' % pid, thorough_cmd='./check %s --tier thorough' % pid,
            evidence_file='/verif/evidence/%s.json' % pid, replay_cmd_template='./check %s --replay {path}' % pid,
            engine='coq-model+h_world',
            level_claimed=dict(category='proof', text=text + (' [' + partial + ']' if partial else ''), design_ref='DESIGN.md section 5, ' + pid),
            level_note='Trusted: Coq 8.16.1 kernel; no axioms (Print Assumptions: closed under the global context, audited on every run together with a forbidden-token scan); extraction with ExtrOcamlBasic only; the hand-written model is tied to the code by the differential correspondence (generated histories + corpus, debug and release, compared after every op, L1 observables and L3 hook snapshots) and by tables regenerated from the running code; Rust memory model, Vec growth, slab key reuse, hash maps, bumpalo are modelled, not verified.',
            technique='machine-checked proof in Coq (Rocq) over an executable Gallina model + differential correspondence with the implementation'))
    na = [dict(property_id=p['id'], reason='not yet claimed in this round: the model and the correspondence exercise it, its property theorems are under construction')
          for p in props if p['id'] not in claimed]
    commits = subprocess.run("git -C /repo log --format=%H --grep='^verif hooks'", shell=True, capture_output=True, text=True).stdout.split()
    m = dict(version=1, setup_cmd='./setup.sh',
             hooks=dict(guard='evenio_verif', enable='RUSTFLAGS="--cfg evenio_verif" (set by ./check for the harness build, which has a path dependency on /repo)',
                        baseline_off_cmd='cd /repo && cargo test --workspace --no-fail-fast --offline', source_commits=commits, add_only=True),
             engines=[dict(name='coq-model+h_world', path='/verif/check', serves_properties=claimed,
                           kind_free_text='Coq 8.16.1 proofs over an executable Gallina model (extracted to OCaml) + Rust differential harness against /repo')],
             checks=checks, notes='See DESIGN.md. Fix commits made in /repo are listed in KNOWN_FINDINGS.txt.', not_applicable=na)
    json.dump(m, open('/verif/MANIFEST.json', 'w'), indent=1)
    print('claimed:', claimed)

if __name__ == '__main__':
    main()
