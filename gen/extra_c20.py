"""C20: borrowed payloads of any size forwarded through generated graphs (h_arena)."""
import subprocess, re, time

def run(tier, seed, cx):
    rounds = 300 if tier == 'quick' else 4000
    viol = []
    reads = sends = 0
    samples = []
    t0 = time.time()
    for prof in ('debug', 'release'):
        for s in (seed, seed + 1):
            p = subprocess.run(['%s/%s/h_arena' % (cx['TARGET'], prof), str(s), str(rounds)], stdout=subprocess.PIPE, stderr=subprocess.PIPE, text=True, errors='replace', timeout=3000)
            last = p.stdout.strip().split('\n')[-1] if p.stdout.strip() else ''
            m = re.search(r'sends=(\d+) reads=(\d+) corrupted=(\d+) reset_errors=(\d+)', last)
            if m:
                sends += int(m.group(1)); reads += int(m.group(2))
            if p.returncode != 0 or not m or int(m.group(3)) or int(m.group(4)):
                viol.append((dict(engine='h_arena', profile=prof, seed=s, rounds=rounds, exit=p.returncode, output=p.stdout[-3000:], stderr=p.stderr[-800:],
                                  replay_cmd='%s/%s/h_arena %d %d' % (cx['TARGET'], prof, s, rounds)), True))
            samples.append('%s seed %d: %s' % (prof, s, last))
    cov = dict(arena_sends=sends, arena_payload_reads=reads, arena_samples=samples, arena_wall_s=round(time.time() - t0, 1),
               arena_rule='h_arena: per top-level send a handler allocates a slice (0 .. 130000 u64, i.e. up to 1 MiB) and a string (ASCII or multi-byte, either allocation order, with a single-value allocation in between) in the arena and embeds them by reference in an event that is forwarded with fan-out 1..3 to depth 0..3, to global and targeted receivers, with unrelated events and allocations in between; every fifth round a component type held by 2..5 entities is removed while a Despawn listener allocates and sends a payload per entity (a flush with several root events); each round also sends a second chain with small u32/u8/u16 slices and events of alignment 1, 2, 4, 8 and 16 interleaved (allocated, sent, delivered and released around a payload that two receivers verify); every read verifies the pattern; the hook counter must show exactly one reset per top-level send and none before the last read')
    return viol, cov
