"""Generator of op histories for h_world / the extracted model.
Every random choice comes from one random.Random(seed); the same seed gives the same file."""
import random

def load_queries(path='/verif/harness/queries.txt'):
    qs, rq = [], []
    for line in open(path):
        line = line.strip()
        if not line or line.startswith('#'):
            continue
        if line.startswith('R '):
            q = line[2:].strip(); rq.append(q); qs.append(q)
        else:
            qs.append(line)
    return qs, rq

SENDER_SETS = {
    0: [],
    1: ['g0', 'g1', 'g2', 'g3'],
    2: ['t0', 't1', 't2', 't3'],
    3: ['g0', 't0', 'g10', 't10'],
    4: ['g10', 't10', 't20', 't40', 't21', 't41'],
    5: ['t22', 't23', 't24', 't25', 't42', 't43'],
    6: ['g0', 'g1', 't0', 't1', 'g10', 't10', 't20', 't21', 't22', 't40', 't41', 't42'],
    7: ['t10'],
    8: ['g1', 't1', 't23', 't24'],
}
RECV_T_TAGS = [0, 1, 10, 20, 21, 22, 40, 41]
RECV_G_TAGS = [0, 1, 2, 3, 10, 11, 12, 13, 14, 15, 16, 17, 18]
KW = [0, 0, 0, 1, 1, 1, 2, 3, 4, 5]          # component tag weights
KW10 = [0, 1, 2, 3, 4, 5, 6, 7, 8, 8, 9, 9]      # 'wide' profile: all ten component types

class Gen:
    def __init__(self, seed, profile='mixed'):
        self.r = random.Random(seed)
        self.qs, self.rq = load_queries()
        self.profile = profile
        self.stats = {}

    def count(self, k):
        self.stats[k] = self.stats.get(k, 0) + 1

    def tgt(self):
        r = self.r
        x = r.random()
        if x < 0.45: return 'T'
        if x < 0.9: return 'K%d' % r.randrange(0, 12)
        return 'F%d' % r.randrange(0, 2)

    def action_for(self, ev):
        r = self.r
        if ev == 'g10': return 'sp'
        if ev[0] == 'g': return 'sg' + ev[1:]
        t = int(ev[1:])
        if t == 10: return 'de' + self.tgt()
        if 20 <= t < 40: return 'in%s:%d' % (self.tgt(), t - 20)
        if 40 <= t < 60: return 'rm%s:%d' % (self.tgt(), t - 40)
        return 'st%s:%d' % (self.tgt(), t)

    def notify_handler(self):
        """Handlers listening for the registration notifications (Add*/Remove* of components, events, handlers,
        Spawn) that react by sending events / changing entities: what they do runs in the middle of a registration."""
        r = self.r
        tag = r.choice([11, 12, 13, 13, 13, 14, 14, 15, 16, 17, 18, 10])
        params = ['G%dr' % tag]
        if r.random() < 0.4:
            params.append('F %s' % r.choice(self.qs))
        sset = r.choice([3, 4, 6, 6, 6, 2, 8])
        evs = SENDER_SETS[sset]
        params.append('N%d %d %s' % (sset, len(evs), ' '.join(evs)))
        pool = [e for e in evs if e[0] == 't' or e in ('g0', 'g1')] or evs
        acts = [self.action_for(r.choice(pool)) for _ in range(r.choice([1, 2, 2, 3]))]
        prio = r.choice(['H', 'M', 'M', 'L'])
        self.count('handler_notify')
        return 'addh %s - 0 0 %d %d %s %d %s' % (prio, r.choice([0, 0, 2]), len(params), ' '.join(params), len(acts), ' '.join(acts))

    def handler(self, simple=False):
        r = self.r
        if self.profile == 'chains':
            return self.chain_handler()
        if self.profile == 'registry' and r.random() < 0.35:
            return self.notify_handler()
        params = []
        # receiver
        targeted = r.random() < 0.5
        mut = r.random() < 0.4
        if targeted:
            tag = r.choice([0, 0, 1, 10, 10, 20, 21, 22, 40, 41])
            q = r.choice(self.rq) if r.random() < 0.8 else 't0'
            params.append('T%d%s %s' % (tag, 'm' if mut else 'r', q))
        else:
            tag = r.choice([0, 0, 0, 1, 1, 2, 3, 10, 10] + ([11, 12, 13, 14, 15, 16, 17, 18] if r.random() < 0.3 else []))
            if tag == 10: mut = False
            params.append('G%d%s' % (tag, 'm' if mut else 'r'))
        # rarely a second receiver (invalid configs, or two targeted receivers of the same event)
        if r.random() < 0.04:
            if targeted and r.random() < 0.6:
                params.append('T%d%s %s' % (tag, 'r', r.choice(self.rq)))
            else:
                params.append('G%d%s' % (r.choice([0, 1]), r.choice('rm')))
        if r.random() < 0.02:
            params.pop(0)          # no receiver at all
        # fetchers
        nf = r.choice([0, 0, 1, 1, 1, 2, 2, 3]) if not simple else r.choice([0, 1])
        for _ in range(nf):
            kind = r.choice(['F', 'F', 'F', 'F', 'Y', 'S']) if r.random() < 0.5 else 'F'
            params.append('%s %s' % (kind, r.choice(self.qs)))
        # sender
        sset = None
        if r.random() < 0.75:
            sset = r.choice([1, 2, 3, 3, 4, 4, 4, 5, 6, 6, 6, 7, 8, 0])
            evs = SENDER_SETS[sset]
            params.append('N%d %d %s' % (sset, len(evs), ' '.join(evs)) if evs else 'N0 0')
            if r.random() < 0.12:
                # a second Sender parameter with another event set (legal: the queue access is never rejected)
                s2 = r.choice([x for x in (1, 2, 3, 4, 5, 7, 8) if x != sset])
                ev2 = SENDER_SETS[s2]
                params.append('N%d %d %s' % (s2, len(ev2), ' '.join(ev2)))
                evs = evs + [e for e in ev2 if e not in evs]
                self.count('handler_two_senders')
        r.shuffle(params) if r.random() < 0.3 else None
        # script
        acts = []
        if sset is not None:
            for _ in range(r.choice([0, 1, 1, 2, 2, 3])):
                if evs and r.random() < 0.96:
                    acts.append(self.action_for(r.choice(evs)))
                else:
                    acts.append(self.action_for(r.choice(['g0', 't0', 'g10', 't10', 't20', 't41'])))
        take = 1 if (mut and r.random() < 0.3) else 0
        evd = r.choice([0, 0, 1, 3]) if mut else 0
        wd = r.choice([0, 0, 0, 2, 5])
        prio = r.choice(['H', 'M', 'M', 'L'])
        tid = '-' if r.random() < 0.85 else str(r.randrange(0, 4))
        self.count('handler_recv_%s' % ('t' if targeted else 'g'))
        return 'addh %s %s %d %d %d %d %s %d %s' % (prio, tid, take, evd, wd, len(params), ' '.join(params), len(acts), ' '.join(acts))

    def chain_handler(self):
        """Handlers concentrated on G0/G1/T0 that send several events and often consume theirs."""
        r = self.r
        params = []
        mut = r.random() < 0.6
        x = r.random()
        if x < 0.6:
            params.append('G%d%s' % (r.choice([0, 0, 1]), 'm' if mut else 'r'))
        elif x < 0.85:
            params.append('T0%s %s' % ('m' if mut else 'r', r.choice(['t0', 'e', 'r0', 'o r0', '! r0'])))
        else:
            tag = r.choice([10, 20, 21, 40])
            params.append('T%d%s %s' % (tag, 'm' if mut else 'r', r.choice(['t0', 'e', 'o r0'])))
        if r.random() < 0.3:
            params.append('F %s' % r.choice(self.qs))
        sset = r.choice([3, 3, 6, 6, 6, 1, 4])
        evs = SENDER_SETS[sset]
        params.append('N%d %d %s' % (sset, len(evs), ' '.join(evs)))
        pool = [e for e in evs if e in ('g0', 'g1', 't0', 't1', 'g10', 't10', 't20', 't21', 't40')] or evs
        acts = [self.action_for(r.choice(pool)) for _ in range(r.choice([0, 1, 2, 2, 3, 3]))]
        take = 1 if (mut and r.random() < 0.45) else 0
        evd = r.choice([0, 1, 3]) if mut else 0
        prio = r.choice(['H', 'M', 'M', 'M', 'L'])
        self.count('handler_chain')
        return 'addh %s - %d %d %d %d %s %d %s' % (prio, take, evd, r.choice([0, 0, 2]), len(params), ' '.join(params), len(acts), ' '.join(acts))

    def scenes(self):
        """Short scripted openings (randomised) for situations that uniform op mixes reach too rarely: index recycling
        after a component type is removed, a registration in the middle of add_handler, and a Remove directly followed
        by an Insert of the same component with a listener that only matches entities lacking it."""
        r = self.r
        ops = []
        for _ in range(r.choice([1, 1, 2])):
            kind = r.choice(['recycle', 'recycle', 'midreg', 'rm_in'])
            self.count('scene_' + kind)
            if kind == 'recycle':
                c1, c2, c3 = r.sample([0, 1, 2, 3, 4, 5], 3)
                c4 = r.choice([c3, c3, r.choice([6, 7])])
                base = sum(1 for o in ops if o == 'spawn')
                nc = sum(1 for o in ops if o.startswith('addc '))
                ops += ['spawn', 'spawn', 'spawn', 'addc %d' % c1, 'addc %d' % c2, 'addc %d' % c3,
                        'insert %d %d' % (base + 1, c1), 'insert %d %d' % (base + 1, c2)]
                if r.random() < 0.3: ops.append('insert %d %d' % (base + 2, c2))
                ops += ['insert %d %d' % (base, c3), 'rmc %d' % (nc + 2)]
                if r.random() < 0.8: ops.append('remove %d %d' % (base + 1, c1))
                if r.random() < 0.2: ops.append('insert %d %d' % (base + 2, c1))
                ops += ['addc %d' % c4, 'spawn', 'insert %d %d' % (base + 3, c4)]
                if r.random() < 0.5: ops.append('insert %d %d' % (base, c4))
            elif kind == 'midreg':
                # a listener of AddComponent that creates / changes entities, then a handler whose LATER parameter
                # registers a component type that is not registered yet
                a = r.choice([0, 1, 2])
                acts = r.choice([['sp', 'inF0:%d' % a], ['inK0:%d' % a], ['sp', 'inF0:%d' % a, 'inK0:%d' % a]])
                ops += ['spawn', 'addc %d' % a]
                ops.append('addh %s - 0 0 0 2 G11r N6 12 %s %d %s' % (r.choice('HML'), ' '.join(SENDER_SETS[6]), len(acts), ' '.join(acts)))
                late = r.choice(['| r8 r9', 't2 m8 r9', 't3 r0 r8 r9'])
                first = r.choice(['F r%d' % a, 'Y r%d' % a, 'S r%d' % a, 'F t2 e r%d' % a]) if a == 0 else 'F r%d' % a
                ops.append('addh M - 0 0 %d 3 G0r %s F %s 0 ' % (r.choice([0, 2]), first, late))
                ops += ['send 0']
            else:
                c = 0          # the targeted-receiver query '! r0' is the one the harness instantiates
                base = sum(1 for o in ops if o == 'spawn')
                ops += ['spawn', 'insert %d %d' % (base, c)]
                ops.append('addh M - 0 0 0 2 T0r t0 N4 6 %s 2 rmT:%d inT:%d' % (' '.join(SENDER_SETS[4]), c, c))
                ops.append('addh %s - %d 0 0 1 T%dm ! r%d 0 ' % (r.choice('HML'), r.choice([1, 1, 0]), 20 + c, c))
                if r.random() < 0.4:
                    ops.append('addh M - 0 0 0 1 T%dr r%d 0 ' % (40 + c, c))
                ops += ['sendto %d 0' % base]
        return ops

    def history(self, n_ops):
        r = self.r
        ops = []
        w = dict(spawn=14, insert=26, remove=7, despawn=6, send=8, sendto=8, addh=11, rmh=3, addc=2, rmc=3,
                 addge=1, addte=1, rmge=1, rmte=1, fuel=1, panicat=1, addgeu=0, addteu=0, addcu=0)
        if self.profile == 'structural':
            w.update(addh=3, send=2, sendto=2, insert=34, remove=12, despawn=8, rmc=5)
        elif self.profile == 'events':
            w.update(addh=18, send=14, sendto=14, insert=14)
        elif self.profile == 'panics':
            w.update(panicat=6, addh=16, send=12, sendto=12)
        elif self.profile == 'registry':
            w.update(addh=26, rmh=8, addc=4, rmc=4, addge=3, addte=3, rmge=4, rmte=4, send=8, sendto=10, insert=18, spawn=12, remove=5, despawn=4, panicat=1, fuel=0,
                     addgeu=2, addteu=2, addcu=1)   # registrations without a TypeId (descriptor API): fresh model tag 1000+n each
        elif self.profile == 'cascade':
            w.update(rmc=9, addc=3, insert=30, spawn=9, send=16, sendto=4, remove=6, despawn=4, addh=6, rmh=1, addge=0, addte=1, rmge=0, rmte=1, panicat=1, fuel=0)
        elif self.profile == 'wide':
            w.update(insert=40, remove=10, despawn=3, spawn=6, send=8, sendto=4, addh=8, rmh=1, rmc=2, addc=1, addge=0, addte=0, rmge=0, rmte=0, panicat=0, fuel=0)
        elif self.profile == 'chains':
            w.update(addh=20, send=22, sendto=12, insert=12, spawn=10, rmh=5, remove=4, despawn=4, rmc=1, addc=0, addge=0, addte=0, rmge=0, rmte=0, panicat=1, fuel=1)
        names = list(w); weights = [w[k] for k in names]
        if self.profile == 'chains':
            ops += ['spawn', 'spawn'] + [self.handler() for _ in range(r.randrange(3, 8))]
        if self.profile == 'cascade':
            # entities over a few component sets, fetchers that watch them on G0/G1, and (often) a handler that
            # consumes Despawn so that entities survive the announcement phase of remove_component
            ops += ['spawn'] * r.randrange(3, 7)
            ops += ['insert %d %d' % (r.randrange(0, 6), r.choice([0, 1, 2, 3])) for _ in range(r.randrange(4, 10))]
            for _ in range(r.randrange(2, 5)):
                ps = ['G%dr' % r.choice([0, 0, 1])] + ['F %s' % r.choice(self.qs) for _ in range(r.choice([1, 1, 2]))]
                ops.append('addh %s - 0 0 %d %d %s 0 ' % (r.choice('HML'), r.choice([0, 0, 2]), len(ps), ' '.join(ps)))
                self.count('handler_watch')
            if r.random() < 0.7:
                ops.append('addh %s - 1 0 0 1 T10m %s 0 ' % (r.choice('HML'), r.choice(['e', 't0', 'o r0'])))
                self.count('handler_despawn_taker')
        if self.profile == 'wide':
            # entities with nine and ten components, built in different insertion orders, then overwrites / removals of
            # components that sort late and fetchers over them
            ops += ['spawn', 'spawn', 'spawn']
            for e in range(3):
                order = list(range(10)); r.shuffle(order)
                if e == 2: order = order[:r.randrange(7, 10)]
                ops += ['insert %d %d' % (e, k) for k in order]
            ops += ['addh M - 0 0 %d 2 G0r F %s 0 ' % (r.choice([0, 2]), q) for q in r.sample(['t3 r0 r8 r9', 't2 m8 r9', 't2 e m9', '| r8 r9', 't2 o r8 w r9'], 3)]
            ops += ['send 0']
        if self.profile == 'scenes':
            ops += self.scenes()
        if self.profile == 'registry':
            ops += ['spawn', 'spawn', 'insert 0 0', 'insert 1 1'] + [self.notify_handler() for _ in range(r.randrange(1, 4))]
        for _ in range(n_ops):
            op = r.choices(names, weights)[0]
            self.count('op_' + op)
            if op == 'spawn': ops.append('spawn')
            elif op == 'insert': ops.append('insert %d %d' % (r.randrange(0, 16), r.choice(KW10 if self.profile == 'wide' else KW)))
            elif op == 'remove': ops.append('remove %d %d' % (r.randrange(0, 16), r.choice(KW10 if self.profile == 'wide' else KW)))
            elif op == 'despawn': ops.append('despawn %d' % r.randrange(0, 16))
            elif op == 'send': ops.append('send %d' % (r.choice([0, 0, 1]) if self.profile == 'chains' else r.choice([0, 0, 1, 1, 2, 3])))
            elif op == 'sendto': ops.append('sendto %d %d' % (r.randrange(0, 16), 0 if self.profile == 'chains' else r.choice([0, 0, 1, 1, 2, 3])))
            elif op == 'addh': ops.append(self.handler())
            elif op == 'rmh': ops.append('rmh %d' % r.randrange(0, 8))
            elif op == 'addc': ops.append('addc %d' % r.choice(KW))
            elif op == 'rmc': ops.append('rmc %d' % r.randrange(0, 6))
            elif op == 'addge': ops.append('addge %d' % r.choice(RECV_G_TAGS))
            elif op == 'addte': ops.append('addte %d' % r.choice([0, 1, 2, 3, 10, 20, 21, 22, 23, 24, 25, 40, 41, 42]))
            elif op in ('addgeu', 'addteu', 'addcu'):
                self.untyped = getattr(self, 'untyped', 0) + 1
                ops.append('%s %d' % (op, self.untyped))
            elif op == 'rmge': ops.append('rmge %d' % r.randrange(0, 6))
            elif op == 'rmte': ops.append('rmte %d' % r.randrange(0, 6))
            elif op == 'fuel': ops.append('fuel %d' % r.choice([0, 8, 32, 64, 128]))
            elif op == 'panicat': ops.append('panicat %d' % r.choice([0, 1, 1, 2, 3, 5]))
        ops.append('drop')
        return ops

def write_histories(path, seed, n_hist, n_ops, profiles=('mixed', 'structural', 'events', 'panics', 'chains', 'registry', 'cascade', 'wide', 'scenes')):
    g = None
    hists = []
    stats = {}
    for i in range(n_hist):
        g = Gen(seed * 1000003 + i, profiles[i % len(profiles)])
        h = g.history(g.r.randrange(n_ops // 2, n_ops + 1))
        hists.append(h)
        for k, v in g.stats.items():
            stats[k] = stats.get(k, 0) + v
    with open(path, 'w') as f:
        for i, h in enumerate(hists):
            if i: f.write('reset\n')
            f.write('\n'.join(h) + '\n')
    return hists, stats

if __name__ == '__main__':
    import sys
    hists, stats = write_histories(sys.argv[1], int(sys.argv[2]), int(sys.argv[3]), int(sys.argv[4]))
    print(stats)
