"""C05 search for a failing input that does not need the Coq model: every pair of registry queries is
put into one handler (global receiver + two Fetchers) and World::add_handler's verdict is compared with
the documented meaning, evaluated directly: the handler must be accepted iff on no archetype (every
subset of the six component types) the references its parameters hand out contain two references to the
same component of which one is mutable (Aliasing.v: hrefs / aliasing; HandlerCheck.v: handler_check_exact).
Used as the failing-input search when a theorem over the regenerated access tables breaks, and as an
additional always-on check (2.7k handlers, < 1 s)."""
import itertools, os, subprocess

NCOMP = 6


def parse(tokens):
    t = tokens.pop(0)
    if t[0] == 't' and t[1:].isdigit():
        return ('tuple', [parse(tokens) for _ in range(int(t[1:]))])
    if t[0] == 'r' and t[1:].isdigit(): return ('ref', int(t[1:]))
    if t[0] == 'm' and t[1:].isdigit(): return ('mut', int(t[1:]))
    if t == 'e': return ('eid',)
    if t == '!': return ('not', parse(tokens))
    if t == 'o': return ('opt', parse(tokens))
    if t == 'w': return ('with', parse(tokens))
    if t == 'h': return ('has', parse(tokens))
    if t == '|': return ('or', parse(tokens), parse(tokens))
    if t == 'x': return ('xor', parse(tokens), parse(tokens))
    raise ValueError(t)


def qmatch(a, q):
    k = q[0]
    if k in ('ref', 'mut'): return q[1] in a
    if k == 'tuple': return all(qmatch(a, x) for x in q[1])
    if k in ('opt', 'has', 'eid'): return True
    if k == 'or': return qmatch(a, q[1]) or qmatch(a, q[2])
    if k == 'xor': return qmatch(a, q[1]) != qmatch(a, q[2])
    if k == 'not': return not qmatch(a, q[1])
    if k == 'with': return qmatch(a, q[1])
    raise ValueError(k)


def srefs(a, q):
    k = q[0]
    if k == 'ref': return [(q[1], False)]
    if k == 'mut': return [(q[1], True)]
    if k == 'tuple': return [r for x in q[1] for r in srefs(a, x)]
    if k == 'opt': return srefs(a, q[1]) if qmatch(a, q[1]) else []
    if k in ('or', 'xor'):
        return (srefs(a, q[1]) if qmatch(a, q[1]) else []) + (srefs(a, q[2]) if qmatch(a, q[2]) else [])
    return []


def aliasing(refs):
    for c in set(c for c, _ in refs):
        rs = [m for cc, m in refs if cc == c]
        if len(rs) >= 2 and any(rs):
            return True
    return False


def mentioned(q):
    k = q[0]
    if k in ('ref', 'mut'): return {q[1]}
    if k == 'tuple': return set().union(*[mentioned(x) for x in q[1]]) if q[1] else set()
    if k == 'eid': return set()
    out = set()
    for x in q[1:]: out |= mentioned(x)
    return out


def must_accept(qs):
    # only the components the queries mention matter: every component set agrees on them with one of their subsets
    comps = sorted(set().union(*[mentioned(q) for q in qs])) if qs else []
    for n in range(len(comps) + 1):
        for a in itertools.combinations(comps, n):
            a = set(a)
            refs = [r for q in qs if qmatch(a, q) for r in srefs(a, q)]
            if aliasing(refs):
                return False, sorted(a)
    return True, None


def run(tier, seed, ctx):
    verif, target = ctx['VERIF'], ctx['TARGET']
    lines = [l.strip() for l in open(verif + '/harness/queries.txt') if l.strip() and not l.startswith('#')]
    texts = [l[2:] if l.startswith('R ') else l for l in lines]
    qs = [parse(t.split()) for t in texts]
    cases = []
    for i in range(len(qs)):
        cases.append(((i,), 'addh M - 0 0 0 2 G0r F %s 0 ' % texts[i]))
        for j in range(i, len(qs)):
            cases.append(((i, j), 'addh M - 0 0 0 3 G0r F %s F %s 0 ' % (texts[i], texts[j])))
    # the received event: two receivers of one event are accepted iff neither is mutable (shared xor exclusive)
    # (every sequence of 2..4 receivers: a conflict found among the first ones must stay found when more follow)
    recv_cases = []
    for n in (2, 3, 4):
        for ms in itertools.product('rm', repeat=n):
            for ev, q in (('G0', ''), ('G1', ''), ('T0', ' e'), ('T1', ' r0')):
                recv_cases.append((ms, 'addh M - 0 0 0 %d %s 0 ' % (n, ' '.join('%s%s%s' % (ev, a, q) for a in ms))))
    rpath = os.path.join(ctx['CACHE'], 'c05_receivers.ops')
    open(rpath, 'w').write('\nreset\n'.join(c[1] for c in recv_cases) + '\n')
    path = os.path.join(ctx['CACHE'], 'c05_pairs.ops')
    open(path, 'w').write('\nreset\n'.join(c[1] for c in cases) + '\n')
    violations, n_rej, n_acc = [], 0, 0
    for prof in ('debug', 'release'):
        p = subprocess.run(['%s/%s/h_world' % (target, prof), path, 'quiet'], stdout=subprocess.PIPE, stderr=subprocess.PIPE, text=True, errors='replace', timeout=1200)
        verdicts = [l for l in p.stdout.split('\n') if l.startswith('R ')]
        if p.returncode != 0 or len(verdicts) != len(cases):
            violations.append((dict(kind='c05-pairs', broken='harness run', profile=prof, rc=p.returncode, got=len(verdicts), expected=len(cases),
                                    stderr=p.stderr[-500:]), False))
            continue
        for (idx, op), v in zip(cases, verdicts):
            accepted = not v.startswith('R panic')
            exp, arch = must_accept([qs[i] for i in idx])
            if accepted: n_acc += 1
            else: n_rej += 1
            if accepted != exp:
                violations.append((dict(kind='c05-pairs', profile=prof, ops=[op.strip()], implementation='accepted' if accepted else 'rejected: ' + v,
                                        documented_meaning='must be accepted' if exp else 'must be rejected: on the archetype with components %s two parameters alias a component mutably' % arch,
                                        queries=[texts[i] for i in idx]), True))
                break
    if not violations:
        for prof in ('debug', 'release'):
            p = subprocess.run(['%s/%s/h_world' % (target, prof), rpath, 'quiet'], stdout=subprocess.PIPE, stderr=subprocess.PIPE, text=True, errors='replace', timeout=600)
            verdicts = [l for l in p.stdout.split('\n') if l.startswith('R ')]
            if p.returncode != 0 or len(verdicts) != len(recv_cases):
                violations.append((dict(kind='c05-receivers', broken='harness run', profile=prof, rc=p.returncode, got=len(verdicts), expected=len(recv_cases), stderr=p.stderr[-500:]), False))
                break
            for (ms, op), v in zip(recv_cases, verdicts):
                accepted = not v.startswith('R panic')
                exp = all(a == 'r' for a in ms)
                if accepted != exp:
                    violations.append((dict(kind='c05-receivers', profile=prof, ops=[op.strip()], implementation='accepted' if accepted else 'rejected: ' + v,
                                            documented_meaning='must be accepted' if exp else 'must be rejected: the handler would access the received event both shared and exclusively'), True))
                    break
            if violations: break
    cov = dict(c05_receiver_pairs=len(recv_cases), c05_pair_handlers=len(cases), c05_pair_accepted=n_acc // 2, c05_pair_rejected=n_rej // 2,
               c05_pair_rule='every single registry query and every unordered pair of the %d registry queries as Fetcher parameters of one handler; verdict of World::add_handler (debug and release) compared with the aliasing semantics evaluated over every subset of the components the queries mention' % len(qs))
    return violations[:1], cov
