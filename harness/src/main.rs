// h_world : interprets an op script against a real evenio World and prints one canonical
// observation block per op (the same blocks the extracted Coq model prints).
mod common;
use std::panic::{catch_unwind, AssertUnwindSafe};

use common::*;
use evenio::component::{AddComponent, ComponentId, RemoveComponent};
use evenio::event::{
    AddGlobalEvent, AddTargetedEvent, GlobalEventId, RemoveGlobalEvent, RemoveTargetedEvent,
    TargetedEventId,
};
use evenio::handler::{AddHandler, HandlerId, HandlerPriority, RemoveHandler};
use evenio::prelude::*;

include!(concat!(env!("OUT_DIR"), "/registry.rs"));

fn make_recv_t_q<Q>(tag: u32, mutable: bool) -> Option<Box<dyn DynParam>>
where
    Q: Query + 'static,
    for<'a> Q::This<'a>: Item,
{
    macro_rules! mk {
        ($E:ty) => {
            if mutable {
                Some(Box::new(RecvTM::<$E, Q>::new()) as Box<dyn DynParam>)
            } else {
                Some(Box::new(RecvT::<$E, Q>::new()) as Box<dyn DynParam>)
            }
        };
    }
    match tag {
        0 => mk!(T0),
        1 => mk!(T1),
        10 => mk!(Despawn),
        20 => mk!(Insert<K0>),
        21 => mk!(Insert<K1>),
        22 => mk!(Insert<K2>),
        40 => mk!(Remove<K0>),
        41 => mk!(Remove<K1>),
        _ => None,
    }
}

fn make_recv_g(tag: u32, mutable: bool) -> Option<Box<dyn DynParam>> {
    macro_rules! mk {
        ($E:ty) => {
            if mutable {
                Some(Box::new(RecvGM::<$E>::new()) as Box<dyn DynParam>)
            } else {
                Some(Box::new(RecvG::<$E>::new()) as Box<dyn DynParam>)
            }
        };
    }
    match tag {
        0 => mk!(G0),
        1 => mk!(G1),
        2 => mk!(G2),
        3 => mk!(G3),
        10 => Some(Box::new(RecvG::<Spawn>::new())),
        11 => mk!(AddComponent),
        12 => mk!(RemoveComponent),
        13 => mk!(AddHandler),
        14 => mk!(RemoveHandler),
        15 => mk!(AddGlobalEvent),
        16 => mk!(AddTargetedEvent),
        17 => mk!(RemoveGlobalEvent),
        18 => mk!(RemoveTargetedEvent),
        _ => None,
    }
}

/// Sender sets; the op carries the expected (targeted, tag) list, which is checked.
fn make_sender(set: u32, list: Vec<(bool, u32)>) -> Option<Box<dyn DynParam>> {
    fn g(t: u32) -> (bool, u32) {
        (false, t)
    }
    fn t(t: u32) -> (bool, u32) {
        (true, t)
    }
    let (expect, b): (Vec<(bool, u32)>, Box<dyn DynParam>) = match set {
        0 => (vec![], Box::new(SenderP::<()>::new(list.clone()))),
        1 => (vec![g(0), g(1), g(2), g(3)], Box::new(SenderP::<(G0, G1, G2, G3)>::new(list.clone()))),
        2 => (vec![t(0), t(1), t(2), t(3)], Box::new(SenderP::<(T0, T1, T2, T3)>::new(list.clone()))),
        3 => (vec![g(0), t(0), g(10), t(10)], Box::new(SenderP::<(G0, T0, Spawn, Despawn)>::new(list.clone()))),
        4 => (
            vec![g(10), t(10), t(20), t(40), t(21), t(41)],
            Box::new(SenderP::<(Spawn, Despawn, Insert<K0>, Remove<K0>, Insert<K1>, Remove<K1>)>::new(list.clone())),
        ),
        5 => (
            vec![t(22), t(23), t(24), t(25), t(42), t(43)],
            Box::new(SenderP::<(Insert<K2>, Insert<K3>, Insert<K4>, Insert<K5>, Remove<K2>, Remove<K3>)>::new(list.clone())),
        ),
        6 => (
            vec![g(0), g(1), t(0), t(1), g(10), t(10), t(20), t(21), t(22), t(40), t(41), t(42)],
            Box::new(SenderP::<(
                G0, G1, T0, T1, Spawn, Despawn, Insert<K0>, Insert<K1>, Insert<K2>, Remove<K0>, Remove<K1>, Remove<K2>,
            )>::new(list.clone())),
        ),
        7 => (vec![t(10)], Box::new(SenderP::<Despawn>::new(list.clone()))),
        8 => (vec![g(1), t(1), t(23), t(24)], Box::new(SenderP::<(G1, T1, Insert<K3>, Insert<K4>)>::new(list.clone()))),
        _ => return None,
    };
    assert_eq!(expect, list, "sender set {set} does not match the op's list");
    Some(b)
}

struct Toks<'a> {
    it: std::str::SplitWhitespace<'a>,
}
impl<'a> Toks<'a> {
    fn next(&mut self) -> &'a str {
        self.it.next().expect("unexpected end of op")
    }
    fn int(&mut self) -> u64 {
        self.next().parse().expect("integer")
    }
    /// Collects the tokens of one query in prefix notation.
    fn query(&mut self) -> String {
        let mut out = vec![];
        let mut need = 1usize;
        while need > 0 {
            let t = self.next();
            need -= 1;
            need += match t.as_bytes()[0] {
                b'r' | b'm' | b'e' => 0,
                b't' => t[1..].parse::<usize>().unwrap(),
                b'o' | b'!' | b'w' | b'h' => 1,
                b'|' | b'x' => 2,
                _ => panic!("bad query token {t}"),
            };
            out.push(t);
        }
        out.join(" ")
    }
}

fn parse_tgt(s: &str) -> Tgt {
    match s.as_bytes()[0] {
        b'T' => Tgt::Target,
        b'K' => Tgt::Known(s[1..].parse().unwrap()),
        b'F' => Tgt::Fresh(s[1..].parse().unwrap()),
        _ => panic!("bad tgt {s}"),
    }
}
fn parse_act(t: &str) -> Act {
    let two = |s: &str| {
        let (a, b) = s.split_once(':').expect("act");
        (parse_tgt(a), b.parse::<u32>().unwrap())
    };
    match &t[..2] {
        "sg" => Act::Send(t[2..].parse().unwrap()),
        "st" => { let (a, b) = two(&t[2..]); Act::SendTo(a, b) }
        "sp" => Act::Spawn,
        "in" => { let (a, b) = two(&t[2..]); Act::Insert(a, b) }
        "rm" => { let (a, b) = two(&t[2..]); Act::Remove(a, b) }
        "de" => Act::Despawn(parse_tgt(&t[2..])),
        _ => panic!("bad act {t}"),
    }
}

struct H {
    world: Option<World>,
    hids: Vec<HandlerId>,
    cids: Vec<ComponentId>,
    geids: Vec<GlobalEventId>,
    teids: Vec<TargetedEventId>,
    snap: bool,
}

fn panic_kind(msg: &str) -> u32 {
    if msg.contains("conflicting component access")
        || msg.contains("did not specify an event")
        || msg.contains("more than one event type")
        || msg.contains("conflicting access to the received event")
        || msg.contains("initialization of")
    {
        1
    } else if msg.contains("failed to fetch exactly one entity") {
        2
    } else if msg.contains("`EventSet` of this `Sender`") {
        3
    } else if msg.starts_with("no such ") || msg.contains("invalid slot map key") {
        4
    } else if msg.contains("too many") || msg.contains("capacity overflow") {
        5
    } else if msg.contains("injected handler panic") {
        6
    } else {
        7
    }
}

thread_local! { static LAST_PANIC: std::cell::RefCell<String> = std::cell::RefCell::new(String::new()); }

fn ent(i: u64) -> EntityId {
    ST.with(|s| {
        let s = s.borrow();
        if s.ids.is_empty() { EntityId::NULL } else { s.ids[(i as usize) % s.ids.len()] }
    })
}

impl H {
    fn new(snap: bool) -> Self {
        ST.with(|s| {
            let mut s = s.borrow_mut();
            s.ids.clear();
            s.fuel = 64;
            s.serial = 1;
            s.inv = 0;
            s.panic_at = 0;
            s.log.clear();
            s.drops.clear();
        });
        H { world: Some(World::new()), hids: vec![], cids: vec![], geids: vec![], teids: vec![], snap }
    }

    fn guarded<R>(&mut self, f: impl FnOnce(&mut World) -> R) -> Result<R, u32> {
        let w = self.world.as_mut().expect("world dropped");
        let before = evenio::verif::bump_resets();
        ST.with(|s| s.borrow_mut().resets_base = before);
        match catch_unwind(AssertUnwindSafe(|| f(w))) {
            Ok(r) => Ok(r),
            Err(_) => {
                let msg = LAST_PANIC.with(|m| m.borrow().clone());
                let k = panic_kind(&msg);
                if k == 7 {
                    println!("X undocumented panic: {msg}");
                }
                Err(k)
            }
        }
    }

    fn unit(&mut self, f: impl FnOnce(&mut World)) {
        match self.guarded(f) {
            Ok(()) => println!("R ok"),
            Err(k) => println!("R panic {k}"),
        }
    }

    fn run_op(&mut self, line: &str) {
        let mut t = Toks { it: line.split_whitespace() };
        let op = t.next();
        match op {
            "spawn" => match self.guarded(|w| w.spawn()) {
                Ok(id) => {
                    ST.with(|s| s.borrow_mut().ids.push(id));
                    println!("R id {}", seid(id));
                }
                Err(k) => println!("R panic {k}"),
            },
            // many entities in one op (one state print): reaches slot counts and populations that single spawns never do
            "spawnmany" => {
                let n = t.int();
                let mut fail = None;
                for _ in 0..n {
                    match self.guarded(|w| w.spawn()) {
                        Ok(id) => ST.with(|s| s.borrow_mut().ids.push(id)),
                        Err(k) => {
                            fail = Some(k);
                            break;
                        }
                    }
                }
                match fail {
                    None => println!("R ok"),
                    Some(k) => println!("R panic {k}"),
                }
            }
            "despawnall" => {
                let ids: Vec<EntityId> = ST.with(|s| s.borrow().ids.clone());
                let mut fail = None;
                for e in ids {
                    if let Err(k) = self.guarded(|w| w.despawn(e)) {
                        fail = Some(k);
                        break;
                    }
                }
                match fail {
                    None => println!("R ok"),
                    Some(k) => println!("R panic {k}"),
                }
            }
            "insert" => {
                let e = ent(t.int());
                let k = t.int() as u32;
                let s = if ctag_zst(k) { 0 } else { fresh_serial() };
                self.unit(|w| with_comp!(k, C => w.insert(e, C::mk(s, s))));
            }
            "remove" => {
                let e = ent(t.int());
                let k = t.int() as u32;
                self.unit(|w| with_comp!(k, C => w.remove::<C>(e)));
            }
            "despawn" => {
                let e = ent(t.int());
                self.unit(|w| w.despawn(e));
            }
            "send" => {
                let g = t.int();
                let s = fresh_serial();
                self.unit(|w| match g {
                    0 => w.send(G0::mk(s, s).unwrap()),
                    1 => w.send(G1::mk(s, s).unwrap()),
                    2 => w.send(G2::mk(s, s).unwrap()),
                    3 => w.send(G3::mk(s, s).unwrap()),
                    _ => panic!("harness: bad global tag"),
                });
            }
            "sendto" => {
                let e = ent(t.int());
                let tg = t.int();
                let s = fresh_serial();
                self.unit(|w| match tg {
                    0 => w.send_to(e, T0::mk(s, s).unwrap()),
                    1 => w.send_to(e, T1::mk(s, s).unwrap()),
                    2 => w.send_to(e, T2::mk(s, s).unwrap()),
                    3 => w.send_to(e, T3::mk(s, s).unwrap()),
                    _ => panic!("harness: bad targeted tag"),
                });
            }
            "addh" => {
                let prio = match t.next() {
                    "H" => HandlerPriority::High,
                    "M" => HandlerPriority::Medium,
                    _ => HandlerPriority::Low,
                };
                let tid = match t.next() {
                    "-" => None,
                    s => Some(s.parse::<u32>().unwrap()),
                };
                let take = t.int() == 1;
                let evdelta = t.int();
                let wdelta = t.int();
                let np = t.int();
                let mut params: Vec<Box<dyn DynParam>> = vec![];
                for _ in 0..np {
                    let p = t.next();
                    let b = p.as_bytes();
                    let param = match b[0] {
                        b'G' => make_recv_g(p[1..p.len() - 1].parse().unwrap(), b[b.len() - 1] == b'm'),
                        b'T' => {
                            let tag: u32 = p[1..p.len() - 1].parse().unwrap();
                            let q = t.query();
                            make_recv_t(tag, b[b.len() - 1] == b'm', &q)
                        }
                        b'F' => make_fetch(0, &t.query()),
                        b'S' => make_fetch(1, &t.query()),
                        b'Y' => make_fetch(2, &t.query()),
                        b'N' => {
                            let set: u32 = p[1..].parse().unwrap();
                            let n = t.int();
                            let list = (0..n)
                                .map(|_| {
                                    let s = t.next();
                                    (s.as_bytes()[0] == b't', s[1..].parse::<u32>().unwrap())
                                })
                                .collect();
                            make_sender(set, list)
                        }
                        _ => None,
                    };
                    params.push(param.unwrap_or_else(|| panic!("harness: unsupported param in `{line}`")));
                }
                let na = t.int();
                let actions = (0..na).map(|_| parse_act(t.next())).collect();
                let h = DynHandler { params, prio, tid, script: Script { take, evdelta, wdelta, actions } };
                match self.guarded(|w| w.add_handler(h)) {
                    Ok(id) => {
                        if !self.hids.contains(&id) {
                            self.hids.push(id);
                        }
                        println!("R id {}", skey(id.index().0, id.generation()));
                    }
                    Err(k) => println!("R panic {k}"),
                }
            }
            "rmh" => {
                let j = t.int() as usize;
                if self.hids.is_empty() {
                    println!("R skip");
                } else {
                    let id = self.hids[j % self.hids.len()];
                    match self.guarded(|w| w.remove_handler(id).is_some()) {
                        Ok(b) => println!("R bool {}", b as u32),
                        Err(k) => println!("R panic {k}"),
                    }
                }
            }
            "addc" => {
                let k = t.int() as u32;
                match self.guarded(|w| with_comp!(k, C => w.add_component::<C>())) {
                    Ok(id) => {
                        if !self.cids.contains(&id) {
                            self.cids.push(id);
                        }
                        println!("R id {}", skey(id.index().0, id.generation()));
                    }
                    Err(k) => println!("R panic {k}"),
                }
            }
            "rmc" => {
                let j = t.int() as usize;
                if self.cids.is_empty() {
                    println!("R skip");
                } else {
                    let id = self.cids[j % self.cids.len()];
                    match self.guarded(|w| w.remove_component(id).is_some()) {
                        Ok(b) => println!("R bool {}", b as u32),
                        Err(k) => println!("R panic {k}"),
                    }
                }
            }
            "addge" => {
                let g = t.int();
                match self.guarded(|w| match g {
                    0 => w.add_global_event::<G0>(),
                    1 => w.add_global_event::<G1>(),
                    2 => w.add_global_event::<G2>(),
                    3 => w.add_global_event::<G3>(),
                    10 => w.add_global_event::<Spawn>(),
                    11 => w.add_global_event::<AddComponent>(),
                    12 => w.add_global_event::<RemoveComponent>(),
                    13 => w.add_global_event::<AddHandler>(),
                    14 => w.add_global_event::<RemoveHandler>(),
                    15 => w.add_global_event::<AddGlobalEvent>(),
                    16 => w.add_global_event::<AddTargetedEvent>(),
                    17 => w.add_global_event::<RemoveGlobalEvent>(),
                    18 => w.add_global_event::<RemoveTargetedEvent>(),
                    _ => panic!("harness: bad global tag"),
                }) {
                    Ok(id) => {
                        if !self.geids.contains(&id) {
                            self.geids.push(id);
                        }
                        println!("R id {}", skey(id.index().0, id.generation()));
                    }
                    Err(k) => println!("R panic {k}"),
                }
            }
            "addte" => {
                let tg = t.int() as u32;
                match self.guarded(|w| match tg {
                    0 => w.add_targeted_event::<T0>(),
                    1 => w.add_targeted_event::<T1>(),
                    2 => w.add_targeted_event::<T2>(),
                    3 => w.add_targeted_event::<T3>(),
                    10 => w.add_targeted_event::<Despawn>(),
                    20..=29 => with_comp!(tg - 20, C => w.add_targeted_event::<Insert<C>>()),
                    40..=49 => with_comp!(tg - 40, C => w.add_targeted_event::<Remove<C>>()),
                    _ => panic!("harness: bad targeted tag"),
                }) {
                    Ok(id) => {
                        if !self.teids.contains(&id) {
                            self.teids.push(id);
                        }
                        println!("R id {}", skey(id.index().0, id.generation()));
                    }
                    Err(k) => println!("R panic {k}"),
                }
            }
            // registrations through the descriptor API without a TypeId (C16): the model sees them as
            // registrations of a type tag 1000+n that is used once per history
            "addgeu" => {
                let _n = t.int();
                match self.guarded(|w| unsafe {
                    w.add_global_event_with_descriptor(evenio::event::EventDescriptor {
                        name: "untyped".into(),
                        type_id: None,
                        kind: evenio::event::EventKind::Normal,
                        layout: std::alloc::Layout::new::<u32>(),
                        drop: None,
                        mutability: evenio::mutability::Mutability::Mutable,
                    })
                }) {
                    Ok(id) => {
                        if !self.geids.contains(&id) {
                            self.geids.push(id);
                        }
                        println!("R id {}", skey(id.index().0, id.generation()));
                    }
                    Err(k) => println!("R panic {k}"),
                }
            }
            "addteu" => {
                let _n = t.int();
                match self.guarded(|w| unsafe {
                    w.add_targeted_event_with_descriptor(evenio::event::EventDescriptor {
                        name: "untyped".into(),
                        type_id: None,
                        kind: evenio::event::EventKind::Normal,
                        layout: std::alloc::Layout::new::<u32>(),
                        drop: None,
                        mutability: evenio::mutability::Mutability::Mutable,
                    })
                }) {
                    Ok(id) => {
                        if !self.teids.contains(&id) {
                            self.teids.push(id);
                        }
                        println!("R id {}", skey(id.index().0, id.generation()));
                    }
                    Err(k) => println!("R panic {k}"),
                }
            }
            "addcu" => {
                let _n = t.int();
                match self.guarded(|w| unsafe {
                    w.add_component_with_descriptor(evenio::component::ComponentDescriptor {
                        name: "untyped".into(),
                        type_id: None,
                        layout: std::alloc::Layout::new::<u32>(),
                        drop: None,
                        mutability: evenio::mutability::Mutability::Mutable,
                    })
                }) {
                    Ok(id) => {
                        if !self.cids.contains(&id) {
                            self.cids.push(id);
                        }
                        println!("R id {}", skey(id.index().0, id.generation()));
                    }
                    Err(k) => println!("R panic {k}"),
                }
            }
            "rmge" => {
                let j = t.int() as usize;
                if self.geids.is_empty() {
                    println!("R skip");
                } else {
                    let id = self.geids[j % self.geids.len()];
                    match self.guarded(|w| w.remove_global_event(id).is_some()) {
                        Ok(b) => println!("R bool {}", b as u32),
                        Err(k) => println!("R panic {k}"),
                    }
                }
            }
            "rmte" => {
                let j = t.int() as usize;
                if self.teids.is_empty() {
                    println!("R skip");
                } else {
                    let id = self.teids[j % self.teids.len()];
                    match self.guarded(|w| w.remove_targeted_event(id).is_some()) {
                        Ok(b) => println!("R bool {}", b as u32),
                        Err(k) => println!("R panic {k}"),
                    }
                }
            }
            "fuel" => {
                let n = t.int();
                ST.with(|s| s.borrow_mut().fuel = n);
                println!("R ok");
            }
            "panicat" => {
                let n = t.int();
                ST.with(|s| {
                    let mut s = s.borrow_mut();
                    s.panic_at = if n == 0 { 0 } else { s.inv + n };
                });
                println!("R ok");
            }
            "drop" => {
                let w = self.world.take();
                drop(w);
                println!("R ok");
            }
            _ => panic!("harness: unknown op {op}"),
        }
        self.print_state();
    }

    fn print_state(&mut self) {
        let (log, mut drops, ids) = ST.with(|s| {
            let mut s = s.borrow_mut();
            (std::mem::take(&mut s.log), std::mem::take(&mut s.drops), s.ids.clone())
        });
        for l in log {
            println!("{l}");
        }
        drops.sort_unstable();
        println!(
            "D {}",
            drops.iter().map(|(c, s)| format!("{c}:{s}")).collect::<Vec<_>>().join(" ")
        );
        let Some(w) = self.world.as_ref() else {
            // after `drop` nothing else is observable
            return;
        };
        if QUIET.with(|q| *q.borrow()) {
            // `h_world <ops> quiet`: only the invocation log, the verdict and the destruction ledger
            return;
        }
        for &e in &ids {
            fn cell<C: Comp>(w: &World, e: EntityId) -> String {
                match w.get::<C>(e) {
                    Some(c) => {
                        let (s, v) = c.sv();
                        format!("{s}:{v}")
                    }
                    None => "-".into(),
                }
            }
            println!(
                "M {} {} {} {} {} {} {} {} {} {} {}",
                seid(e), cell::<K0>(w, e), cell::<K1>(w, e), cell::<K2>(w, e), cell::<K3>(w, e), cell::<K4>(w, e), cell::<K5>(w, e),
                cell::<K6>(w, e), cell::<K7>(w, e), cell::<K8>(w, e), cell::<K9>(w, e)
            );
        }
        let bits = |v: Vec<bool>| v.into_iter().map(|b| if b { '1' } else { '0' }).collect::<String>();
        println!(
            "E len={} alive={}",
            w.entities().len(),
            bits(ids.iter().map(|&e| w.entities().contains(e)).collect())
        );
        println!(
            "I h={} c={} ge={} te={}",
            bits(self.hids.iter().map(|&h| w.handlers().contains(h)).collect()),
            bits(self.cids.iter().map(|&c| w.components().contains(c)).collect()),
            bits(self.geids.iter().map(|&g| w.global_events().contains(g)).collect()),
            bits(self.teids.iter().map(|&g| w.targeted_events().contains(g)).collect()),
        );
        if self.snap {
            self.print_snapshot();
        }
    }

    fn print_snapshot(&self) {
        let w = self.world.as_ref().unwrap();
        let s = evenio::verif::snapshot(w);
        fn sl<T>(l: &[T], f: impl Fn(&T) -> String) -> String {
            format!("[{}]", l.iter().map(f).collect::<Vec<_>>().join(","))
        }
        let k = |p: &(u32, u32)| skey(p.0, p.1);
        // entity slots: gen@arch.row for live, gen>link for vacant (retired slots print link 0)
        let mut locs = std::collections::HashMap::new();
        for &(i, a, r) in &s.locations {
            locs.insert(i, (a, r));
        }
        let ents: Vec<String> = s
            .entities
            .slots
            .iter()
            .enumerate()
            .map(|(i, (g, link))| match link {
                None => {
                    let (a, r) = locs[&(i as u32)];
                    format!("{g}@{a}.{r}")
                }
                Some(l) => format!("{g}>{}", if *g == 0 { 0 } else { *l }),
            })
            .collect();
        println!(
            "S ents=[{}] nf={} rc={} rn={} nki={}",
            ents.join(","), s.entities.next_free, s.reserved_cursor, s.reserved_count, s.next_key_index
        );
        if s.event_queue_len != 0 {
            println!("X event queue not empty at a quiescent point: {}", s.event_queue_len);
        }
        for a in &s.archetypes {
            if a.slab_key != a.index {
                println!("X archetype index {} stored under slab key {}", a.index, a.slab_key);
            }
            for (p, al) in a.column_ptrs.iter().zip(&a.column_aligns) {
                if p % al != 0 {
                    println!("X misaligned column pointer {p:#x} for alignment {al}");
                }
            }
            println!(
                "S arch {} comps={} ids={} cap={} ins={} rem={} refresh={} listeners={}",
                a.index,
                sl(&a.components, |c| c.to_string()),
                sl(&a.entity_ids, k),
                a.capacity,
                sl(&a.insert_edges, |(c, d)| format!("{c}>{d}")),
                sl(&a.remove_edges, |(c, d)| format!("{c}>{d}")),
                sl(&a.refresh_listeners, k),
                sl(&a.event_listeners, |(ev, b, af, ids)| format!("{ev}={b}:{af}:{}", sl(ids, k))),
            );
        }
        println!(
            "S byc={}",
            sl(&s.by_components, |(cs, ai)| format!("{}>{ai}", sl(cs, |c| c.to_string())))
        );
        println!(
            "S glists={} order={}",
            sl(&s.global_lists, |(b, a, ids)| format!("{b}:{a}:{}", sl(ids, k))),
            sl(&s.by_insert_order, |(o, id)| format!("{o}={}", k(id)))
        );
        println!(
            "S comps={}",
            sl(&s.components, |(i, m, ins, rem)| format!(
                "{i}:{}:{}:{}",
                sl(m, |x| x.to_string()),
                sl(ins, k),
                sl(rem, k)
            ))
        );
    }
}

thread_local! { static QUIET: std::cell::RefCell<bool> = std::cell::RefCell::new(false); }

fn main() {
    let args: Vec<String> = std::env::args().collect();
    let snap = args.get(2).map(|s| s == "snap").unwrap_or(false);
    if args.get(2).map(|s| s == "quiet").unwrap_or(false) {
        QUIET.with(|q| *q.borrow_mut() = true);
    }
    std::panic::set_hook(Box::new(|info| {
        let msg = if let Some(s) = info.payload().downcast_ref::<&str>() {
            s.to_string()
        } else if let Some(s) = info.payload().downcast_ref::<String>() {
            s.clone()
        } else {
            "?".to_string()
        };
        if msg.starts_with("harness") || msg.contains("Iter::len disagrees") {
            eprintln!("HARNESS PANIC: {msg}");
        }
        LAST_PANIC.with(|m| *m.borrow_mut() = msg);
    }));
    let src = std::fs::read_to_string(&args[1]).expect("ops file");
    let mut h = H::new(snap);
    let mut n = 0usize;
    for line in src.lines() {
        let line = line.trim();
        if line.is_empty() || line.starts_with('#') {
            continue;
        }
        if line == "reset" {
            drop(h.world.take());
            h = H::new(snap);
            println!("RESET");
            continue;
        }
        println!("OP {n} {line}");
        n += 1;
        h.run_op(line);
    }
    // dropping the last world must not be observed after the final block
    let w = h.world.take();
    drop(w);
}
