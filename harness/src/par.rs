// h_par : parallel iteration (rayon feature) against sequential iteration of the same fetcher,
// for thread pools of several sizes and populations large enough to be split and stolen.
//   h_par <seed> <worlds> [grid level]
mod common;
use std::sync::Mutex;

use common::*;
use evenio::prelude::*;
use evenio::rayon::prelude::*;

#[derive(GlobalEvent)]
struct Go {
    delay: u32,
}

static OUT: Mutex<Vec<String>> = Mutex::new(Vec::new());
static CHECKS: Mutex<u64> = Mutex::new(0);
static POOL: Mutex<Option<std::sync::Arc<evenio::rayon::ThreadPool>>> = Mutex::new(None);
fn pool() -> std::sync::Arc<evenio::rayon::ThreadPool> {
    POOL.lock().unwrap().clone().expect("pool")
}

fn spin(n: u32) {
    let mut x = 0u64;
    for i in 0..n {
        x = x.wrapping_mul(6364136223846793005).wrapping_add(i as u64);
    }
    std::hint::black_box(x);
}

fn report(name: &str, mut par: Vec<String>, mut seq: Vec<String>) {
    par.sort();
    seq.sort();
    *CHECKS.lock().unwrap() += 1;
    if par != seq {
        let missing: Vec<&String> = seq.iter().filter(|x| !par.contains(x)).take(3).collect();
        let extra: Vec<&String> = par.iter().filter(|x| !seq.contains(x)).take(3).collect();
        OUT.lock().unwrap().push(format!(
            "MISMATCH {name}: parallel visited {} items, sequential {}; missing {:?}; extra/duplicated {:?}",
            par.len(), seq.len(), missing, extra
        ));
    }
}

struct Rng(u64);
impl Rng {
    fn next(&mut self) -> u64 {
        self.0 ^= self.0 << 13;
        self.0 ^= self.0 >> 7;
        self.0 ^= self.0 << 17;
        self.0
    }
    fn below(&mut self, n: u64) -> u64 {
        self.next() % n
    }
}

fn add_handlers(world: &mut World) {
    world.add_handler(|r: Receiver<Go>, f: Fetcher<(EntityId, &K0)>| {
        let d = r.event.delay;
        let par: Vec<String> = pool().install(|| f.par_iter().map(|i| { spin(d); i.render() }).collect());
        let seq: Vec<String> = f.iter().map(|i| i.render()).collect();
        report("(EntityId,&K0) par_iter", par, seq);
    });
    world.add_handler(|r: Receiver<Go>, mut f: Fetcher<(EntityId, &mut K0)>| {
        let d = r.event.delay;
        let before: Vec<String> = f.iter_mut().map(|mut i| { i.bump(1); i.render() }).collect();
        // every item bumped once more in parallel; then compare with a sequential pass
        let par: Vec<String> = pool().install(|| (&mut f).into_par_iter().map(|mut i| { spin(d); i.bump(1); i.render() }).collect());
        let expect: Vec<String> = f.iter_mut().map(|i| i.render()).collect();
        report("(EntityId,&mut K0) par_iter_mut visits", par, expect);
        let _ = before;
    });
    world.add_handler(|r: Receiver<Go>, f: Fetcher<(EntityId, Option<&K1>, With<&K3>)>| {
        let d = r.event.delay;
        let par: Vec<String> = pool().install(|| f.par_iter().map(|i| { spin(d); i.render() }).collect());
        let seq: Vec<String> = f.iter().map(|i| i.render()).collect();
        report("(EntityId,Option<&K1>,With<&K3>)", par, seq);
    });
    world.add_handler(|_: Receiver<Go>, f: Fetcher<With<&K0>>| {
        let par = pool().install(|| f.par_iter().count());
        let seq = f.iter().count();
        report("With<&K0> count", vec![par.to_string()], vec![seq.to_string()]);
    });
    world.add_handler(|r: Receiver<Go>, f: Fetcher<(EntityId, Or<&K0, &K1>)>| {
        let d = r.event.delay;
        let par: Vec<String> = pool().install(|| f.par_iter().map(|i| { spin(d); i.render() }).collect());
        let seq: Vec<String> = f.iter().map(|i| i.render()).collect();
        report("(EntityId,Or<&K0,&K1>)", par, seq);
    });
    world.add_handler(|_: Receiver<Go>, f: Fetcher<(EntityId, &K3)>| {
        let par: Vec<String> = pool().install(|| f.into_par_iter().map(|i| i.render()).collect());
        report("(EntityId,&K3) into_par_iter: no duplicates", { let mut p = par.clone(); p.sort(); p.dedup(); p }, par);
    });
}

fn main() {
    let args: Vec<String> = std::env::args().collect();
    let seed: u64 = args.get(1).and_then(|s| s.parse().ok()).unwrap_or(1);
    let worlds: u64 = args.get(2).and_then(|s| s.parse().ok()).unwrap_or(4);
    let mut rng = Rng(seed.wrapping_mul(0x9E3779B97F4A7C15) | 1);
    for wi in 0..worlds {
        let mut world = World::new();
        add_handlers(&mut world);
        // population: sizes chosen so that some archetypes are tiny and some large
        let n = match wi % 4 { 0 => rng.below(40), 1 => 200 + rng.below(800), 2 => 3000 + rng.below(3000), _ => rng.below(300) };
        let mut ids = vec![];
        for _ in 0..n {
            let e = world.spawn();
            // every second world spreads its entities over up to 64 component sets (many archetypes per query)
            let mask = if wi % 2 == 1 { rng.below(64) } else { rng.below(8) };
            if mask & 1 != 0 { world.insert(e, K0::mk(fresh_serial(), 0)); }
            if mask & 2 != 0 { world.insert(e, K1::mk(fresh_serial(), 0)); }
            if mask & 4 != 0 { world.insert(e, K3::mk(fresh_serial(), 0)); }
            if mask & 8 != 0 { world.insert(e, K2::mk(fresh_serial(), 0)); }
            if mask & 16 != 0 { world.insert(e, K4::mk(fresh_serial(), 0)); }
            if mask & 32 != 0 { world.insert(e, K5::mk(fresh_serial(), 0)); }
            ids.push(e);
        }
        // some churn so that archetypes are emptied/refilled and rows swapped
        for _ in 0..(n / 5) {
            let e = ids[rng.below(ids.len() as u64) as usize];
            match rng.below(4) {
                0 => world.despawn(e),
                1 => world.remove::<K0>(e),
                2 => world.insert(e, K3::mk(fresh_serial(), 0)),
                _ => world.remove::<K3>(e),
            }
        }
        for threads in [1usize, 2, 3, 4, 8, 16] {
            let p = evenio::rayon::ThreadPoolBuilder::new().num_threads(threads).build().unwrap();
            *POOL.lock().unwrap() = Some(std::sync::Arc::new(p));
            for delay in [0u32, 50] {
                world.send(Go { delay });
            }
        }
    }
    // grid: three archetypes that all match `&K0` ({K0}, {K0,K1}, {K0,K3}) with every combination of populations
    // from a small set around the sizes at which work gets split, so that split points fall on every kind of
    // position (inside an archetype, on its first row, on the same row index in two archetypes, ...)
    let level: u64 = args.get(3).and_then(|s| s.parse().ok()).unwrap_or(1);
    let sizes: &[u64] = if level >= 2 { &[1, 2, 30, 33, 60, 63, 64, 65, 90, 100, 127, 128, 150, 200] } else { &[1, 30, 60, 64, 90, 128] };
    let mut grid_worlds = 0u64;
    for &a in sizes {
        for &b in sizes {
            for &c in sizes {
                let mut world = World::new();
                add_handlers(&mut world);
                for (n, kind) in [(a, 0), (b, 1), (c, 2)] {
                    for _ in 0..n {
                        let e = world.spawn();
                        world.insert(e, K0::mk(fresh_serial(), 0));
                        if kind == 1 { world.insert(e, K1::mk(fresh_serial(), 0)); }
                        if kind == 2 { world.insert(e, K3::mk(fresh_serial(), 0)); }
                    }
                }
                grid_worlds += 1;
                for threads in [2usize, 4, 8] {
                    let p = evenio::rayon::ThreadPoolBuilder::new().num_threads(threads).build().unwrap();
                    *POOL.lock().unwrap() = Some(std::sync::Arc::new(p));
                    world.send(Go { delay: 0 });
                }
                if OUT.lock().unwrap().len() > 20 { break; }
            }
        }
    }
    let out = OUT.lock().unwrap();
    for l in out.iter().take(20) {
        println!("{l}");
    }
    println!("PAR worlds={worlds} grid={grid_worlds} checks={} mismatches={}", CHECKS.lock().unwrap(), out.len());
    if !out.is_empty() {
        std::process::exit(1);
    }
}
