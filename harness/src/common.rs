// common.rs : the harness's fixed type universe (components K0..K9, events G0..G3, T0..T3),
// the item renderer, and the dynamic handler whose parameters are chosen at run time.
// Everything here uses the public evenio API only (plus evenio::verif for snapshots).
#![allow(clippy::type_complexity, dead_code)]

use std::cell::RefCell;

use evenio::archetype::Archetype;
use evenio::component::{AddComponent, RemoveComponent};
use evenio::entity::EntityLocation;
use evenio::event::{
    AddGlobalEvent, AddTargetedEvent, Event, EventPtr, RemoveGlobalEvent, RemoveTargetedEvent,
};
use evenio::handler::{
    AddHandler, Handler, HandlerConfig, HandlerInfo, HandlerParam, HandlerPriority, InitError,
    RemoveHandler,
};
use evenio::mutability::Mutable;
use evenio::fetch::GetError;
use evenio::prelude::*;
use evenio::world::UnsafeWorldCell;

// ---------------------------------------------------------------- harness state
pub struct HState {
    pub ids: Vec<EntityId>,
    pub fuel: u64,
    pub serial: u64,
    pub inv: u64,
    pub panic_at: u64,
    pub log: Vec<String>,
    pub drops: Vec<(u32, u64)>,
    pub resets_base: u64,
}

thread_local! {
    pub static ST: RefCell<HState> = RefCell::new(HState {
        ids: vec![], fuel: 64, serial: 1, inv: 0, panic_at: 0, log: vec![], drops: vec![], resets_base: 0,
    });
}

pub fn fresh_serial() -> u64 {
    ST.with(|s| {
        let mut s = s.borrow_mut();
        let r = s.serial;
        s.serial += 1;
        r
    })
}
fn log_drop(cls: u32, s: u64) {
    // may run during unwinding or thread-local teardown
    let _ = ST.try_with(|st| {
        if let Ok(mut st) = st.try_borrow_mut() {
            st.drops.push((cls, s));
        }
    });
}

// ---------------------------------------------------------------- payloads
pub struct Tr {
    pub cls: u32,
    pub s: u64,
    pub v: u64,
}
impl Drop for Tr {
    fn drop(&mut self) {
        log_drop(self.cls, self.s);
    }
}

pub trait Comp: Component + Sized {
    const TAG: u32;
    fn mk(s: u64, v: u64) -> Self;
    fn sv(&self) -> (u64, u64);
    fn bump(&mut self, d: u64);
}

#[derive(Component)]
pub struct K0 {
    s: u64,
    v: u64,
}
#[derive(Component)]
pub struct K1(Tr);
#[derive(Component)]
pub struct K2;
impl Drop for K2 {
    fn drop(&mut self) {
        log_drop(2, 0);
    }
}
#[derive(Component)]
#[repr(align(64))]
pub struct K3 {
    s: u64,
    v: u64,
}
#[derive(Component)]
#[repr(align(64))]
pub struct K4;
impl Drop for K4 {
    fn drop(&mut self) {
        log_drop(4, 0);
    }
}
#[derive(Component)]
#[component(immutable)]
pub struct K5 {
    s: u64,
    v: u64,
}

// four more plain components, so that archetypes with up to ten columns exist (lookups by component index beyond the
// first eight columns, merges of long component lists)
#[derive(Component)]
pub struct K6 {
    s: u64,
    v: u64,
}
#[derive(Component)]
pub struct K7 {
    s: u64,
    v: u64,
}
#[derive(Component)]
pub struct K8 {
    s: u64,
    v: u64,
}
#[derive(Component)]
pub struct K9 {
    s: u64,
    v: u64,
}

macro_rules! comp_plain {
    ($t:ident, $tag:expr) => {
        impl Comp for $t {
            const TAG: u32 = $tag;
            fn mk(s: u64, v: u64) -> Self {
                Self { s, v }
            }
            fn sv(&self) -> (u64, u64) {
                (self.s, self.v)
            }
            fn bump(&mut self, d: u64) {
                self.v += d;
            }
        }
    };
}
comp_plain!(K0, 0);
comp_plain!(K3, 3);
comp_plain!(K5, 5);
comp_plain!(K6, 6);
comp_plain!(K7, 7);
comp_plain!(K8, 8);
comp_plain!(K9, 9);
impl Comp for K1 {
    const TAG: u32 = 1;
    fn mk(s: u64, v: u64) -> Self {
        K1(Tr { cls: 1, s, v })
    }
    fn sv(&self) -> (u64, u64) {
        (self.0.s, self.0.v)
    }
    fn bump(&mut self, d: u64) {
        self.0.v += d;
    }
}
macro_rules! comp_zst {
    ($t:ident, $tag:expr) => {
        impl Comp for $t {
            const TAG: u32 = $tag;
            fn mk(_s: u64, _v: u64) -> Self {
                $t
            }
            fn sv(&self) -> (u64, u64) {
                // reading through the reference checks its alignment in debug builds
                let _ = self as *const Self as usize;
                (0, 0)
            }
            fn bump(&mut self, _d: u64) {}
        }
    };
}
comp_zst!(K2, 2);
comp_zst!(K4, 4);

pub fn ctag_zst(t: u32) -> bool {
    t == 2 || t == 4
}

// ---------------------------------------------------------------- events
pub trait Ev: Event + Sized + 'static {
    const TARGETED: bool;
    const TAG: u32;
    fn mk(_s: u64, _v: u64) -> Option<Self> {
        None
    }
    fn sv(&self) -> (u64, u64) {
        (0, 0)
    }
    fn idof(&self) -> (u32, u32) {
        (u32::MAX, u32::MAX)
    }
    fn bump(&mut self, _d: u64) {}
}

#[derive(GlobalEvent)]
pub struct G0(Tr);
#[derive(GlobalEvent)]
pub struct G1(Tr);
#[derive(GlobalEvent)]
pub struct G2 {
    s: u64,
    v: u64,
}
#[derive(GlobalEvent)]
pub struct G3 {
    s: u64,
    v: u64,
}
#[derive(TargetedEvent)]
pub struct T0(Tr);
#[derive(TargetedEvent)]
pub struct T1(Tr);
#[derive(TargetedEvent)]
pub struct T2 {
    s: u64,
    v: u64,
}
#[derive(TargetedEvent)]
pub struct T3 {
    s: u64,
    v: u64,
}
macro_rules! ev_tracked {
    ($t:ident, $targeted:expr, $tag:expr, $cls:expr) => {
        impl Ev for $t {
            const TARGETED: bool = $targeted;
            const TAG: u32 = $tag;
            fn mk(s: u64, v: u64) -> Option<Self> {
                Some($t(Tr { cls: $cls, s, v }))
            }
            fn sv(&self) -> (u64, u64) {
                (self.0.s, self.0.v)
            }
            fn bump(&mut self, d: u64) {
                self.0.v += d;
            }
        }
    };
}
macro_rules! ev_plain {
    ($t:ident, $targeted:expr, $tag:expr) => {
        impl Ev for $t {
            const TARGETED: bool = $targeted;
            const TAG: u32 = $tag;
            fn mk(s: u64, v: u64) -> Option<Self> {
                Some($t { s, v })
            }
            fn sv(&self) -> (u64, u64) {
                (self.s, self.v)
            }
            fn bump(&mut self, d: u64) {
                self.v += d;
            }
        }
    };
}
ev_tracked!(G0, false, 0, 100);
ev_tracked!(G1, false, 1, 101);
ev_plain!(G2, false, 2);
ev_plain!(G3, false, 3);
ev_tracked!(T0, true, 0, 200);
ev_tracked!(T1, true, 1, 201);
ev_plain!(T2, true, 2);
ev_plain!(T3, true, 3);

impl Ev for Spawn {
    const TARGETED: bool = false;
    const TAG: u32 = 10;
    fn idof(&self) -> (u32, u32) {
        (self.0.index().0, self.0.generation())
    }
}
macro_rules! ev_life {
    ($t:ident, $tag:expr) => {
        impl Ev for $t {
            const TARGETED: bool = false;
            const TAG: u32 = $tag;
            fn idof(&self) -> (u32, u32) {
                (self.0.index().0, self.0.generation())
            }
        }
    };
}
ev_life!(AddComponent, 11);
ev_life!(RemoveComponent, 12);
ev_life!(AddHandler, 13);
ev_life!(RemoveHandler, 14);
ev_life!(AddGlobalEvent, 15);
ev_life!(AddTargetedEvent, 16);
ev_life!(RemoveGlobalEvent, 17);
ev_life!(RemoveTargetedEvent, 18);
impl Ev for Despawn {
    const TARGETED: bool = true;
    const TAG: u32 = 10;
}
impl<C: Comp> Ev for Insert<C> {
    const TARGETED: bool = true;
    const TAG: u32 = 20 + C::TAG;
    fn mk(s: u64, v: u64) -> Option<Self> {
        Some(Insert(C::mk(s, v)))
    }
    fn sv(&self) -> (u64, u64) {
        self.0.sv()
    }
    fn bump(&mut self, d: u64) {
        self.0.bump(d)
    }
}
impl<C: Comp> Ev for Remove<C> {
    const TARGETED: bool = true;
    const TAG: u32 = 40 + C::TAG;
    fn mk(_s: u64, _v: u64) -> Option<Self> {
        Some(Remove::<C>)
    }
}

// ---------------------------------------------------------------- item rendering
pub trait Item {
    fn render(&self) -> String;
    fn bump(&mut self, _d: u64) {}
}
impl<C: Comp> Item for &C {
    fn render(&self) -> String {
        let (s, v) = (**self).sv();
        format!("{s}:{v}")
    }
}
impl<C: Comp> Item for &mut C {
    fn render(&self) -> String {
        let (s, v) = (**self).sv();
        format!("{s}:{v}")
    }
    fn bump(&mut self, d: u64) {
        (**self).bump(d)
    }
}
impl Item for () {
    fn render(&self) -> String {
        "()".into()
    }
}
macro_rules! item_tuple {
    ($($t:ident $i:tt),*) => {
        impl<$($t: Item),*> Item for ($($t,)*) {
            fn render(&self) -> String {
                let parts: Vec<String> = vec![$(self.$i.render()),*];
                format!("({})", parts.join(","))
            }
            fn bump(&mut self, d: u64) { $(self.$i.bump(d);)* }
        }
    };
}
item_tuple!(A 0);
item_tuple!(A 0, B 1);
item_tuple!(A 0, B 1, C 2);
item_tuple!(A 0, B 1, C 2, D 3);
impl<I: Item> Item for Option<I> {
    fn render(&self) -> String {
        match self {
            Some(i) => format!("S[{}]", i.render()),
            None => "N".into(),
        }
    }
    fn bump(&mut self, d: u64) {
        if let Some(i) = self {
            i.bump(d)
        }
    }
}
impl<L: Item, R: Item> Item for Or<L, R> {
    fn render(&self) -> String {
        match self {
            Or::Left(l) => format!("L[{}]", l.render()),
            Or::Right(r) => format!("R[{}]", r.render()),
            Or::Both(l, r) => format!("B[{};{}]", l.render(), r.render()),
        }
    }
    fn bump(&mut self, d: u64) {
        match self {
            Or::Left(l) => l.bump(d),
            Or::Right(r) => r.bump(d),
            Or::Both(l, r) => {
                l.bump(d);
                r.bump(d)
            }
        }
    }
}
impl<L: Item, R: Item> Item for Xor<L, R> {
    fn render(&self) -> String {
        match self {
            Xor::Left(l) => format!("XL[{}]", l.render()),
            Xor::Right(r) => format!("XR[{}]", r.render()),
        }
    }
    fn bump(&mut self, d: u64) {
        match self {
            Xor::Left(l) => l.bump(d),
            Xor::Right(r) => r.bump(d),
        }
    }
}
impl<Q> Item for Not<Q> {
    fn render(&self) -> String {
        "!".into()
    }
}
impl<Q> Item for With<Q> {
    fn render(&self) -> String {
        "W".into()
    }
}
impl<Q> Item for Has<Q> {
    fn render(&self) -> String {
        if self.get() { "H1".into() } else { "H0".into() }
    }
}
impl Item for EntityId {
    fn render(&self) -> String {
        format!("e{}v{}", self.index().0, self.generation())
    }
}

// Derived query structs (evenio_macros::Query): used in place of the equivalent tuple for three registry queries, so
// that the derive macro's init / new_arch_state / get are exercised with the same expected behaviour as the tuple.
#[derive(Query)]
pub struct DqPair<'a> {
    pub a: &'a K0,
    pub b: &'a K1,
}
impl Item for DqPair<'_> {
    fn render(&self) -> String {
        format!("({},{})", self.a.render(), self.b.render())
    }
}
#[derive(Query)]
pub struct DqTuple<'a>(pub &'a mut K0, pub Not<&'static K1>);
impl Item for DqTuple<'_> {
    fn render(&self) -> String {
        format!("({},{})", self.0.render(), self.1.render())
    }
    fn bump(&mut self, d: u64) {
        self.0.bump(d);
    }
}
#[derive(Query)]
pub struct DqMixed<'a> {
    pub e: EntityId,
    pub a: Option<&'a mut K0>,
    pub h: Has<&'static K1>,
}
impl Item for DqMixed<'_> {
    fn render(&self) -> String {
        format!("({},{},{})", self.e.render(), self.a.render(), self.h.render())
    }
    fn bump(&mut self, d: u64) {
        self.a.bump(d);
    }
}

pub fn skey(i: u32, g: u32) -> String {
    format!("{i}v{g}")
}
pub fn seid(e: EntityId) -> String {
    skey(e.index().0, e.generation())
}

// ---------------------------------------------------------------- scripts
#[derive(Clone, Copy, Debug)]
pub enum Tgt {
    Target,
    Known(usize),
    Fresh(usize),
}
#[derive(Clone, Copy, Debug)]
pub enum Act {
    Send(u32),
    SendTo(Tgt, u32),
    Spawn,
    Insert(Tgt, u32),
    Remove(Tgt, u32),
    Despawn(Tgt),
}
#[derive(Clone, Debug, Default)]
pub struct Script {
    pub take: bool,
    pub evdelta: u64,
    pub wdelta: u64,
    pub actions: Vec<Act>,
}

/// What one invocation has gathered while the parameters are fetched.
#[derive(Default)]
pub struct Inv {
    pub targeted: bool,
    pub tag: u32,
    pub sv: (u64, u64),
    pub id: (u32, u32),
    pub target: Option<EntityId>,
    pub recv_items: Vec<String>,
    pub views: Vec<String>,
}

#[derive(Clone, Copy)]
pub struct Ctx<'a> {
    pub info: &'a HandlerInfo,
    pub ev: EventPtr<'a>,
    pub loc: EntityLocation,
    pub world: UnsafeWorldCell<'a>,
}

// ---------------------------------------------------------------- dynamic parameters
pub trait DynParam {
    fn init(&mut self, world: &mut World, config: &mut HandlerConfig) -> Result<(), InitError>;
    /// `HandlerParam::get` + rendering of what the parameter shows.
    unsafe fn view(&mut self, cx: Ctx<'_>, inv: &mut Inv);
    /// mutate event / write through mutable items
    unsafe fn pre(&mut self, _cx: Ctx<'_>, _sc: &Script) {}
    unsafe fn take(&mut self, _cx: Ctx<'_>) {}
    fn refresh(&mut self, arch: &Archetype);
    fn remove(&mut self, arch: &Archetype);
    fn sender(&mut self) -> Option<&mut dyn DynSender> {
        None
    }
}

pub trait DynSender {
    fn has(&self, targeted: bool, tag: u32) -> bool;
    unsafe fn send_global(&mut self, cx: Ctx<'_>, tag: u32, s: u64, v: u64);
    unsafe fn send_to(&mut self, cx: Ctx<'_>, tag: u32, target: EntityId, s: u64, v: u64);
    unsafe fn spawn(&mut self, cx: Ctx<'_>) -> EntityId;
}

// -- global receivers
pub struct RecvG<E: Ev + GlobalEvent>(std::marker::PhantomData<E>);
impl<E: Ev + GlobalEvent> RecvG<E> {
    pub fn new() -> Self {
        Self(std::marker::PhantomData)
    }
}
impl<E: Ev + GlobalEvent + for<'a> Event<This<'a> = E>> DynParam for RecvG<E> {
    fn init(&mut self, world: &mut World, config: &mut HandlerConfig) -> Result<(), InitError> {
        <Receiver<E> as HandlerParam>::init(world, config)
    }
    unsafe fn view(&mut self, cx: Ctx<'_>, inv: &mut Inv) {
        let mut st = ();
        let r = <Receiver<E> as HandlerParam>::get(&mut st, cx.info, cx.ev, cx.loc, cx.world);
        inv.targeted = false;
        inv.tag = E::TAG;
        inv.sv = r.event.sv();
        inv.id = r.event.idof();
    }
    fn refresh(&mut self, _arch: &Archetype) {}
    fn remove(&mut self, _arch: &Archetype) {}
}
pub struct RecvGM<E: Ev + GlobalEvent>(std::marker::PhantomData<E>);
impl<E: Ev + GlobalEvent> RecvGM<E> {
    pub fn new() -> Self {
        Self(std::marker::PhantomData)
    }
}
impl<E> DynParam for RecvGM<E>
where
    E: Ev + GlobalEvent + Event<Mutability = Mutable> + for<'a> Event<This<'a> = E>,
{
    fn init(&mut self, world: &mut World, config: &mut HandlerConfig) -> Result<(), InitError> {
        <ReceiverMut<E> as HandlerParam>::init(world, config)
    }
    unsafe fn view(&mut self, cx: Ctx<'_>, inv: &mut Inv) {
        let mut st = ();
        let r = <ReceiverMut<E> as HandlerParam>::get(&mut st, cx.info, cx.ev, cx.loc, cx.world);
        inv.targeted = false;
        inv.tag = E::TAG;
        inv.sv = r.event.sv();
        inv.id = r.event.idof();
    }
    unsafe fn pre(&mut self, cx: Ctx<'_>, sc: &Script) {
        let mut st = ();
        let mut r = <ReceiverMut<E> as HandlerParam>::get(&mut st, cx.info, cx.ev, cx.loc, cx.world);
        r.event.bump(sc.evdelta);
    }
    unsafe fn take(&mut self, cx: Ctx<'_>) {
        let mut st = ();
        let r = <ReceiverMut<E> as HandlerParam>::get(&mut st, cx.info, cx.ev, cx.loc, cx.world);
        drop(EventMut::take(r.event));
    }
    fn refresh(&mut self, _arch: &Archetype) {}
    fn remove(&mut self, _arch: &Archetype) {}
}

// -- targeted receivers
pub struct RecvT<E: Ev + TargetedEvent, Q: Query + 'static> {
    state: Option<<Receiver<'static, E, Q> as HandlerParam>::State>,
}
impl<E: Ev + TargetedEvent, Q: Query + 'static> RecvT<E, Q> {
    pub fn new() -> Self {
        Self { state: None }
    }
}
impl<E, Q> DynParam for RecvT<E, Q>
where
    E: Ev + TargetedEvent + for<'a> Event<This<'a> = E>,
    Q: Query + 'static,
    for<'a> Q::This<'a>: Item,
{
    fn init(&mut self, world: &mut World, config: &mut HandlerConfig) -> Result<(), InitError> {
        self.state = Some(<Receiver<E, Q> as HandlerParam>::init(world, config)?);
        Ok(())
    }
    unsafe fn view(&mut self, cx: Ctx<'_>, inv: &mut Inv) {
        let st = self.state.as_mut().unwrap();
        let r = <Receiver<E, Q> as HandlerParam>::get(st, cx.info, cx.ev, cx.loc, cx.world);
        inv.targeted = true;
        inv.tag = E::TAG;
        inv.sv = r.event.sv();
        inv.id = r.event.idof();
        inv.recv_items.push(r.query.render());
    }
    unsafe fn pre(&mut self, cx: Ctx<'_>, sc: &Script) {
        if sc.wdelta != 0 {
            let st = self.state.as_mut().unwrap();
            let mut r = <Receiver<E, Q> as HandlerParam>::get(st, cx.info, cx.ev, cx.loc, cx.world);
            r.query.bump(sc.wdelta);
        }
    }
    fn refresh(&mut self, arch: &Archetype) {
        <Receiver<E, Q> as HandlerParam>::refresh_archetype(self.state.as_mut().unwrap(), arch)
    }
    fn remove(&mut self, arch: &Archetype) {
        <Receiver<E, Q> as HandlerParam>::remove_archetype(self.state.as_mut().unwrap(), arch)
    }
}
pub struct RecvTM<E: Ev + TargetedEvent + Event<Mutability = Mutable>, Q: Query + 'static> {
    state: Option<<ReceiverMut<'static, E, Q> as HandlerParam>::State>,
}
impl<E: Ev + TargetedEvent + Event<Mutability = Mutable>, Q: Query + 'static> RecvTM<E, Q> {
    pub fn new() -> Self {
        Self { state: None }
    }
}
impl<E, Q> DynParam for RecvTM<E, Q>
where
    E: Ev + TargetedEvent + Event<Mutability = Mutable> + for<'a> Event<This<'a> = E>,
    Q: Query + 'static,
    for<'a> Q::This<'a>: Item,
{
    fn init(&mut self, world: &mut World, config: &mut HandlerConfig) -> Result<(), InitError> {
        self.state = Some(<ReceiverMut<E, Q> as HandlerParam>::init(world, config)?);
        Ok(())
    }
    unsafe fn view(&mut self, cx: Ctx<'_>, inv: &mut Inv) {
        let st = self.state.as_mut().unwrap();
        let r = <ReceiverMut<E, Q> as HandlerParam>::get(st, cx.info, cx.ev, cx.loc, cx.world);
        inv.targeted = true;
        inv.tag = E::TAG;
        inv.sv = r.event.sv();
        inv.id = r.event.idof();
        inv.recv_items.push(r.query.render());
    }
    unsafe fn pre(&mut self, cx: Ctx<'_>, sc: &Script) {
        let st = self.state.as_mut().unwrap();
        let mut r = <ReceiverMut<E, Q> as HandlerParam>::get(st, cx.info, cx.ev, cx.loc, cx.world);
        r.event.bump(sc.evdelta);
        if sc.wdelta != 0 {
            r.query.bump(sc.wdelta);
        }
    }
    unsafe fn take(&mut self, cx: Ctx<'_>) {
        let st = self.state.as_mut().unwrap();
        let r = <ReceiverMut<E, Q> as HandlerParam>::get(st, cx.info, cx.ev, cx.loc, cx.world);
        drop(EventMut::take(r.event));
    }
    fn refresh(&mut self, arch: &Archetype) {
        <ReceiverMut<E, Q> as HandlerParam>::refresh_archetype(self.state.as_mut().unwrap(), arch)
    }
    fn remove(&mut self, arch: &Archetype) {
        <ReceiverMut<E, Q> as HandlerParam>::remove_archetype(self.state.as_mut().unwrap(), arch)
    }
}

// -- fetchers
// The library's own wrappers around a parameter are exercised too: the parameter is initialised, refreshed, told
// about removed archetypes and fetched through `Mutex<P>`, `RwLock<P>` or a tuple `(PhantomData<u8>, P, ())`
// (selected per registry query), which must behave exactly like `P` itself.
type TupP<Q> = (std::marker::PhantomData<u8>, Fetcher<'static, Q>, ());
pub struct FetchP<Q: Query + 'static> {
    kind: u8, // 0 Fetcher, 1 Single, 2 TrySingle
    wrap: u8, // 0 plain, 1 Mutex, 2 RwLock, 3 tuple
    state: Option<<Fetcher<'static, Q> as HandlerParam>::State>,
    tstate: Option<<TupP<Q> as HandlerParam>::State>,
}
impl<Q: Query + 'static> FetchP<Q> {
    pub fn new(kind: u8, wrap: u8) -> Self {
        Self { kind, wrap, state: None, tstate: None }
    }
    fn st(&mut self) -> &mut <Fetcher<'static, Q> as HandlerParam>::State {
        if self.wrap == 3 { &mut self.tstate.as_mut().unwrap().1 } else { self.state.as_mut().unwrap() }
    }
    unsafe fn fetcher<'a>(&'a mut self, cx: Ctx<'a>) -> Fetcher<'a, Q> {
        match self.wrap {
            1 => <std::sync::Mutex<Fetcher<Q>> as HandlerParam>::get(self.state.as_mut().unwrap(), cx.info, cx.ev, cx.loc, cx.world).into_inner().unwrap(),
            2 => <std::sync::RwLock<Fetcher<Q>> as HandlerParam>::get(self.state.as_mut().unwrap(), cx.info, cx.ev, cx.loc, cx.world).into_inner().unwrap(),
            3 => <TupP<Q> as HandlerParam>::get(self.tstate.as_mut().unwrap(), cx.info, cx.ev, cx.loc, cx.world).1,
            _ => <Fetcher<Q> as HandlerParam>::get(self.state.as_mut().unwrap(), cx.info, cx.ev, cx.loc, cx.world),
        }
    }
}
impl<Q> DynParam for FetchP<Q>
where
    Q: Query + 'static,
    for<'a> Q::This<'a>: Item,
{
    fn init(&mut self, world: &mut World, config: &mut HandlerConfig) -> Result<(), InitError> {
        // Fetcher, Single and TrySingle share FetcherState::init
        match self.wrap {
            1 => self.state = Some(<std::sync::Mutex<Fetcher<Q>> as HandlerParam>::init(world, config)?),
            2 => self.state = Some(<std::sync::RwLock<Fetcher<Q>> as HandlerParam>::init(world, config)?),
            3 => self.tstate = Some(<TupP<Q> as HandlerParam>::init(world, config)?),
            _ => self.state = Some(<Fetcher<Q> as HandlerParam>::init(world, config)?),
        }
        Ok(())
    }
    unsafe fn view(&mut self, cx: Ctx<'_>, inv: &mut Inv) {
        match self.kind {
            0 => {
                let mut f = self.fetcher(cx);
                let it = f.iter_mut();
                let claimed = it.len();
                let mut items: Vec<String> = it.map(|i| i.render()).collect();
                assert_eq!(claimed, items.len(), "Iter::len disagrees with the items yielded");
                // the same items must come out whatever mix of next() and the folding adapters
                // (for_each, count, ...) consumes the iterator, and len() must track what is left
                if !items.is_empty() {
                    let n = items.len();
                    let mut ks = vec![1, 2, n / 2, n - 1];
                    ks.sort();
                    ks.dedup();
                    for k in ks.into_iter().filter(|k| *k <= n) {
                        let mut it = f.iter_mut();
                        for _ in 0..k {
                            it.next();
                        }
                        let left = it.len();
                        let mut rest: Vec<String> = vec![];
                        it.for_each(|i| rest.push(i.render()));
                        assert_eq!(left, rest.len(), "Iter::len after {k} calls to next disagrees with the items still yielded");
                        assert_eq!(&items[k..], &rest[..], "items after {k} calls to next differ from the tail of a full iteration");
                        let mut it = f.iter_mut();
                        for _ in 0..k {
                            it.next();
                        }
                        assert_eq!(it.count(), n - k, "count() after {k} calls to next");
                    }
                }
                items.sort();
                inv.views.push(format!("0#{}{{{}}}", items.len(), items.join(" ")));
                // random access probes on the first known ids
                let ids: Vec<EntityId> = ST.with(|s| s.borrow().ids.iter().take(3).copied().collect());
                let one = |f: &mut Fetcher<Q>, e: EntityId| match f.get_mut(e) {
                    Ok(i) => format!("10#1{{{}}}", i.render()),
                    Err(GetError::NoSuchEntity) => "11#0{}".to_string(),
                    Err(GetError::QueryDoesNotMatch) => "12#0{}".to_string(),
                };
                fn many<Q: Query, const N: usize>(f: &mut Fetcher<Q>, es: [EntityId; N]) -> String
                where
                    for<'a> Q::This<'a>: Item,
                {
                    use evenio::fetch::GetManyMutError as E;
                    match f.get_many_mut(es) {
                        Ok(items) => {
                            let mut v: Vec<String> = items.iter().map(|i| i.render()).collect();
                            v.sort();
                            format!("20#{}{{{}}}", v.len(), v.join(" "))
                        }
                        Err(E::AliasedMutability) => "21#0{}".to_string(),
                        Err(E::NoSuchEntity) => "22#0{}".to_string(),
                        Err(E::QueryDoesNotMatch) => "23#0{}".to_string(),
                    }
                }
                for &e in &ids {
                    let r = one(&mut f, e);
                    inv.views.push(r);
                }
                if ids.len() >= 2 {
                    inv.views.push(many(&mut f, [ids[0], ids[1]]));
                    inv.views.push(many(&mut f, [ids[0], ids[1], ids[0]]));
                }
                if ids.len() >= 3 {
                    inv.views.push(many(&mut f, [ids[1], ids[2], ids[2]]));
                    inv.views.push(many(&mut f, [ids[2], ids[0], ids[1]]));
                }
            }
            1 => {
                let st = self.st();
                let s = <Single<Q> as HandlerParam>::get(st, cx.info, cx.ev, cx.loc, cx.world);
                inv.views.push(format!("1#1{{{}}}", Single::into_inner(s).render()));
            }
            _ => {
                let st = self.st();
                let r = <TrySingle<Q> as HandlerParam>::get(st, cx.info, cx.ev, cx.loc, cx.world);
                inv.views.push(match r {
                    Ok(i) => format!("2#1{{{}}}", i.render()),
                    Err(SingleError::QueryDoesNotMatch) => "3#0{}".to_string(),
                    Err(SingleError::MoreThanOneMatch) => "4#0{}".to_string(),
                });
            }
        }
    }
    unsafe fn pre(&mut self, cx: Ctx<'_>, sc: &Script) {
        if self.kind == 0 && sc.wdelta != 0 {
            let mut f = self.fetcher(cx);
            for mut item in f.iter_mut() {
                item.bump(sc.wdelta);
            }
        }
    }
    fn refresh(&mut self, arch: &Archetype) {
        match self.wrap {
            1 => <std::sync::Mutex<Fetcher<Q>> as HandlerParam>::refresh_archetype(self.state.as_mut().unwrap(), arch),
            2 => <std::sync::RwLock<Fetcher<Q>> as HandlerParam>::refresh_archetype(self.state.as_mut().unwrap(), arch),
            3 => <TupP<Q> as HandlerParam>::refresh_archetype(self.tstate.as_mut().unwrap(), arch),
            _ => <Fetcher<Q> as HandlerParam>::refresh_archetype(self.state.as_mut().unwrap(), arch),
        }
    }
    fn remove(&mut self, arch: &Archetype) {
        match self.wrap {
            1 => <std::sync::Mutex<Fetcher<Q>> as HandlerParam>::remove_archetype(self.state.as_mut().unwrap(), arch),
            2 => <std::sync::RwLock<Fetcher<Q>> as HandlerParam>::remove_archetype(self.state.as_mut().unwrap(), arch),
            3 => <TupP<Q> as HandlerParam>::remove_archetype(self.tstate.as_mut().unwrap(), arch),
            _ => <Fetcher<Q> as HandlerParam>::remove_archetype(self.state.as_mut().unwrap(), arch),
        }
    }
}

// -- senders
pub struct SenderP<ES: evenio::event::EventSet + 'static> {
    set: Vec<(bool, u32)>,
    state: Option<<Sender<'static, ES> as HandlerParam>::State>,
}
impl<ES: evenio::event::EventSet + 'static> SenderP<ES> {
    pub fn new(set: Vec<(bool, u32)>) -> Self {
        Self { set, state: None }
    }
}
macro_rules! with_comp {
    ($tag:expr, $C:ident => $body:expr) => {
        match $tag {
            0 => { type $C = K0; $body }
            1 => { type $C = K1; $body }
            2 => { type $C = K2; $body }
            3 => { type $C = K3; $body }
            4 => { type $C = K4; $body }
            5 => { type $C = K5; $body }
            6 => { type $C = K6; $body }
            7 => { type $C = K7; $body }
            8 => { type $C = K8; $body }
            9 => { type $C = K9; $body }
            t => panic!("harness: unknown component tag {t}"),
        }
    };
}
pub(crate) use with_comp;
impl<ES: evenio::event::EventSet + 'static> DynParam for SenderP<ES> {
    fn init(&mut self, world: &mut World, config: &mut HandlerConfig) -> Result<(), InitError> {
        self.state = Some(<Sender<ES> as HandlerParam>::init(world, config)?);
        Ok(())
    }
    unsafe fn view(&mut self, _cx: Ctx<'_>, _inv: &mut Inv) {}
    fn refresh(&mut self, _arch: &Archetype) {}
    fn remove(&mut self, _arch: &Archetype) {}
    fn sender(&mut self) -> Option<&mut dyn DynSender> {
        Some(self)
    }
}
impl<ES: evenio::event::EventSet + 'static> DynSender for SenderP<ES> {
    fn has(&self, targeted: bool, tag: u32) -> bool {
        self.set.contains(&(targeted, tag))
    }
    unsafe fn send_global(&mut self, cx: Ctx<'_>, tag: u32, s: u64, v: u64) {
        let st = self.state.as_mut().unwrap();
        let sender = <Sender<ES> as HandlerParam>::get(st, cx.info, cx.ev, cx.loc, cx.world);
        match tag {
            0 => sender.send(G0::mk(s, v).unwrap()),
            1 => sender.send(G1::mk(s, v).unwrap()),
            2 => sender.send(G2::mk(s, v).unwrap()),
            3 => sender.send(G3::mk(s, v).unwrap()),
            t => panic!("harness: unknown global tag {t}"),
        }
    }
    unsafe fn send_to(&mut self, cx: Ctx<'_>, tag: u32, target: EntityId, s: u64, v: u64) {
        let st = self.state.as_mut().unwrap();
        let sender = <Sender<ES> as HandlerParam>::get(st, cx.info, cx.ev, cx.loc, cx.world);
        match tag {
            0 => sender.send_to(target, T0::mk(s, v).unwrap()),
            1 => sender.send_to(target, T1::mk(s, v).unwrap()),
            2 => sender.send_to(target, T2::mk(s, v).unwrap()),
            3 => sender.send_to(target, T3::mk(s, v).unwrap()),
            10 => sender.despawn(target),
            20..=29 => with_comp!(tag - 20, C => sender.insert(target, C::mk(s, v))),
            40..=49 => with_comp!(tag - 40, C => sender.remove::<C>(target)),
            t => panic!("harness: unknown targeted tag {t}"),
        }
    }
    unsafe fn spawn(&mut self, cx: Ctx<'_>) -> EntityId {
        let st = self.state.as_mut().unwrap();
        let sender = <Sender<ES> as HandlerParam>::get(st, cx.info, cx.ev, cx.loc, cx.world);
        sender.spawn()
    }
}

// ---------------------------------------------------------------- the dynamic handler
pub struct DynHandler {
    pub params: Vec<Box<dyn DynParam>>,
    pub prio: HandlerPriority,
    pub tid: Option<u32>,
    pub script: Script,
}

// distinct TypeIds for `tid`
pub struct Tid<const N: u32>;
fn tid_of(n: u32) -> std::any::TypeId {
    match n {
        0 => std::any::TypeId::of::<Tid<0>>(),
        1 => std::any::TypeId::of::<Tid<1>>(),
        2 => std::any::TypeId::of::<Tid<2>>(),
        3 => std::any::TypeId::of::<Tid<3>>(),
        _ => std::any::TypeId::of::<Tid<4>>(),
    }
}

fn resolve(t: Tgt, ev_target: EntityId, fresh: &[EntityId]) -> EntityId {
    match t {
        Tgt::Target => ev_target,
        Tgt::Known(i) => ST.with(|s| {
            let s = s.borrow();
            if s.ids.is_empty() { EntityId::NULL } else { s.ids[i % s.ids.len()] }
        }),
        Tgt::Fresh(k) => fresh.get(k).copied().unwrap_or(EntityId::NULL),
    }
}

impl Handler for DynHandler {
    fn type_id(&self) -> Option<std::any::TypeId> {
        self.tid.map(tid_of)
    }
    fn name(&self) -> std::borrow::Cow<'static, str> {
        "dyn".into()
    }
    fn init(&mut self, world: &mut World, config: &mut HandlerConfig) -> Result<(), InitError> {
        for p in &mut self.params {
            p.init(world, config)?;
        }
        config.set_priority(self.prio);
        Ok(())
    }
    unsafe fn run(
        &mut self,
        info: &HandlerInfo,
        event_ptr: EventPtr,
        target_location: EntityLocation,
        world: UnsafeWorldCell,
    ) {
        let cx = Ctx { info, ev: event_ptr, loc: target_location, world };
        // 1. fetch every parameter (Single may panic here, before the body)
        let mut inv = Inv::default();
        for p in &mut self.params {
            p.view(cx, &mut inv);
        }
        let target = if inv.targeted {
            // the target is not part of the public view of a receiver without a query; recover it
            // from the location through the public Archetypes API
            let arch = world.archetypes().get(target_location.archetype).expect("target archetype");
            arch.entity_ids()[target_location.row.0 as usize]
        } else {
            EntityId::NULL
        };
        let resets = evenio::verif::bump_resets();
        let hid = info.id();
        let base = ST.with(|s| s.borrow().resets_base);
        let line = format!(
            "L {} rs={} {}{} {}:{} id={} tgt={} recv=[{}] views=[{}]",
            skey(hid.index().0, hid.generation()),
            resets - base,
            if inv.targeted { "t" } else { "g" },
            inv.tag,
            inv.sv.0,
            inv.sv.1,
            skey(inv.id.0, inv.id.1),
            seid(target),
            inv.recv_items.join(" "),
            inv.views.join(" ")
        );
        let (my_inv, panic_at) = ST.with(|s| {
            let mut s = s.borrow_mut();
            s.log.push(line);
            s.inv += 1;
            (s.inv, s.panic_at)
        });
        // 2. body
        let sc = self.script.clone();
        for p in &mut self.params {
            p.pre(cx, &sc);
        }
        let ev_target = if inv.targeted {
            target
        } else if inv.tag == 10 {
            EntityId::new(inv.id.0, inv.id.1).unwrap_or(EntityId::NULL)
        } else {
            EntityId::NULL
        };
        let mut fresh: Vec<EntityId> = vec![];
        for a in &sc.actions {
            let ok = ST.with(|s| {
                let mut s = s.borrow_mut();
                if s.fuel == 0 { false } else { s.fuel -= 1; true }
            });
            if !ok {
                continue;
            }
            let (targeted, tag) = match *a {
                Act::Send(g) => (false, g),
                Act::SendTo(_, t) => (true, t),
                Act::Spawn => (false, 10),
                Act::Insert(_, k) => (true, 20 + k),
                Act::Remove(_, k) => (true, 40 + k),
                Act::Despawn(_) => (true, 10),
            };
            // first sender whose set has the event; else the first sender (which will panic); else skip
            let mut idx = None;
            let mut first = None;
            for (i, p) in self.params.iter_mut().enumerate() {
                if let Some(s) = p.sender() {
                    if first.is_none() {
                        first = Some(i);
                    }
                    if s.has(targeted, tag) {
                        idx = Some(i);
                        break;
                    }
                }
            }
            let Some(si) = idx.or(first) else { continue };
            let sender = self.params[si].sender().unwrap();
            match *a {
                Act::Send(g) => {
                    let s = fresh_serial();
                    sender.send_global(cx, g, s, s)
                }
                Act::SendTo(t, tg) => {
                    let s = fresh_serial();
                    sender.send_to(cx, tg, resolve(t, ev_target, &fresh), s, s)
                }
                Act::Spawn => {
                    let id = sender.spawn(cx);
                    ST.with(|s| s.borrow_mut().ids.push(id));
                    fresh.push(id);
                }
                Act::Insert(t, k) => {
                    let s = if ctag_zst(k) { 0 } else { fresh_serial() };
                    sender.send_to(cx, 20 + k, resolve(t, ev_target, &fresh), s, s)
                }
                Act::Remove(t, k) => sender.send_to(cx, 40 + k, resolve(t, ev_target, &fresh), 0, 0),
                Act::Despawn(t) => sender.send_to(cx, 10, resolve(t, ev_target, &fresh), 0, 0),
            }
        }
        if sc.take {
            for p in &mut self.params {
                p.take(cx);
            }
        }
        if panic_at != 0 && panic_at == my_inv {
            panic!("injected handler panic");
        }
    }
    fn refresh_archetype(&mut self, arch: &Archetype) {
        for p in &mut self.params {
            p.refresh(arch);
        }
    }
    fn remove_archetype(&mut self, arch: &Archetype) {
        for p in &mut self.params {
            p.remove(arch);
        }
    }
}
