// h_arena : C20 - handler-allocated payloads forwarded by reference through generated graphs
// (any size, depth and fan-out, with unrelated deliveries and allocations in between) must be
// intact whenever a handler reads them; the arena is reset exactly once per top-level send.
//   h_arena <seed> <rounds>
use std::cell::RefCell;

use evenio::prelude::*;

#[derive(GlobalEvent)]
struct Kick {
    len: usize,
    fanout: u32,
    depth: u32,
    tag: u64,
}
#[derive(GlobalEvent)]
struct Big<'a> {
    depth: u32,
    fanout: u32,
    tag: u64,
    data: &'a [u64],
    name: &'a str,
}
#[derive(GlobalEvent)]
struct Noise(u64);
#[derive(TargetedEvent)]
struct BigT<'a> {
    tag: u64,
    data: &'a [u64],
}

thread_local! {
    static ERRORS: RefCell<Vec<String>> = RefCell::new(vec![]);
    static READS: RefCell<u64> = RefCell::new(0);
    static RESETS_SEEN: RefCell<Vec<u64>> = RefCell::new(vec![]);
}

fn pattern(tag: u64, i: usize) -> u64 {
    (tag.wrapping_mul(0x9E3779B97F4A7C15)).wrapping_add(i as u64).rotate_left((i % 61) as u32)
}
// labels of varying length; two thirds of them contain multi-byte characters (byte length != char count)
fn label(tag: u64) -> String {
    match tag % 3 {
        0 => format!("payload-{tag}"),
        1 => format!("p\u{e4}yl\u{f6}ad-\u{2192}{tag}-{}", "\u{df}".repeat((tag % 7) as usize)),
        _ => format!("{}\u{1F980}{tag}", "\u{4e16}\u{754c}".repeat(1 + (tag % 5) as usize)),
    }
}
fn verify(who: &str, tag: u64, data: &[u64], name: Option<&str>) {
    READS.with(|r| *r.borrow_mut() += 1);
    RESETS_SEEN.with(|r| r.borrow_mut().push(evenio::verif::bump_resets()));
    for (i, &x) in data.iter().enumerate() {
        if x != pattern(tag, i) {
            ERRORS.with(|e| e.borrow_mut().push(format!("{who}: payload tag={tag} len={} corrupted at index {i}", data.len())));
            return;
        }
    }
    if let Some(n) = name {
        if n != label(tag) {
            ERRORS.with(|e| e.borrow_mut().push(format!("{who}: string payload tag={tag} corrupted: {n:?}")));
        }
    }
}

fn on_kick(r: Receiver<Kick>, s: Sender<(Big, Noise)>) {
    let k = r.event;
    // allocation order varies: the string may come after or before the slice it could overrun
    let (data, name) = if k.tag % 2 == 0 {
        let data = s.alloc_slice(k.len, |i| pattern(k.tag, i));
        let name = s.alloc_str(&label(k.tag));
        (data, name)
    } else {
        let name = s.alloc_str(&label(k.tag));
        let _one = s.alloc(k.tag);
        let data = s.alloc_slice(k.len, |i| pattern(k.tag, i));
        (data, name)
    };
    let data: &[u64] = data;
    let name: &str = name;
    s.send(Noise(k.tag));
    s.send(Big { depth: k.depth, fanout: k.fanout, tag: k.tag, data, name });
    if k.tag % 3 != 0 {
        s.send(Noise(k.tag + 1));
    }
}
fn on_big_forward(r: Receiver<Big>, s: Sender<(Big, Noise, BigT)>, f: Fetcher<EntityId>) {
    let b = r.event;
    verify("forwarder", b.tag, b.data, Some(b.name));
    s.send(Noise(b.tag));
    // unrelated allocations in between
    let _junk = s.alloc_slice(257, |i| i as u8);
    if b.depth > 0 {
        for _ in 0..b.fanout {
            s.send(Big { depth: b.depth - 1, fanout: b.fanout, tag: b.tag, data: b.data, name: b.name });
        }
    }
    for e in f.iter().take(2) {
        s.send_to(e, BigT { tag: b.tag, data: b.data });
    }
}
// a component whose removal despawns several entities in one flush (several root events), and a Despawn listener
// that allocates a payload per despawned entity and sends it on
#[derive(Component)]
struct Doomed(u64);
thread_local! { static DOOM_TAG: RefCell<u64> = RefCell::new(0); }
fn on_despawn(r: Receiver<Despawn, EntityId>, s: Sender<(Big, Noise)>) {
    let base = DOOM_TAG.with(|t| *t.borrow());
    if base == 0 {
        return;
    }
    let tag = base + (r.query.index().0 as u64 % 5);
    let data = s.alloc_slice(300 + (tag % 7) as usize * 100, |i| pattern(tag, i));
    let name = s.alloc_str(&label(tag));
    // the payload-carrying event is sometimes the last thing sent (the last pending descendant of this root)
    if tag % 2 == 0 {
        s.send(Big { depth: 1, fanout: 2, tag, data, name });
        s.send(Noise(tag));
    } else {
        s.send(Noise(tag));
        s.send(Big { depth: (tag % 3) as u32, fanout: 1, tag, data, name });
    }
}
fn on_big_second(r: Receiver<Big>) {
    verify("second receiver", r.event.tag, r.event.data, Some(r.event.name));
}
fn on_bigt(r: Receiver<BigT, ()>) {
    verify("targeted receiver", r.event.tag, r.event.data, None);
}
fn on_noise(r: Receiver<Noise>, s: Sender<()>) {
    // overwrite whatever memory the arena hands out now
    let n = 1024 + (r.event.0 % 7) as usize * 512;
    let junk = s.alloc_slice(n, |_| u64::MAX);
    std::hint::black_box(junk);
}


// -- small payloads and events of mixed alignment (1, 2, 4, 8, 16): what a handler allocated must stay intact while
// events of other layouts are sent, delivered and released around it
#[derive(GlobalEvent)]
struct Kick2 {
    tag: u64,
}
#[derive(GlobalEvent)]
struct M4 {
    a: u32,
    b: u32,
}
#[derive(GlobalEvent)]
struct M1(u8);
#[derive(GlobalEvent)]
struct M2(u16, u16, u16);
#[derive(GlobalEvent)]
struct W8(u64);
#[derive(GlobalEvent)]
struct W16(u128);
#[derive(GlobalEvent)]
struct Carrier<'a> {
    tag: u64,
    d32: &'a [u32],
    d8: &'a [u8],
    d16: &'a [u16],
}
fn verify_mixed(who: &str, c: &Carrier) {
    READS.with(|r| *r.borrow_mut() += 1);
    let t = c.tag;
    let ok = c.d32.iter().enumerate().all(|(i, &x)| x == pattern(t, i) as u32)
        && c.d8.iter().enumerate().all(|(i, &x)| x == pattern(t + 1, i) as u8)
        && c.d16.iter().enumerate().all(|(i, &x)| x == pattern(t + 2, i) as u16);
    if !ok {
        ERRORS.with(|e| e.borrow_mut().push(format!("{who}: mixed-alignment payload tag={t} corrupted: {:x?} {:x?} {:x?}", c.d32, c.d8, c.d16)));
    }
}
fn on_kick2(r: Receiver<Kick2>, s: Sender<(M4, M1, M2, Carrier)>) {
    let t = r.event.tag;
    if t % 11 == 0 {
        s.send(M1(1)); // shifts the alignment phase of what follows
    }
    let d32: &[u32] = s.alloc_slice(1 + (t % 5) as usize, |i| pattern(t, i) as u32);
    if t % 2 == 0 {
        s.send(M4 { a: t as u32, b: 1 });
    }
    let d8: &[u8] = s.alloc_slice(1 + (t % 7) as usize, |i| pattern(t + 1, i) as u8);
    if t % 3 == 0 {
        s.send(M1(t as u8));
    }
    let d16: &[u16] = s.alloc_slice(1 + (t % 3) as usize, |i| pattern(t + 2, i) as u16);
    match t % 4 {
        0 => s.send(M4 { a: 7, b: t as u32 }),
        1 => s.send(M2(1, 2, 3)),
        2 => s.send(M1(9)),
        _ => {}
    }
    s.send(Carrier { tag: t, d32, d8, d16 });
}
fn on_carrier_first(r: Receiver<Carrier>, s: Sender<(W8, W16, M4, M2)>) {
    verify_mixed("first carrier receiver", r.event);
    match r.event.tag % 6 {
        0 => s.send(W8(u64::MAX)),
        1 => s.send(W16(u128::MAX)),
        2 => {
            s.send(M2(0xFFFF, 0xFFFF, 0xFFFF));
            s.send(W8(u64::MAX));
        }
        3 => {
            std::hint::black_box(s.alloc(u128::MAX));
        }
        4 => {
            s.send(M4 { a: u32::MAX, b: u32::MAX });
            s.send(W16(u128::MAX));
        }
        _ => {
            std::hint::black_box(s.alloc_slice(3, |_| u64::MAX));
        }
    }
}
fn on_carrier_second(r: Receiver<Carrier>) {
    verify_mixed("second carrier receiver", r.event);
}
fn on_w8(r: Receiver<W8>, s: Sender<W16>) {
    if r.event.0 == u64::MAX {
        s.send(W16(1));
    }
}

struct Rng(u64);
impl Rng {
    fn next(&mut self) -> u64 {
        self.0 ^= self.0 << 13;
        self.0 ^= self.0 >> 7;
        self.0 ^= self.0 << 17;
        self.0
    }
}

fn main() {
    let args: Vec<String> = std::env::args().collect();
    let seed: u64 = args.get(1).and_then(|s| s.parse().ok()).unwrap_or(1);
    let rounds: u64 = args.get(2).and_then(|s| s.parse().ok()).unwrap_or(50);
    let mut rng = Rng(seed.wrapping_mul(0x2545F4914F6CDD1D) | 1);
    let mut world = World::new();
    world.add_handler(on_kick);
    world.add_handler(on_big_forward);
    world.add_handler(on_big_second);
    world.add_handler(on_bigt);
    world.add_handler(on_noise);
    world.add_handler(on_despawn);
    world.add_handler(on_kick2);
    world.add_handler(on_carrier_first);
    world.add_handler(on_carrier_second);
    world.add_handler(on_w8);
    for _ in 0..3 {
        world.spawn();
    }
    // warm-up so that every event type is registered
    world.send(Kick { len: 1, fanout: 1, depth: 1, tag: 0 });
    let mut sends = 0u64;
    let mut reset_errors = vec![];
    for round in 0..rounds {
        let len = match rng.next() % 6 {
            0 => 0,
            1 => 1 + (rng.next() % 16) as usize,
            2 => 100 + (rng.next() % 900) as usize,
            3 => 4096 + (rng.next() % 4096) as usize,
            4 => 9000 + (rng.next() % 30000) as usize, // > 64 KiB
            _ => 70000 + (rng.next() % 60000) as usize, // > 512 KiB
        };
        let fanout = 1 + (rng.next() % 3) as u32;
        let depth = (rng.next() % 4) as u32;
        let before = evenio::verif::bump_resets();
        RESETS_SEEN.with(|r| r.borrow_mut().clear());
        world.send(Kick { len, fanout, depth, tag: round + 1 });
        sends += 1;
        let after = evenio::verif::bump_resets();
        if after != before + 1 {
            reset_errors.push(format!("round {round}: {} arena resets during one top-level send (len={len} fanout={fanout} depth={depth})", after - before));
        }
        RESETS_SEEN.with(|r| {
            if r.borrow().iter().any(|&x| x != before) {
                reset_errors.push(format!("round {round}: a handler ran after an arena reset inside the same top-level send (len={len} fanout={fanout} depth={depth})"));
            }
        });
        {
            let before = evenio::verif::bump_resets();
            world.send(Kick2 { tag: rng.next() % 4096 });
            sends += 1;
            if evenio::verif::bump_resets() != before + 1 {
                reset_errors.push(format!("round {round}: arena resets during the mixed-alignment send != 1"));
            }
        }
        if round % 5 == 4 {
            // a flush that starts with several queued events: removing a component type held by 2..5 entities
            let n = 2 + (rng.next() % 4);
            for i in 0..n {
                let e = world.spawn();
                world.insert(e, Doomed(i));
            }
            DOOM_TAG.with(|t| *t.borrow_mut() = 1_000_000 + round * 10);
            let c = world.add_component::<Doomed>();
            world.remove_component(c);
            DOOM_TAG.with(|t| *t.borrow_mut() = 0);
            sends += 1;
            for _ in 0..2 {
                world.spawn(); // keep a few entities around for the targeted forwards
            }
        }
    }
    let errs = ERRORS.with(|e| e.borrow().clone());
    for l in errs.iter().chain(reset_errors.iter()).take(20) {
        println!("X {l}");
    }
    println!(
        "ARENA sends={sends} reads={} corrupted={} reset_errors={}",
        READS.with(|r| *r.borrow()),
        errs.len(),
        reset_errors.len()
    );
    if !errs.is_empty() || !reset_errors.is_empty() {
        std::process::exit(1);
    }
}
