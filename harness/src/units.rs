fn main() {}
