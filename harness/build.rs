// Generates the query registry (query token string -> Rust type) from queries.txt.
use std::fmt::Write;

fn parse(toks: &mut std::slice::Iter<&str>) -> String {
    let t = toks.next().expect("query token");
    let c = t.chars().next().unwrap();
    let rest = &t[1..];
    match c {
        'r' => format!("&'static K{rest}"),
        'm' => format!("&'static mut K{rest}"),
        't' => {
            let n: usize = rest.parse().unwrap();
            let parts: Vec<String> = (0..n).map(|_| parse(toks)).collect();
            if n == 0 { "()".into() } else { format!("({},)", parts.join(", ")) }
        }
        'o' => format!("Option<{}>", parse(toks)),
        '|' => { let l = parse(toks); let r = parse(toks); format!("Or<{l}, {r}>") }
        'x' => { let l = parse(toks); let r = parse(toks); format!("Xor<{l}, {r}>") }
        '!' => format!("Not<{}>", parse(toks)),
        'w' => format!("With<{}>", parse(toks)),
        'h' => format!("Has<{}>", parse(toks)),
        'e' => "EntityId".into(),
        _ => panic!("bad token {t}"),
    }
}

fn main() {
    println!("cargo:rerun-if-changed=queries.txt");
    println!("cargo:rerun-if-changed=build.rs");
    let src = std::fs::read_to_string("queries.txt").unwrap();
    let mut fetch = String::new();
    let mut recv = String::new();
    let mut list = String::new();
    let mut qi = 0u32;
    for line in src.lines() {
        let line = line.trim();
        if line.is_empty() || line.starts_with('#') { continue; }
        qi += 1;
        let (is_recv, q) = match line.strip_prefix("R ") { Some(q) => (true, q), None => (false, line) };
        let toks: Vec<&str> = q.split_whitespace().collect();
        let mut ty = parse(&mut toks.iter());
        let key = toks.join(" ");
        // three registry queries go through derived query structs instead of the equivalent tuple
        match key.as_str() {
            "t2 r0 r1" => ty = "DqPair<'static>".into(),
            "t2 m0 ! r1" => ty = "DqTuple<'static>".into(),
            "t3 e o m0 h r1" => ty = "DqMixed<'static>".into(),
            _ => {}
        }
        let wrap = qi % 4;
        writeln!(fetch, "        {key:?} => Some(Box::new(FetchP::<{ty}>::new(kind, {wrap}))),").unwrap();
        if is_recv {
            writeln!(recv, "        {key:?} => make_recv_t_q::<{ty}>(tag, mutable),").unwrap();
        }
        writeln!(list, "    ({key:?}, {is_recv}),").unwrap();
    }
    let out = format!(
        "pub fn make_fetch(kind: u8, q: &str) -> Option<Box<dyn DynParam>> {{\n    match q {{\n{fetch}        _ => None,\n    }}\n}}\n\
         pub fn make_recv_t(tag: u32, mutable: bool, q: &str) -> Option<Box<dyn DynParam>> {{\n    match q {{\n{recv}        _ => None,\n    }}\n}}\n\
         pub const QUERIES: &[(&str, bool)] = &[\n{list}];\n"
    );
    let dir = std::env::var("OUT_DIR").unwrap();
    std::fs::write(format!("{dir}/registry.rs"), out).unwrap();
}
