#!/bin/sh
# Builds the Coq development (full .vo build), extracts the executable model and compiles
# the OCaml driver.  Usage: build_model.sh [make-target]
set -e
cd /verif/coq
[ -f Makefile ] || coq_makefile -f _CoqProject -o Makefile >/dev/null
timeout 3000 make -j16 "$@" > /verif/.cache/coq_build.log 2>&1 || { grep -B2 -A12 "^Error\|Error:" /verif/.cache/coq_build.log | head -60; exit 2; }
cd /verif/ocaml
if [ ! -f driver ] || [ ../coq/World.vo -nt driver ] || [ driver.ml -nt driver ] || [ ../coq/Extract.v -nt driver ]; then
  coqc -Q ../coq EV ../coq/Extract.v > /dev/null
  rm -f ../coq/Extract.vo ../coq/Extract.glob ../coq/.Extract.aux ../coq/Extract.vok ../coq/Extract.vos
  ocamlfind ocamlopt -O3 -package str -w -a model.mli model.ml driver.ml -o driver 2>/dev/null || ocamlfind ocamlopt -package str -w -a model.mli model.ml driver.ml -o driver
fi
