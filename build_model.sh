#!/bin/sh
# Builds the Coq development (full .vo build), extracts the executable model and compiles
# the OCaml driver.  Usage: build_model.sh [make-target]
# Exit 0: everything built.  Exit 3: the executable model (World.vo and what it imports) built and was extracted,
# but some proof file did not compile (listed in .cache/coq_failed.txt; the properties whose theorems depend on
# it are reported by their own audit, the others are not affected).  Exit 2: the model itself does not build.
cd /verif/coq
[ -f Makefile ] || coq_makefile -f _CoqProject -o Makefile >/dev/null
rc=0
timeout 3000 make -k -j16 "$@" > /verif/.cache/coq_build.log 2>&1 || rc=3
if [ $rc -ne 0 ]; then
  grep -B2 -A12 "^Error\|Error:" /verif/.cache/coq_build.log | head -60
  grep -o "Makefile:[0-9]*: [A-Za-z0-9_/]*\.vo" /verif/.cache/coq_build.log | sed 's/.*: //' | sort -u > /verif/.cache/coq_failed.txt
  # a .vo that make could not bring up to date (the failed files and everything that depends on them) must not
  # be loaded in its stale form by a later coqc
  for v in $(grep '\.v$' _CoqProject); do make -q "${v}o" > /dev/null 2>&1 || rm -f "${v}o"; done
  timeout 2000 make World.vo > /dev/null 2>&1 || exit 2
else
  : > /verif/.cache/coq_failed.txt
fi
cd /verif/ocaml
if [ ! -f driver ] || [ ../coq/World.vo -nt driver ] || [ driver.ml -nt driver ] || [ ../coq/Extract.v -nt driver ]; then
  coqc -Q ../coq EV ../coq/Extract.v > /dev/null || exit 2
  rm -f ../coq/Extract.vo ../coq/Extract.glob ../coq/.Extract.aux ../coq/Extract.vok ../coq/Extract.vos
  ocamlfind ocamlopt -O3 -package str -w -a model.mli model.ml driver.ml -o driver 2>/dev/null || ocamlfind ocamlopt -package str -w -a model.mli model.ml driver.ml -o driver || exit 2
fi
exit $rc
