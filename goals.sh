#!/bin/sh
# usage: goals.sh File.v LemmaName  -- prints the open goals at the Qed of that lemma (debug aid)
cd /verif/coq
python3 - "$1" "$2" <<'PY'
import sys,re
f,name=sys.argv[1],sys.argv[2]
s=open(f).read()
i=s.index('Lemma '+name) if ('Lemma '+name) in s else s.index('Theorem '+name)
j=s.index('Qed.',i)
open('/tmp/_goals.v','w').write(s[:j]+'Show. Abort.\n')
PY
coqc -Q . EV /tmp/_goals.v 2>&1 | tail -${3:-60}
